"""Sidecar contract registry.

Contracts are plain data keyed by 'relpath:QualName' of the real function (or
'model:<Model>.<method>' for trusted environment-model methods).  Clauses are
Python expressions (strings) in the executor's subset plus old(), result,
forall(lo, hi, lambda i: ...), exists(...), implies(a, b).
"""
from __future__ import annotations

import ast

from .values import ObjModel, VFunc


class Contract:
    def __init__(self, key, *, params=None, self_model=None, returns=None, requires=(), ensures=(),
                 raises=None, raises_ensures=None, modifies=None, loops=None, inline=False,
                 trusted=False, prop=None, closure=None, note="", param_names=None,
                 allow_any_raise=False, replay=None, cases=None, ghost_params=None, frame=None,
                 decreases=None, raise_modifies=None, assumes=(), ghost_after=None, inline_callees=(), tier="quick", call_inline=False, raises_fields=None, defaults=None, returns_expr=None, call_ghost=None):
        # ghost arguments passed at call sites inside this function: {callee key: {ghost param: expression text}}
        self.call_ghost = {k: {g: self._p(e) for g, e in v.items()} for k, v in (call_ghost or {}).items()}
        # the call returns (an alias of) this expression over the arguments instead of a fresh value
        self.returns_expr = self._p(returns_expr) if returns_expr else None
        # default values (expression text) of parameters of model methods, which have no real signature
        self.defaults = {k: self._p(v) for k, v in (defaults or {}).items()}
        self.key = key
        self.params = dict(params or {})
        self.self_model = self_model
        self.returns = returns
        self.requires = [self._p(x) for x in requires]
        self.requires_src = list(requires)
        # environmental assumptions: assumed when the body is verified, NOT obliged at call sites
        self.assumes = [self._p(x) for x in assumes]
        self.assumes_src = list(assumes)
        self.ensures = [self._p(x) for x in ensures]
        self.ensures_src = list(ensures)
        self.raises = {k: self._p(v) for k, v in (raises or {}).items()}
        self.raises_src = dict(raises or {})
        self.raises_ensures = {k: [self._p(x) for x in v] for k, v in (raises_ensures or {}).items()}
        self.raises_ensures_src = dict(raises_ensures or {})
        # frame: what the call may change.  Declared -> checked when the function is verified (frame obligations)
        # and the only thing havoced at call sites.  Not declared -> nothing is checked, and call sites of a
        # verified (non-trusted) contract havoc everything reachable from the arguments.
        self.modifies_declared = modifies is not None
        self.modifies = list(modifies or ())
        # on an exceptional exit: as declared, else (conservatively) the same as on a normal one
        self.raise_modifies = list(raise_modifies) if raise_modifies is not None else list(self.modifies)
        self.loops = {}
        for o, sp in (loops or {}).items():
            sp = dict(sp)
            sp["inv_src"] = list(sp.get("inv", []))
            sp["inv"] = [self._p(x) for x in sp.get("inv", [])]
            if sp.get("decreases"):
                sp["decreases_src"] = sp["decreases"]
                sp["decreases"] = self._p(sp["decreases"])
            self.loops[o] = sp
        # ghost code: {source text of a statement of the function: [ghost statements run right after it]}
        self.ghost_after = {}
        self.ghost_prefix = {}
        for k, stmts in (ghost_after or {}).items():
            if k.endswith("..."):
                self.ghost_prefix[k[:-3]] = [ast.parse(x).body[0] for x in stmts]
                continue
            self.ghost_after[ast.unparse(ast.parse(k).body[0])] = [ast.parse(x).body[0] for x in stmts]
        self.ghost_after_src = dict(ghost_after or {})
        # callees executed from their real source (not via their contract) while verifying this function
        self.inline_callees = set(inline_callees)
        # call sites execute the real body instead of assuming this contract (used where clauses talk about
        # the interpreter-level callback log, which a modular call cannot reproduce)
        self.call_inline = call_inline
        # attributes carried by an exception this contract raises: {class: {attr: shape}} (fresh, constrained by raises_ensures via `exc`)
        self.raises_fields = dict(raises_fields or {})
        self.tier = tier   # 'thorough': only verified in the thorough tier (slow generation)
        self.inline = inline
        self.trusted = trusted
        self.prop = prop
        self.closure = dict(closure or {})
        self.note = note
        self.param_names = param_names
        self.allow_any_raise = allow_any_raise
        self.replay = replay
        self.cases = cases
        self.ghost_params = dict(ghost_params or {})
        self.frame = frame

    @staticmethod
    def _p(src):
        try:
            return ast.parse(src.strip(), mode="eval").body
        except SyntaxError as e:
            raise SyntaxError(f"contract clause {src!r}: {e}")


def _mentions(term, names):
    import z3
    stack = [term]
    seen = set()
    while stack:
        x = stack.pop()
        i = x.get_id()
        if i in seen:
            continue
        seen.add(i)
        if z3.is_const(x) and x.decl().kind() == z3.Z3_OP_UNINTERPRETED and x.decl().name() in names:
            return True
        stack.extend(x.children())
    return False


class Registry:
    def __init__(self):
        self.contracts: dict[str, Contract] = {}
        self.models: dict[str, ObjModel] = {}
        self.spec_names = {}
        self.spec_src = {}
        self.overrides = {}
        self.constructors = {}
        self.tables = []  # (prop, name, callable) finite-domain obligations
        self.lemmas = []  # (prop, name, callable(z3) -> (assumptions, goal))
        self.statics = []  # (prop, name, callable) static AST obligations
        self.stub_src = {}
        self.native_specs = {}  # name -> python callable: native meaning of a builtin spec function (replay)

    def builtin_spec(self, name, symbolic, native):
        """spec function given as a pair: symbolic implementation (interp, args, kwargs, node) and native meaning"""
        from .values import VBuiltin
        if name in self.spec_names:
            raise ValueError(f"spec function {name!r} defined twice")
        self.spec_names[name] = VBuiltin("spec:" + name, symbolic)
        self.native_specs[name] = native

    def stub(self, key, source):
        """trusted stub for a foreign (C-implemented) method, given as Python source that the
        executor runs symbolically; listed in the evidence as an assumption"""
        import ast as _ast
        fn = _ast.parse(source).body[0]
        self.stub_src[key] = source

        def impl(interp, args, kwargs, node, fn=fn):
            f = VFunc(fn, None, None, "stub:" + key)
            return interp.run_body(f, args, kwargs, node)
        self.overrides[key] = impl

    def stub_method(self, key, source):
        """stand-in body for an ABSTRACT hook of the repository (a method that raises NotImplementedError and is
        meant to be overridden); listed in the evidence as an assumption"""
        import ast as _ast
        fn = _ast.parse(source).body[0]
        self.stub_src["stubmethod:" + key] = source
        self.overrides["stubmethod:" + key] = fn

    def contract(self, key, **kw):
        c = Contract(key, **kw)
        self.contracts[key] = c
        return c

    def model(self, name, **kw):
        m = ObjModel(name, **kw)
        self.models[name] = m
        return m

    def spec(self, sig, body):
        """spec function: reg.spec('I(self)', '0 <= self._pos')"""
        name = sig.split("(")[0].strip()
        if name in self.spec_src and self.spec_src[name] != (sig, body):
            raise ValueError(f"spec function {name!r} defined twice with different bodies")
        if name in self.native_specs:
            raise ValueError(f"spec function {name!r} is already defined as a builtin spec")
        node = ast.parse(f"lambda {sig[sig.index('(') + 1: sig.rindex(')')]}: ({body})", mode="eval").body
        self.spec_names[name] = VFunc(node, None, None, name)
        self.spec_src[name] = (sig, body)

    def ufunc(self, name, argshapes, retshape, native=None):
        """uninterpreted spec function (abstract result of a parser etc.), usable in clauses"""
        import z3
        from .values import parse_shape, leaf_sorts, unflatten, flatten, VBuiltin, VSet, StrS, BoolS, IntS
        args = [parse_shape(a, self.models) for a in argshapes]
        ret = parse_shape(retshape, self.models)
        dom = []
        for a in args:
            dom += leaf_sorts(a)
        if isinstance(ret, tuple) and ret[0] == "set":
            rsorts = [z3.ArraySort({"str": StrS, "bytes": StrS, "int": IntS}[ret[1]], BoolS)]
        else:
            rsorts = leaf_sorts(ret)
        fns = [z3.Function(f"uf_{name}_{i}", *(dom + [rs])) for i, rs in enumerate(rsorts)]

        def impl(interp, a, k, n):
            from .lib import coerce
            leaves = []
            from .values import VOpt
            for v, sh in zip(a, args):
                if isinstance(v, VOpt) and not (isinstance(sh, tuple) and sh[0] == "opt"):
                    v = v.val if interp.spec else interp.need(v)
                leaves += flatten(coerce(interp, v, sh), sh)
            outs = [f(*leaves) for f in fns]
            if isinstance(ret, tuple) and ret[0] == "set":
                return VSet(outs[0], ret[1])
            return unflatten(ret, outs)
        self.spec_names[name] = VBuiltin("ufunc:" + name, impl)
        self.ufunc_native = getattr(self, "ufunc_native", {})
        if native is not None:
            self.ufunc_native[name] = native

    def defn(self, sig, body, shapes, returns="bool"):
        """ghost function with a definition: M(args) is an uninterpreted application whose
        defining equation  M(args) == body(args)  is added to the path condition for every
        GROUND application (ground instantiation at use sites).  Under a quantifier the
        application stays opaque, which keeps strings out of quantified formulas."""
        import z3
        from .values import parse_shape, leaf_sorts, unflatten, flatten, VBuiltin, VOpt
        name = sig.split("(")[0].strip()
        params = [p.strip() for p in sig[sig.index("(") + 1: sig.rindex(")")].split(",")]
        pshapes = [parse_shape(shapes[p], self.models) for p in params]
        ret = parse_shape(returns, self.models)
        dom = []
        for sh in pshapes:
            if isinstance(sh, tuple) and sh[0] == "list":
                from .values import IntS
                dom += [z3.ArraySort(IntS, ls) for ls in leaf_sorts(sh[1])] + [IntS]
            else:
                dom += leaf_sorts(sh)
        fns = [z3.Function(f"ghost_{name}_{i}", *(dom + [rs])) for i, rs in enumerate(leaf_sorts(ret))]
        body_fn = None
        if body is not None:
            body_node = ast.parse(f"lambda {', '.join(params)}: ({body})", mode="eval").body
            body_fn = VFunc(body_node, None, None, name + "!def")

        def impl(interp, a, k, n):
            from .lib import coerce
            from .ops import eq as veq
            leaves = []
            vals = []
            for v, sh in zip(a, pshapes):
                if isinstance(v, VOpt) and not (isinstance(sh, tuple) and sh[0] == "opt"):
                    v = v.val if interp.spec else interp.need(v)
                vals.append(v)
                if isinstance(sh, tuple) and sh[0] == "list":
                    if v.concrete:
                        from .lib import to_symbolic
                        v = to_symbolic(interp, v, sh[1])
                    leaves += list(v.arrs) + [v.length]
                else:
                    leaves += flatten(coerce(interp, v, sh), sh)
            outs = [f(*leaves) for f in fns]
            res = unflatten(ret, list(outs))
            bound = getattr(interp, "bound_names", None) or set()
            ground = not bound or not any(_mentions(l, bound) for l in leaves)
            if ground and body_fn is not None and not getattr(interp, "_in_defn", 0):
                seen = interp.ctx.__dict__.setdefault("_defn_seen", set())
                key = (name, tuple(l.get_id() for l in leaves))
                if key not in seen:
                    seen.add(key)
                    sp = interp if interp.spec else interp.sub(True)
                    # definitions are unfolded ONE level: applications inside the body stay opaque
                    sp._in_defn = getattr(sp, "_in_defn", 0) + 1
                    try:
                        val = sp.call(body_fn, vals, {}, n)
                    finally:
                        sp._in_defn -= 1
                    interp.ctx.assume(veq(res, val), f"ghost-def:{name}")
            return res
        self.spec_names[name] = VBuiltin("defn:" + name, impl)
        if body is not None:
            # native meaning (replay): the definition itself
            self.defn_src = getattr(self, "defn_src", {})
            self.defn_src[name] = (sig, body)
        self.spec_src[name] = (sig, body)

    def lemma_spec(self, prop, name, vars, assumes=(), hints=(), goals=()):
        """a lemma over spec / ghost functions only (no code): fresh symbolic `vars`, `assumes`
        assumed, `hints` evaluated (ground instantiation of definitions), each goal an obligation"""
        self.lemma_specs = getattr(self, "lemma_specs", [])
        self.lemma_specs.append({"prop": prop, "name": name, "vars": dict(vars), "assumes": list(assumes),
                                 "hints": list(hints), "goals": list(goals)})

    def table(self, prop, name):
        def deco(fn):
            self.tables.append((prop, name, fn))
            return fn
        return deco

    def lemma(self, prop, name):
        def deco(fn):
            self.lemmas.append((prop, name, fn))
            return fn
        return deco

    def static(self, prop, name):
        def deco(fn):
            self.statics.append((prop, name, fn))
            return fn
        return deco

    def for_prop(self, prop):
        return [c for c in self.contracts.values() if c.prop == prop and not c.trusted]
