"""Symbolic value model of pyvc.

Every Python value the executor manipulates is one of the V* classes below.
Immutable scalars carry a z3 term; containers and objects are ordinary Python
objects mutated in place (each explored path is a fresh execution, so there is
no need for persistent heaps).
"""
from __future__ import annotations

import itertools
import z3

# --------------------------------------------------------------------------
# sorts

IntS = z3.IntSort()
BoolS = z3.BoolSort()
RealS = z3.RealSort()
StrS = z3.StringSort()
_opaque_sorts: dict[str, z3.SortRef] = {}


def opaque_sort(name: str) -> z3.SortRef:
    if name not in _opaque_sorts:
        _opaque_sorts[name] = z3.DeclareSort("U_" + name)
    return _opaque_sorts[name]


class V:
    """base class of symbolic values"""

    pytype = "object"

    def __repr__(self):
        return f"<{type(self).__name__} {self.__dict__}>"


class VNone(V):
    pytype = "NoneType"
    _inst = None

    def __new__(cls):
        if cls._inst is None:
            cls._inst = super().__new__(cls)
        return cls._inst

    def __repr__(self):
        return "VNone"


NONE = VNone()


class VInt(V):
    pytype = "int"

    def __init__(self, z):
        self.z = z3.IntVal(z) if isinstance(z, int) else z

    def __repr__(self):
        return f"VInt({self.z})"


class VBool(V):
    pytype = "bool"

    def __init__(self, z):
        self.z = z3.BoolVal(z) if isinstance(z, bool) else z

    def __repr__(self):
        return f"VBool({self.z})"


class VFloat(V):
    pytype = "float"

    def __init__(self, z):
        if isinstance(z, (int, float)):
            z = z3.RealVal(repr(z))
        self.z = z

    def __repr__(self):
        return f"VFloat({self.z})"


class VStr(V):
    """str or bytes (immutable); `kind` is 'str' or 'bytes'."""

    def __init__(self, z, kind="str"):
        if isinstance(z, str):
            z = z3.StringVal(z)
        elif isinstance(z, (bytes, bytearray)):
            z = z3.StringVal(z.decode("latin-1"))
            kind = "bytes"
        self.z = z
        self.kind = kind

    @property
    def pytype(self):
        return self.kind

    def __repr__(self):
        return f"VStr[{self.kind}]({self.z})"


class VOpt(V):
    """Optional[T]: `isnone` (z3 Bool) and the inner value (meaningful when not isnone)."""

    def __init__(self, isnone, val):
        self.isnone = z3.BoolVal(isnone) if isinstance(isnone, bool) else isnone
        self.val = val

    def __repr__(self):
        return f"VOpt({self.isnone}, {self.val!r})"


class VTuple(V):
    pytype = "tuple"

    def __init__(self, items):
        self.items = list(items)

    def __repr__(self):
        return f"VTuple({self.items!r})"


_ids = itertools.count(1)


class VList(V):
    """list.  Concrete spine: `items` is a python list of V.
    Symbolic spine: `items is None`, `arrs` = one z3 Array(Int -> leaf sort) per
    leaf of `shape`, `length` a z3 Int."""

    pytype = "list"

    def __init__(self, items=None, *, shape=None, arrs=None, length=None):
        self.items = items
        self.shape = shape
        self.arrs = arrs
        self.length = length
        self.id = next(_ids)
        self.tags = set()

    @property
    def concrete(self):
        return self.items is not None

    def __repr__(self):
        if self.concrete:
            return f"VList({self.items!r})"
        return f"VList(sym len={self.length} shape={self.shape})"


class VByteArray(V):
    """bytearray (fixed=False) or writable memoryview (fixed=True)."""

    def __init__(self, z, fixed=False):
        self.z = z
        self.fixed = fixed
        self.id = next(_ids)

    @property
    def pytype(self):
        return "memoryview" if self.fixed else "bytearray"

    def __repr__(self):
        return f"VByteArray({self.z}, fixed={self.fixed})"


class VDict(V):
    """dict.  Concrete spine only in `items` (python dict keyed by hashable python
    constants -> V) or symbolic: z3 Array key -> (present Bool, leaves...)."""

    pytype = "dict"

    def __init__(self, items=None, *, keysort=None, shape=None, present=None, arrs=None, keykind="str"):
        self.items = items
        self.keysort = keysort
        self.shape = shape
        self.present = present
        self.arrs = arrs
        self.keykind = keykind
        self.id = next(_ids)
        self.tags = set()

    @property
    def concrete(self):
        return self.items is not None


class VSet(V):
    """symbolic set of a scalar sort: z3 Array elem -> Bool; or concrete python list of V."""

    pytype = "set"

    def __init__(self, arr=None, elemkind="str", items=None):
        self.arr = arr
        self.elemkind = elemkind
        self.items = items
        self.id = next(_ids)
        self.tags = set()


class VObj(V):
    def __init__(self, cls, fields=None, model=None):
        self.cls = cls  # ClassInfo or model class name (str)
        self.fields = fields if fields is not None else {}
        self.model = model  # ObjModel the object was created from (or None)
        self.id = next(_ids)
        self.tags = set()

    @property
    def pytype(self):
        return getattr(self.cls, "name", self.cls)

    def __repr__(self):
        return f"VObj({self.pytype}#{self.id} {list(self.fields)})"


class VFunc(V):
    pytype = "function"

    def __init__(self, node, module, closure=None, qualname=None, cls=None):
        self.node = node
        self.module = module
        self.closure = closure
        self.qualname = qualname or node.name
        self.cls = cls
        self.self_obj = None

    def bind(self, obj):
        f = VFunc(self.node, self.module, self.closure, self.qualname, self.cls)
        f.self_obj = obj
        return f

    def __repr__(self):
        return f"VFunc({self.qualname})"


class VBuiltin(V):
    pytype = "builtin"

    def __init__(self, name, impl, self_obj=None):
        self.name = name
        self.impl = impl
        self.self_obj = self_obj

    def __repr__(self):
        return f"VBuiltin({self.name})"


class VClass(V):
    pytype = "type"

    def __init__(self, info):
        self.info = info  # ClassInfo, or str for builtin / external classes

    @property
    def name(self):
        return getattr(self.info, "name", self.info)

    def __repr__(self):
        return f"VClass({self.name})"


class VModule(V):
    pytype = "module"

    def __init__(self, name, info=None):
        self.name = name
        self.info = info

    def __repr__(self):
        return f"VModule({self.name})"


class VRegex(V):
    pytype = "re.Pattern"

    def __init__(self, pattern, flags=0, is_bytes=False):
        self.pattern = pattern
        self.flags = flags
        self.is_bytes = is_bytes


class VOpaque(V):
    """value of an uninterpreted sort (callbacks, foreign objects); supports ==."""

    def __init__(self, z, kind="obj"):
        self.z = z
        self.kind = kind
        self.tags = set()

    @property
    def pytype(self):
        return self.kind

    def __repr__(self):
        return f"VOpaque({self.z})"


class VExc(V):
    def __init__(self, cls, args=(), info=None):
        self.cls = cls  # class name (str)
        self.args = list(args)
        self.info = info or {}
        self.fields = {}

    @property
    def pytype(self):
        return self.cls

    def __repr__(self):
        return f"VExc({self.cls})"


class VGhostLog(V):
    """ghost call log: python list of (tag, [V...]) appended in program order."""

    def __init__(self):
        self.events = []


# --------------------------------------------------------------------------
# type descriptors ("shapes")
#
# A shape is one of
#   'int' 'bool' 'float' 'str' 'bytes' 'none'
#   ('opt', shape)  ('tuple', [shapes])  ('list', shape)
#   ('bytearray',) ('memoryview',)
#   ('opaque', name)
#   ('obj', ObjModel)
#   ('dict', keykind, shape)  ('set', elemkind)


def parse_shape(s, models=None):
    """parse a type string such as 'Optional[Tuple[int, Optional[int]]]'."""
    if isinstance(s, ObjModel):
        return ("obj", s)
    if isinstance(s, dict):
        return ("dictrec", {k: parse_shape(v, models) for k, v in s.items()})
    if not isinstance(s, str):
        return s
    s = s.strip()
    low = s.lower()
    if low in ("int", "bool", "float", "str", "bytes", "none"):
        return low
    if low == "bytearray":
        return ("bytearray",)
    if low == "memoryview":
        return ("memoryview",)
    if s.startswith("Optional[") and s.endswith("]"):
        return ("opt", parse_shape(s[9:-1], models))
    if s.startswith("List[") and s.endswith("]"):
        return ("list", parse_shape(s[5:-1], models))
    if s.startswith("Set[") and s.endswith("]"):
        return ("set", s[4:-1].strip().lower())
    if s.startswith("Dict[") and s.endswith("]"):
        k, v = _split_top(s[5:-1])
        return ("dict", k.strip().lower(), parse_shape(v, models))
    if s.startswith("Tuple[") and s.endswith("]"):
        return ("tuple", [parse_shape(p, models) for p in _split_top(s[6:-1])])
    if s.startswith("opaque:"):
        return ("opaque", s[7:])
    if models and s in models:
        return ("obj", models[s])
    raise ValueError(f"unknown type descriptor {s!r}")


def _split_top(s):
    parts, depth, cur = [], 0, ""
    for ch in s:
        if ch == "[":
            depth += 1
        elif ch == "]":
            depth -= 1
        if ch == "," and depth == 0:
            parts.append(cur)
            cur = ""
        else:
            cur += ch
    if cur.strip():
        parts.append(cur)
    return parts


def leaf_sorts(shape):
    """z3 sorts of the scalar leaves of a (container-free) shape."""
    if shape == "int":
        return [IntS]
    if shape == "bool":
        return [BoolS]
    if shape == "float":
        return [RealS]
    if shape in ("str", "bytes"):
        return [StrS]
    if shape == "none":
        return []
    k = shape[0]
    if k == "opt":
        return [BoolS] + leaf_sorts(shape[1])
    if k == "tuple":
        out = []
        for s in shape[1]:
            out += leaf_sorts(s)
        return out
    if k == "opaque":
        return [opaque_sort(shape[1])]
    if k == "list":
        # a list as a VALUE inside another container (dict of lists): one array per element leaf, plus the length
        return [z3.ArraySort(IntS, ls) for ls in leaf_sorts(shape[1])] + [IntS]
    raise ValueError(f"shape {shape!r} has no scalar leaves")


def flatten(v, shape):
    """leaves of value v (must conform to shape)."""
    if shape in ("int", "bool", "float", "str", "bytes"):
        return [v.z]
    if shape == "none":
        return []
    k = shape[0]
    if k == "opt":
        if isinstance(v, VNone):
            return [z3.BoolVal(True)] + [default_leaf(s) for s in leaf_sorts(shape[1])]
        if isinstance(v, VOpt):
            return [v.isnone] + flatten(v.val, shape[1])
        return [z3.BoolVal(False)] + flatten(v, shape[1])
    if k == "tuple":
        out = []
        for it, s in zip(v.items, shape[1]):
            out += flatten(it, s)
        return out
    if k == "opaque":
        return [v.z]
    if k == "list":
        if v.concrete:
            sorts = leaf_sorts(shape[1])
            arrs = [z3.K(IntS, default_leaf(ls)) for ls in sorts]
            for i, x in enumerate(v.items):
                arrs = [z3.Store(a, z3.IntVal(i), l) for a, l in zip(arrs, flatten(x, shape[1]))]
            return arrs + [z3.IntVal(len(v.items))]
        return list(v.arrs) + [v.length]
    raise ValueError(f"cannot flatten {shape!r}")


def default_leaf(sort):
    if sort == IntS:
        return z3.IntVal(0)
    if sort == BoolS:
        return z3.BoolVal(False)
    if sort == RealS:
        return z3.RealVal(0)
    if sort == StrS:
        return z3.StringVal("")
    if sort.kind() == z3.Z3_ARRAY_SORT:
        return z3.K(sort.domain(), default_leaf(sort.range()))
    return z3.Const("dflt_" + str(sort), sort)


def unflatten(shape, leaves):
    """inverse of flatten; consumes from the list `leaves` (a python list used as a queue)."""
    if shape == "int":
        return VInt(leaves.pop(0))
    if shape == "bool":
        return VBool(leaves.pop(0))
    if shape == "float":
        return VFloat(leaves.pop(0))
    if shape == "str":
        return VStr(leaves.pop(0), "str")
    if shape == "bytes":
        return VStr(leaves.pop(0), "bytes")
    if shape == "none":
        return NONE
    k = shape[0]
    if k == "opt":
        isnone = leaves.pop(0)
        return VOpt(isnone, unflatten(shape[1], leaves))
    if k == "tuple":
        return VTuple([unflatten(s, leaves) for s in shape[1]])
    if k == "opaque":
        return VOpaque(leaves.pop(0), shape[1])
    if k == "list":
        n = len(leaf_sorts(shape[1]))
        arrs = [leaves.pop(0) for _ in range(n)]
        return VList(None, shape=shape[1], arrs=arrs, length=leaves.pop(0))
    raise ValueError(f"cannot unflatten {shape!r}")


def shape_of(v):
    """shape of a scalar-ish value (used to havoc variables 'like' their current value)."""
    if isinstance(v, VBool):
        return "bool"
    if isinstance(v, VInt):
        return "int"
    if isinstance(v, VFloat):
        return "float"
    if isinstance(v, VStr):
        return v.kind
    if isinstance(v, VNone):
        return "none"
    if isinstance(v, VOpt):
        return ("opt", shape_of(v.val))
    if isinstance(v, VTuple):
        return ("tuple", [shape_of(i) for i in v.items])
    if isinstance(v, VOpaque):
        return ("opaque", v.kind)
    if isinstance(v, VByteArray):
        return ("memoryview",) if v.fixed else ("bytearray",)
    if isinstance(v, VList) and not v.concrete:
        return ("list", v.shape)
    raise ValueError(f"no shape for {v!r}")


class ObjModel:
    """Model of an object: the fields the contracts talk about, with shapes.

    cls      -- 'relpath:ClassName' of the real class whose methods are used
                (None for pure environment models whose methods are given by
                trusted contracts keyed 'model:<name>.<method>')
    fields   -- {name: shape-string | ObjModel}
    hasattr  -- {attribute name: field name holding the Bool} for hasattr() tests
    """

    def __init__(self, name, cls=None, fields=None, hasattr=None, invariant=None, order_key=None,
                 isinstance=None, setters=None):
        self.setters = setters or {}
        self.order_key = order_key
        self.isinstance = isinstance
        self.name = name
        self.cls = cls
        self.fields = fields or {}
        self.hasattr = hasattr or {}
        self.invariant = invariant or []

    def __repr__(self):
        return f"ObjModel({self.name})"
