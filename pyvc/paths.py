"""Path exploration by decision-prefix replay.

A path is a list of integer decisions.  The function under analysis is
re-executed from its entry for every path; decisions inside the prefix are
replayed without solver calls, the first decision after the prefix is checked
for feasibility and its alternatives are queued.
"""
from __future__ import annotations

import os
import time
import z3


import threading


def timed_check(solver, timeout_s):
    """solver.check() under z3's own timeout (set by the caller).  A hard wall-clock limit is
    enforced one level up: every function is verified in its own process, which is killed when
    it exceeds its budget (=> undecided, never a verdict).  Interrupting the context from a
    timer thread was tried and abandoned: a late interrupt corrupts the incremental solver."""
    try:
        return solver.check()
    except z3.Z3Exception:
        return z3.unknown


_qcache = {}


def _has_quantifier(f):
    k = f.get_id()
    r = _qcache.get(k)
    if r is None:
        r = False
        stack = [f]
        seen = set()
        while stack:
            x = stack.pop()
            if z3.is_quantifier(x):
                r = True
                break
            i = x.get_id()
            if i in seen:
                continue
            seen.add(i)
            stack.extend(x.children())
        _qcache[k] = r
    return r


class PathEnd(Exception):
    """the current path is over (infeasible, cut at a loop, assume(False))"""


class Budget(Exception):
    pass


class Obligation:
    __slots__ = ("kind", "label", "pc", "goal", "info", "path", "line", "inputs")

    def __init__(self, kind, label, pc, goal, info, path, line):
        self.kind = kind
        self.label = label
        self.pc = pc
        self.goal = goal
        self.info = info
        self.path = path
        self.line = line
        self.inputs = None


class PathCtx:
    def __init__(self, prefix, explorer):
        self.prefix = prefix
        self.ex = explorer
        self.decisions = []
        self.pc = []
        self.assumptions = []  # (origin, formula)
        self.alternatives = []
        self.obligations = []
        self.fresh_counter = {}
        self.trace = []
        self.cur_line = 0

    # ---- naming
    def fresh_name(self, base):
        n = self.fresh_counter.get(base, 0)
        self.fresh_counter[base] = n + 1
        return f"{base}!{n}"

    @property
    def replaying(self):
        return len(self.decisions) < len(self.prefix)

    # ---- path condition
    def assume(self, f, origin="assume"):
        f = z3.simplify(f) if z3.is_expr(f) else z3.BoolVal(bool(f))
        if z3.is_true(f):
            return
        self.pc.append(f)
        self.assumptions.append((origin, f))
        self.ex.origins.add(origin.split("[")[0])
        if z3.is_false(f):
            if not origin.startswith("callee-raises-cond"):
                self.ex.false_assumes.append((origin, self.cur_line))
            raise PathEnd()

    def _feasible(self, cond):
        r = self._query([cond], self.ex.branch_timeout_ms)
        return r != z3.unsat  # unknown counts as feasible (sound: more paths)

    def implied(self, f, timeout_ms=300):
        """True if the path condition certainly implies f (used only to pick simpler but
        equivalent encodings; 'don't know' is always a safe answer).  Deterministic per path
        prefix is not required: both encodings are logically equivalent under the pc."""
        f = z3.simplify(f)
        if z3.is_true(f):
            return True
        if z3.is_false(f):
            return False
        r = self._query([z3.Not(f)], timeout_ms)
        return r == z3.unsat

    def _query(self, extra, timeout_ms):
        """non-incremental query: pc + extra in a fresh solver (z3's incremental mode hangs in
        push() on some string/quantifier states and ignores its timeout there)"""
        s = z3.Solver()
        s.set("timeout", timeout_ms)
        for f in self.pc:
            # quantified assumptions (loop invariants, list axioms) are left out of feasibility /
            # implication side-queries: a weaker antecedent keeps both uses sound (an "unsat" under
            # fewer assumptions is still unsat) and keeps z3 away from the string+quantifier
            # combinations on which its soft timeout is not honoured
            if _has_quantifier(f):
                continue
            s.add(f)
        for f in extra:
            s.add(f)
        if os.environ.get("PYVC_DUMP"):
            open(os.environ["PYVC_DUMP"], "w").write(s.to_smt2())
        self.ex.solver_calls += 1
        t0 = time.time()
        r = timed_check(s, timeout_ms / 1000.0)
        self.ex.solver_time += time.time() - t0
        return r

    def choose(self, conds, what="choice"):
        """pick one of several alternatives, each guarded by a z3 Bool.
        Returns the index taken on this path."""
        conds = [z3.simplify(c) if z3.is_expr(c) else z3.BoolVal(bool(c)) for c in conds]
        k = len(self.decisions)
        if k < len(self.prefix):
            d = self.prefix[k]
        else:
            live = [i for i, c in enumerate(conds) if not z3.is_false(c) and self._feasible(c)]
            if not live:
                raise PathEnd()
            d = live[0]
            for alt in live[1:]:
                self.alternatives.append(self.decisions + [alt])
            if len(self.decisions) > self.ex.max_depth:
                raise Budget(f"path deeper than {self.ex.max_depth} decisions")
        self.decisions.append(d)
        self.trace.append((what, self.cur_line, d))
        c = conds[d]
        if not z3.is_true(c):
            self.pc.append(c)
        return d

    def branch(self, cond, what="if"):
        cond = z3.simplify(cond)
        if z3.is_true(cond):
            return True
        if z3.is_false(cond):
            return False
        return self.choose([cond, z3.Not(cond)], what) == 0

    # ---- obligations
    def oblige(self, kind, label, goal, info=None):
        if self.replaying:
            return
        goal = z3.simplify(goal) if z3.is_expr(goal) else z3.BoolVal(bool(goal))
        ob = Obligation(kind, label, list(self.pc), goal, info or {}, list(self.decisions), self.cur_line)
        ob.inputs = getattr(self, "inputs", None)
        self.obligations.append(ob)
        import os as _os
        if _os.environ.get("PYVC_DEBUG_OB") and _os.environ["PYVC_DEBUG_OB"] in label:
            import sys as _sys
            print(f"[debug-ob] {kind} {label} decisions={self.decisions}\n   goal={goal}\n   pc={self.pc}", file=_sys.stderr)


class Explorer:
    def __init__(self, branch_timeout_ms=400, max_paths=4000, max_depth=400):
        self.branch_timeout_ms = branch_timeout_ms
        self.max_paths = max_paths
        self.max_depth = max_depth
        self.solver_calls = 0
        self.solver_time = 0.0
        self.paths = 0
        self.terminals = []  # (decisions, pc, outcome)
        self.false_assumes = []  # assumptions that evaluated to the constant False (contract bug?)
        self.origins = set()     # where every assumption put on a path condition came from (assumption scan)

    def explore(self, run_one, work=None, stop_when=None):
        """run_one(ctx) executes one path, returns an outcome tag (or raises PathEnd).
        work: initial list of decision prefixes (default: the empty prefix);
        stop_when(n_pending) -> True stops early and leaves the pending prefixes in self.pending"""
        work = [[]] if work is None else list(work)
        self.pending = []
        obligations = []
        while work:
            prefix = work.pop()
            ctx = PathCtx(prefix, self)
            self.paths += 1
            if self.paths > self.max_paths:
                raise Budget(f"more than {self.max_paths} paths")
            try:
                outcome = run_one(ctx)
                self.terminals.append((list(ctx.decisions), list(ctx.pc), outcome))
            except PathEnd:
                self.terminals.append((list(ctx.decisions), list(ctx.pc), "cut"))
            obligations.extend(ctx.obligations)
            work.extend(ctx.alternatives)
            if stop_when is not None and work and stop_when(len(work), self.paths):
                self.pending = work
                break
        return obligations
