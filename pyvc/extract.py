"""Extraction of the real source: modules, classes, functions are read from
$VERIF_REPO/src on every run.  Nothing is copied; the AST *is* the verified text.

Dropped by extraction (complete list): docstrings / bare string statements,
comments, `@t.overload` stubs (the last real definition of a name wins),
`t.cast(T, x)` is read as x, type annotations (not interpreted),
`if t.TYPE_CHECKING:` blocks.
"""
from __future__ import annotations

import ast
import hashlib
import os

REPO = os.environ.get("VERIF_REPO", "/repo")


def src_root():
    return os.path.join(os.environ.get("VERIF_REPO", REPO), "src")


class ExtractError(Exception):
    pass


def _is_overload(fn):
    for d in fn.decorator_list:
        s = ast.unparse(d)
        if s.endswith("overload"):
            return True
    return False


class ClassInfo:
    def __init__(self, node, module):
        self.node = node
        self.module = module
        self.name = node.name
        self.methods = {}
        self.attrs = {}
        self.base_exprs = list(node.bases)
        for st in node.body:
            if isinstance(st, (ast.FunctionDef, ast.AsyncFunctionDef)):
                if _is_overload(st):
                    continue
                self.methods.setdefault(st.name, []).append(st)
            elif isinstance(st, ast.Assign):
                for tg in st.targets:
                    if isinstance(tg, ast.Name):
                        self.attrs[tg.id] = st.value
            elif isinstance(st, ast.AnnAssign) and isinstance(st.target, ast.Name) and st.value is not None:
                self.attrs[st.target.id] = st.value
        self._mro = None

    def bases(self):
        out = []
        for b in self.base_exprs:
            if isinstance(b, ast.Subscript):
                b = b.value
            r = self.module.resolve_class_expr(b)
            out.append(r)
        return out

    def mro(self):
        """C3 linearisation; builtin / external bases appear as strings."""
        if self._mro is None:
            bs = [b for b in self.bases() if b is not None]
            seqs = [list(b.mro()) if isinstance(b, ClassInfo) else [b] for b in bs] + [bs]
            res = [self]
            seqs = [s for s in seqs if s]
            while seqs:
                for s in seqs:
                    cand = s[0]
                    if not any(_same_in_tail(cand, t) for t in seqs):
                        break
                else:
                    raise ExtractError(f"no C3 MRO for {self.name}")
                res.append(cand)
                seqs = [[x for x in s if not _same(x, cand)] for s in seqs]
                seqs = [s for s in seqs if s]
            self._mro = res
        return self._mro

    def find_method(self, name, after=None):
        """(ClassInfo, FunctionDef list) of the first class in the MRO defining name.
        `after`: start searching after this class (super())."""
        mro = self.mro()
        start = 0
        if after is not None:
            for i, c in enumerate(mro):
                if _same(c, after):
                    start = i + 1
                    break
        for c in mro[start:]:
            if isinstance(c, ClassInfo):
                if name in c.methods:
                    return c, c.methods[name]
                if name in c.attrs:
                    return c, c.attrs[name]
            else:
                return c, None  # reached a builtin / external base
        return None, None

    def qual(self):
        return f"{self.module.relpath}:{self.name}"

    def __repr__(self):
        return f"ClassInfo({self.qual()})"


def _same(a, b):
    if isinstance(a, ClassInfo) and isinstance(b, ClassInfo):
        return a.node is b.node
    return a == b


def _same_in_tail(c, seq):
    return any(_same(c, x) for x in seq[1:])


class ModuleInfo:
    _cache: dict[str, "ModuleInfo"] = {}

    @classmethod
    def get(cls, relpath):
        key = (src_root(), relpath)
        if key not in cls._cache:
            cls._cache[key] = ModuleInfo(relpath)
        return cls._cache[key]

    @classmethod
    def by_dotted(cls, dotted):
        """werkzeug.sansio.http -> ModuleInfo or None"""
        rel = dotted.replace(".", "/")
        for cand in (rel + ".py", rel + "/__init__.py"):
            if os.path.exists(os.path.join(src_root(), cand)):
                return cls.get(cand)
        return None

    def __init__(self, relpath):
        self.relpath = relpath
        self.path = os.path.join(src_root(), relpath)
        with open(self.path, encoding="utf-8") as f:
            self.source = f.read()
        self.tree = ast.parse(self.source)
        self.dotted = relpath[:-3].replace("/", ".")
        if self.dotted.endswith(".__init__"):
            self.dotted = self.dotted[: -len(".__init__")]
            self.package = self.dotted
        else:
            self.package = self.dotted.rsplit(".", 1)[0] if "." in self.dotted else ""
        self.functions = {}
        self.classes = {}
        self.assigns = {}
        self.imports = {}  # local name -> ('module', dotted) | ('from', dotted, name)
        self._index(self.tree.body)

    def _index(self, body):
        for st in body:
            if isinstance(st, (ast.FunctionDef, ast.AsyncFunctionDef)):
                if _is_overload(st):
                    continue
                self.functions[st.name] = st
            elif isinstance(st, ast.ClassDef):
                self.classes[st.name] = ClassInfo(st, self)
            elif isinstance(st, ast.Assign):
                for tg in st.targets:
                    if isinstance(tg, ast.Name):
                        self.assigns[tg.id] = st.value
                    elif isinstance(tg, ast.Tuple):
                        for i, e in enumerate(tg.elts):
                            if isinstance(e, ast.Name) and isinstance(st.value, ast.Tuple):
                                self.assigns[e.id] = st.value.elts[i]
            elif isinstance(st, ast.AnnAssign) and isinstance(st.target, ast.Name) and st.value is not None:
                self.assigns[st.target.id] = st.value
            elif isinstance(st, ast.Import):
                for a in st.names:
                    if a.asname:
                        self.imports[a.asname] = ("module", a.name)
                    else:
                        self.imports[a.name.split(".")[0]] = ("module", a.name.split(".")[0])
            elif isinstance(st, ast.ImportFrom):
                base = self._resolve_from(st)
                for a in st.names:
                    self.imports[a.asname or a.name] = ("from", base, a.name)
            elif isinstance(st, ast.If):
                test = ast.unparse(st.test)
                if "TYPE_CHECKING" in test:
                    continue
                self._index(st.body)
                self._index(st.orelse)
            elif isinstance(st, ast.Try):
                self._index(st.body)

    def _resolve_from(self, st):
        if st.level == 0:
            return st.module or ""
        pkg = self.package.split(".") if self.package else []
        if st.level > 1:
            pkg = pkg[: len(pkg) - (st.level - 1)]
        base = ".".join(pkg)
        if st.module:
            base = f"{base}.{st.module}" if base else st.module
        return base

    def resolve_class_expr(self, expr):
        """ClassInfo for a base-class expression, or its dotted text for foreign classes."""
        if isinstance(expr, ast.Name):
            if expr.id in self.classes:
                return self.classes[expr.id]
            imp = self.imports.get(expr.id)
            if imp and imp[0] == "from":
                mi = ModuleInfo.by_dotted(imp[1])
                if mi is not None:
                    return mi.resolve_class_expr(ast.Name(id=imp[2]))
                return f"{imp[1]}.{imp[2]}"
            if expr.id in self.assigns:
                return self.resolve_class_expr(self.assigns[expr.id])
            return expr.id
        if isinstance(expr, ast.Attribute):
            txt = ast.unparse(expr)
            head = txt.split(".")[0]
            imp = self.imports.get(head)
            if imp and imp[0] == "module":
                return imp[1] + txt[len(head):]
            if imp and imp[0] == "from":
                mi = ModuleInfo.by_dotted(f"{imp[1]}.{imp[2]}") or ModuleInfo.by_dotted(imp[1])
                if mi is not None and len(txt.split(".")) == 2:
                    return mi.resolve_class_expr(ast.Name(id=txt.split(".")[1]))
            return txt
        if isinstance(expr, ast.Subscript):
            return self.resolve_class_expr(expr.value)
        return ast.unparse(expr)

    def segment(self, node):
        return ast.get_source_segment(self.source, node) or ""


def find_target(target):
    """'werkzeug/wsgi.py:LimitedStream.readinto' or nested
    'werkzeug/serving.py:WSGIRequestHandler.run_wsgi.write' ->
    (ModuleInfo, ClassInfo|None, FunctionDef, [enclosing FunctionDefs])."""
    relpath, qual = target.split(":")
    mod = ModuleInfo.get(relpath)
    parts = qual.split(".")
    cls = None
    enclosing = []
    if parts[0] in mod.classes:
        cls = mod.classes[parts[0]]
        if len(parts) < 2 or parts[1] not in cls.methods:
            raise ExtractError(f"{target}: method not found")
        fn = cls.methods[parts[1]][-1]
        rest = parts[2:]
        if rest:
            # several definitions share the name (property getter / setter / deleter): take the last one that
            # contains the nested function asked for
            for cand in reversed(cls.methods[parts[1]]):
                if any(isinstance(n, ast.FunctionDef) and n.name == rest[0] and n is not cand for n in ast.walk(cand)):
                    fn = cand
                    break
    elif parts[0] in mod.functions:
        fn = mod.functions[parts[0]]
        rest = parts[1:]
    else:
        raise ExtractError(f"{target}: not found")
    for name in rest:
        inner = None
        # 'name@k': the k-th (source order, 0-based) nested definition of that name (branches that each define it)
        ordinal = 0
        if "@" in name:
            name, o = name.split("@")
            ordinal = int(o)
        cands = sorted((n for n in ast.walk(fn) if isinstance(n, ast.FunctionDef) and n.name == name and n is not fn),
                       key=lambda n: n.lineno)
        if ordinal < len(cands):
            inner = cands[ordinal]
        if inner is None:
            raise ExtractError(f"{target}: nested function {name} not found")
        enclosing.append(fn)
        fn = inner
    return mod, cls, fn, enclosing


def fn_fingerprint(mod, fn):
    seg = mod.segment(fn)
    return {
        "file": "src/" + mod.relpath,
        "lines": [fn.lineno, fn.end_lineno],
        "sha256": hashlib.sha256(seg.encode()).hexdigest()[:16],
    }
