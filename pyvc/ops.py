"""Primitive operations on symbolic values (mode-independent helpers)."""
from __future__ import annotations

import z3

from .values import *  # noqa: F401,F403
from .values import (
    NONE, V, VBool, VByteArray, VDict, VExc, VFloat, VInt, VList, VNone, VObj, VOpaque,
    VOpt, VSet, VStr, VTuple, VClass, VFunc, VBuiltin, VModule, VRegex,
    IntS, BoolS, RealS, StrS, flatten, unflatten, leaf_sorts, shape_of, opaque_sort,
)


class Unsupported(Exception):
    """construct outside the supported subset (never a violation)"""


def T():
    return z3.BoolVal(True)


def F():
    return z3.BoolVal(False)


def is_num(v):
    return isinstance(v, (VInt, VBool, VFloat))


def as_int(v):
    """z3 Int of an int/bool value"""
    if isinstance(v, VInt):
        return v.z
    if isinstance(v, VBool):
        return z3.If(v.z, z3.IntVal(1), z3.IntVal(0))
    raise Unsupported(f"as_int({v!r})")


def as_real(v):
    if isinstance(v, VFloat):
        return v.z
    return z3.ToReal(as_int(v))


def concrete_int(z):
    z = z3.simplify(z)
    if z3.is_int_value(z):
        return z.as_long()
    return None


def concrete_str(z):
    z = z3.simplify(z)
    if z3.is_string_value(z):
        return z.as_string() if False else _z3str(z)
    return None


def _z3str(z):
    # z3's as_string() returns escaped text; decode \u{..} escapes
    s = z.as_string()
    out = []
    i = 0
    while i < len(s):
        if s.startswith("\\u{", i):
            j = s.index("}", i)
            out.append(chr(int(s[i + 3:j], 16)))
            i = j + 1
        else:
            out.append(s[i])
            i += 1
    return "".join(out)


def truthy(v):
    """z3 Bool: Python truthiness of v"""
    if isinstance(v, VBool):
        return v.z
    if isinstance(v, VInt):
        return v.z != 0
    if isinstance(v, VFloat):
        return v.z != 0
    if isinstance(v, VStr):
        return z3.Length(v.z) > 0
    if isinstance(v, VNone):
        return F()
    if isinstance(v, VOpt):
        return z3.And(z3.Not(v.isnone), truthy(v.val))
    if isinstance(v, VTuple):
        return z3.BoolVal(len(v.items) > 0)
    if isinstance(v, VList):
        if v.concrete:
            return z3.BoolVal(len(v.items) > 0)
        return v.length > 0
    if isinstance(v, VByteArray):
        return z3.Length(v.z) > 0
    if isinstance(v, VDict):
        if v.concrete:
            return z3.BoolVal(len(v.items) > 0)
        x = z3.Const("x!dictne", v.keysort)
        return z3.Exists([x], z3.Select(v.present, x))
    if isinstance(v, VSet):
        if v.items is not None:
            return z3.BoolVal(len(v.items) > 0)
        x = z3.Const("x!setne", v.arr.sort().domain())
        return z3.Exists([x], z3.Select(v.arr, x))
    if isinstance(v, VObj) and v.model is not None and getattr(v.model, "truthy", None):
        raise Unsupported("model truthiness must go through the interpreter")
    if isinstance(v, (VObj, VFunc, VBuiltin, VClass, VModule, VExc, VRegex)):
        return T()
    if isinstance(v, VOpaque):
        if v.kind == "any":
            # an arbitrary Python object: it may well be falsy (0, "", [], an object with __bool__)
            return z3.Function("py_truthy_any", v.z.sort(), z3.BoolSort())(v.z)
        return T()
    raise Unsupported(f"truthy({v!r})")


def lift_opt(v):
    """view any value as (isnone, inner-or-None)"""
    if isinstance(v, VNone):
        return T(), None
    if isinstance(v, VOpt):
        return v.isnone, v.val
    return F(), v


def eq(a, b):
    """z3 Bool: Python a == b (for the value kinds we model; identity for objects)"""
    if isinstance(a, (VOpt, VNone)) or isinstance(b, (VOpt, VNone)):
        an, av = lift_opt(a)
        bn, bv = lift_opt(b)
        both_none = z3.And(an, bn)
        if av is None or bv is None:
            return both_none
        return z3.Or(both_none, z3.And(z3.Not(an), z3.Not(bn), eq(av, bv)))
    if is_num(a) and is_num(b):
        if isinstance(a, VFloat) or isinstance(b, VFloat):
            return as_real(a) == as_real(b)
        if isinstance(a, VBool) and isinstance(b, VBool):
            return a.z == b.z
        return as_int(a) == as_int(b)
    if isinstance(a, VStr) and isinstance(b, VStr):
        if a.kind != b.kind:
            return F()
        return a.z == b.z
    if isinstance(a, VByteArray) and isinstance(b, (VByteArray, VStr)):
        return a.z == b.z
    if isinstance(b, VByteArray) and isinstance(a, VStr):
        return a.z == b.z
    if isinstance(a, VTuple) and isinstance(b, VTuple):
        if len(a.items) != len(b.items):
            return F()
        return z3.And([eq(x, y) for x, y in zip(a.items, b.items)] + [T()])
    if isinstance(a, VList) and isinstance(b, VList):
        return list_eq(a, b)
    if isinstance(a, VOpaque) and isinstance(b, VOpaque):
        if a.z.sort() != b.z.sort():
            return F()
        return a.z == b.z
    if isinstance(a, VObj) and isinstance(b, VObj):
        return z3.BoolVal(a is b)
    if isinstance(a, VClass) and isinstance(b, VClass):
        return z3.BoolVal(a.name == b.name)
    if isinstance(a, VSet) and isinstance(b, VSet) and a.arr is not None and b.arr is not None:
        return a.arr == b.arr
    if type(a) is not type(b):
        return F()
    raise Unsupported(f"eq({a!r}, {b!r})")


def list_len(v):
    if v.concrete:
        return z3.IntVal(len(v.items))
    return v.length


def list_get(v, i):
    """element at z3 Int index i (0 <= i < len assumed)"""
    if v.concrete:
        ci = concrete_int(i) if z3.is_expr(i) else i
        if ci is None:
            raise Unsupported("symbolic index into concrete list")
        return v.items[ci]
    leaves = [z3.Select(a, i) for a in v.arrs]
    return unflatten(v.shape, leaves)


def list_eq(a, b):
    if a.concrete and b.concrete:
        if len(a.items) != len(b.items):
            return F()
        return z3.And([eq(x, y) for x, y in zip(a.items, b.items)] + [T()])
    la, lb = list_len(a), list_len(b)
    if a.concrete or b.concrete:
        c, s = (a, b) if a.concrete else (b, a)
        return z3.And([lb == la] + [eq(x, list_get(s, z3.IntVal(i))) for i, x in enumerate(c.items)])
    i = z3.Int("i!leq")
    body = z3.And([z3.Select(x, i) == z3.Select(y, i) for x, y in zip(a.arrs, b.arrs)] + [T()])
    return z3.And(la == lb, z3.ForAll([i], z3.Implies(z3.And(i >= 0, i < la), body)))


def ite(c, a, b):
    """merge two values under a z3 Bool"""
    if a is b:
        return a
    if isinstance(a, (VNone, VOpt)) or isinstance(b, (VNone, VOpt)):
        an, av = lift_opt(a)
        bn, bv = lift_opt(b)
        if av is None and bv is None:
            return NONE
        if av is None:
            return VOpt(z3.If(c, an, bn), bv)
        if bv is None:
            return VOpt(z3.If(c, an, bn), av)
        return VOpt(z3.If(c, an, bn), ite(c, av, bv))
    if isinstance(a, VBool) and isinstance(b, VBool):
        return VBool(z3.If(c, a.z, b.z))
    if is_num(a) and is_num(b):
        if isinstance(a, VFloat) or isinstance(b, VFloat):
            return VFloat(z3.If(c, as_real(a), as_real(b)))
        return VInt(z3.If(c, as_int(a), as_int(b)))
    if isinstance(a, VStr) and isinstance(b, VStr) and a.kind == b.kind:
        return VStr(z3.If(c, a.z, b.z), a.kind)
    if isinstance(a, VTuple) and isinstance(b, VTuple) and len(a.items) == len(b.items):
        return VTuple([ite(c, x, y) for x, y in zip(a.items, b.items)])
    if isinstance(a, VOpaque) and isinstance(b, VOpaque) and a.z.sort() == b.z.sort():
        return VOpaque(z3.If(c, a.z, b.z), a.kind)
    raise Unsupported(f"ite of {a!r} / {b!r}")


# --------------------------------------------------------------------------
# slices (exact Python normalisation for step 1)

def norm_index(i, n):
    """python slice-bound normalisation of z3 Int i against length n (step = 1)"""
    i2 = z3.If(i < 0, i + n, i)
    return z3.If(i2 < 0, z3.IntVal(0), z3.If(i2 > n, n, i2))


def slice_bounds(lo, hi, n):
    """(start, stop) with 0 <= start <= n, 0 <= stop <= n; lo/hi are z3 Int or None"""
    s = z3.IntVal(0) if lo is None else norm_index(lo, n)
    e = n if hi is None else norm_index(hi, n)
    return s, e


def str_slice(z, lo, hi):
    n = z3.Length(z)
    s, e = slice_bounds(lo, hi, n)
    ln = z3.If(e > s, e - s, z3.IntVal(0))
    return z3.SubString(z, s, ln)


# --------------------------------------------------------------------------
# snapshots (old-state copies)

def snapshot(v, memo=None):
    if memo is None:
        memo = {}
    if isinstance(v, (VObj, VList, VDict, VByteArray, VSet)):
        if id(v) in memo:
            return memo[id(v)]
    if isinstance(v, VObj):
        c = VObj(v.cls, {}, v.model)
        c.id = v.id
        memo[id(v)] = c
        for k, x in v.fields.items():
            c.fields[k] = snapshot(x, memo)
        return c
    if isinstance(v, VList):
        if v.concrete:
            c = VList([snapshot(x, memo) for x in v.items])
        else:
            c = VList(None, shape=v.shape, arrs=list(v.arrs), length=v.length)
        c.id = v.id
        memo[id(v)] = c
        return c
    if isinstance(v, VByteArray):
        c = VByteArray(v.z, v.fixed)
        c.id = v.id
        memo[id(v)] = c
        return c
    if isinstance(v, VDict):
        if v.concrete:
            c = VDict({k: snapshot(x, memo) for k, x in v.items.items()}, keykind=v.keykind)
        else:
            c = VDict(None, keysort=v.keysort, shape=v.shape, present=v.present, arrs=list(v.arrs), keykind=v.keykind)
            if hasattr(v, "order"):
                c.order = snapshot(v.order, memo)
        c.id = v.id
        memo[id(v)] = c
        return c
    if isinstance(v, VSet):
        c = VSet(v.arr, v.elemkind, list(v.items) if v.items is not None else None)
        c.id = v.id
        memo[id(v)] = c
        return c
    if isinstance(v, VTuple):
        return VTuple([snapshot(x, memo) for x in v.items])
    if isinstance(v, VOpt):
        return VOpt(v.isnone, snapshot(v.val, memo))
    return v
