"""Property runner: proved tier (VCs from the real source), table/lemma/static
obligations, bounded stand-in, known findings, replay, evidence, exit code."""
from __future__ import annotations

import hashlib
import importlib
import json
import multiprocessing as mp
import os
import sys
import time
import traceback

VERIF = os.path.dirname(os.path.dirname(os.path.abspath(__file__)))
sys.path.insert(0, VERIF)

from pyvc.contracts import Registry  # noqa: E402
from pyvc import verify, runtime  # noqa: E402

_REG = None


def registry():
    global _REG
    if _REG is None:
        import contracts
        _REG = Registry()
        contracts.load_all(_REG)
    return _REG


def props_of(c):
    p = c.prop
    if p is None:
        return ()
    if isinstance(p, str):
        return tuple(x.strip() for x in p.split(","))
    return tuple(p)


def _worker(args):
    key, timeout_s = args[0], args[1]
    wall = args[2] if len(args) > 2 else None
    reg = registry()
    try:
        # contracts reserved for the thorough tier are the ones with many paths: a larger path budget for them
        budget = {"max_paths": 40000} if reg.contracts[key].tier == "thorough" else None
        return verify.verify_function(reg, key, timeout_s, budget=budget, wall_budget_s=wall)
    except BaseException as e:  # noqa: BLE001
        return {"key": key, "error": f"crash: {e!r}", "traceback": traceback.format_exc(), "crash": True,
                "obligations": [], "paths": 0, "fingerprint": None}


def _static_worker(args):
    kind, idx, timeout_s = args
    reg = registry()
    if kind == "lemma_spec":
        try:
            return verify.verify_lemma(reg, reg.lemma_specs[idx], timeout_s)
        except BaseException as e:  # noqa: BLE001
            return {"key": f"lemma:{idx}", "obligations": [], "error": f"crash: {e!r}", "traceback": traceback.format_exc(),
                    "crash": True, "paths": 0, "fingerprint": None}
    lst = {"table": reg.tables, "lemma": reg.lemmas, "static": reg.statics}[kind]
    prop, name, fn = lst[idx]
    t0 = time.time()
    try:
        res = fn()
        # res: list of (subname, ok(bool|None), detail) or dict
        out = []
        for sub, ok, detail in res:
            out.append({"name": f"{kind}:{name}/{sub}", "kind": kind, "clause": detail if isinstance(detail, str) else json.dumps(detail)[:300],
                        "verdict": "proved" if ok is True else "refuted" if ok is False else "unknown",
                        "backend": "enumeration" if kind == "table" else "z3" if kind == "lemma" else "ast",
                        "time": 0.0, "line": 0, "path": "",
                        "inputs": detail if (ok is False and not isinstance(detail, str)) else None})
        return {"key": f"{kind}:{name}", "obligations": out, "error": None, "paths": 0, "fingerprint": None,
                "wall_s": round(time.time() - t0, 3), "canary_refuted": 1}
    except verify.Unsupported as e:
        return {"key": f"{kind}:{name}", "obligations": [], "error": f"Unsupported: {e}", "paths": 0, "fingerprint": None}
    except BaseException as e:  # noqa: BLE001
        return {"key": f"{kind}:{name}", "obligations": [], "error": f"crash: {e!r}", "traceback": traceback.format_exc(),
                "crash": True, "paths": 0, "fingerprint": None}


def _child(conn, kind, arg):
    try:
        res = _worker(arg) if kind == "fn" else _static_worker(arg)
    except BaseException as e:  # noqa: BLE001
        res = {"key": str(arg), "error": f"crash: {e!r}", "traceback": traceback.format_exc(), "crash": True,
               "obligations": [], "paths": 0, "fingerprint": None}
    try:
        conn.send(res)
    finally:
        conn.close()


def run_tasks(tasks, jobs, budget_s):
    """one process per task, at most `jobs` at a time, each killed after budget_s (=> undecided)"""
    ctx = mp.get_context("fork")
    pending = list(tasks)
    running = []
    results = []
    while pending or running:
        while pending and len(running) < jobs:
            kind, arg, label = pending.pop(0)
            parent, child = ctx.Pipe(duplex=False)
            p = ctx.Process(target=_child, args=(child, kind, arg))
            p.start()
            child.close()
            running.append((p, parent, time.time(), label))
        still = []
        for p, conn, t0, label in running:
            if conn.poll(0.01):
                try:
                    results.append(conn.recv())
                except EOFError:
                    results.append({"key": label, "error": "crash: worker died", "crash": True, "obligations": [],
                                    "paths": 0, "fingerprint": None})
                p.join(5)
                continue
            if not p.is_alive():
                if conn.poll(0.05):
                    results.append(conn.recv())
                else:
                    results.append({"key": label, "error": f"crash: worker exited with {p.exitcode}", "crash": True,
                                    "obligations": [], "paths": 0, "fingerprint": None})
                continue
            if time.time() - t0 > budget_s:
                p.kill()
                p.join(5)
                results.append({"key": label, "error": f"Budget: no answer within {int(budget_s)} s (worker killed)",
                                "obligations": [], "paths": 0, "fingerprint": None})
                continue
            still.append((p, conn, t0, label))
        running = still
        if running:
            time.sleep(0.02)
    return results


def group(results):
    """obligation name -> {'verdict', 'paths', 'time', 'backends', 'recs'}"""
    g = {}
    for r in results:
        for o in r["obligations"]:
            e = g.setdefault(o["name"], {"verdict": "proved", "paths": 0, "time": 0.0, "backends": set(), "recs": [],
                                         "kind": o["kind"], "clause": o["clause"], "key": r["key"]})
            e["paths"] += 1
            e["time"] += o["time"]
            e["backends"].add(o["backend"])
            e["recs"].append(o)
            if o["verdict"] == "refuted":
                e["verdict"] = "refuted"
            elif o["verdict"] == "unknown" and e["verdict"] != "refuted":
                e["verdict"] = "unknown"
    return g


def load_known():
    p = os.path.join(VERIF, "known_findings.json")
    if os.path.exists(p):
        with open(p) as f:
            return json.load(f)
    return {"findings": [], "fixed": []}


def load_baseline():
    p = os.path.join(VERIF, "baseline", "obligations.json")
    if os.path.exists(p):
        with open(p) as f:
            return json.load(f)
    return {}


def write_replay(prop, payload):
    d = os.path.join(VERIF, "replays")
    os.makedirs(d, exist_ok=True)
    h = hashlib.sha256(json.dumps(payload, sort_keys=True, default=str).encode()).hexdigest()[:12]
    path = os.path.join(d, f"{prop}-{h}.json")
    with open(path, "w") as f:
        json.dump(payload, f, indent=1, default=str)
    return os.path.relpath(path, VERIF)


def native_replay(reg, key, inputs):
    """replay a counterexample on the real function.  Returns (status, detail):
    'confirmed' (contract fails natively), 'passes' (real code satisfies the contract on
    this input), 'no-replay' (no recipe)"""
    c = reg.contracts.get(key)
    if c is None or c.replay is None or inputs is None:
        return "no-replay", ""
    try:
        inputs = verify.unjson(inputs)
        if c.replay == "pure":
            fn = runtime.resolve_real(key.split("#")[0])
            names = {k: runtime.to_native(v) for k, v in inputs.items()}
            nc = runtime.NativeContract(reg, c)
            import inspect
            sig = inspect.signature(fn)
            args = []
            for pn, pp in sig.parameters.items():
                if pp.kind == inspect.Parameter.VAR_POSITIONAL:
                    args += list(names.get(pn, []))
                elif pn in names:
                    args.append(names[pn])
            fails = nc.check_call(fn, args, {}, names)
            if not fails and nc.errors:
                return "no-replay", "; ".join(nc.errors)[:300]
        elif c.replay == "method":
            plain = key.split("#")[0]
            obj = runtime.build_object(reg, c.self_model, inputs["self"])
            meth = getattr(obj, plain.split(".")[-1])
            names = {k: runtime.to_native(v) for k, v in inputs.items() if k != "self"}
            names["self"] = obj
            nc = runtime.NativeContract(reg, c)
            import inspect
            params = [p for p in inspect.signature(meth).parameters]
            args = [names[p] for p in params if p in names]
            fails = nc.check_call(meth, args, {}, names)
            if not fails and nc.errors:
                return "no-replay", "clauses mention ghost state: " + "; ".join(nc.errors)[:300]
        else:
            fails = c.replay(reg, c, inputs)
        if fails is None:
            return "passes", "precondition false on the concretised input"
        if fails:
            return "confirmed", "; ".join(fails)
        return "passes", ""
    except BaseException as e:  # noqa: BLE001
        return "no-replay", f"replay harness error: {e!r}"


def run_property(prop, tier="quick", seed=0, jobs=None, rebaseline=False, only=None, verbose=False):
    t_start = time.time()
    reg = registry()
    import props as props_mod
    meta = props_mod.PROPS[prop]
    timeout_s = 10.0 if tier == "quick" else 60.0
    # solver budgets are wall-clock: on an overloaded machine (other checks running next to this one) they are
    # stretched, so that verdicts do not flip with the load
    try:
        load = os.getloadavg()[0] / max(1, os.cpu_count() or 1)
    except OSError:
        load = 0.0
    stretch = min(4.0, max(1.0, load))
    timeout_s *= stretch
    keys = [k for k, c in reg.contracts.items() if prop in props_of(c) and not c.trusted and not c.inline and not k.startswith("model:")]
    if tier != "thorough":
        skipped_slow = [k for k in keys if reg.contracts[k].tier == "thorough"]
        keys = [k for k in keys if reg.contracts[k].tier != "thorough"]
    else:
        skipped_slow = []
    if only:
        keys = [k for k in keys if only in k]
    statics = []
    for kind, lst in (("table", reg.tables), ("lemma", reg.lemmas), ("static", reg.statics)):
        for i, (p, name, fn) in enumerate(lst):
            if prop in (p if isinstance(p, (tuple, list)) else [x.strip() for x in p.split(",")]):
                if not only or only in name:
                    statics.append((kind, i, timeout_s))
    for i, lem in enumerate(getattr(reg, "lemma_specs", [])):
        if prop in [x.strip() for x in lem["prop"].split(",")] and (not only or only in lem["name"]):
            statics.append(("lemma_spec", i, timeout_s))
    cpus = os.cpu_count() or 4
    jobs = jobs or min(16, cpus)
    # processes = functions in flight x path workers each (x one discharge child): keep that near the core count, so
    # that a solver's wall-clock budget means the same thing whether one function or thirty are verified
    n_fn = max(1, min(jobs, len(keys) + len(statics)))
    os.environ.setdefault("PYVC_PATH_WORKERS", str(max(2, min(4, 2 * cpus // n_fn))))
    per_fn_budget = (240.0 if tier == "quick" else 1200.0) * stretch
    tasks = [("fn", (k, timeout_s, per_fn_budget - 30), k) for k in keys] + [("static", st, f"{st[0]}#{st[1]}") for st in statics]
    # the function's own deadline (per_fn_budget - 30 s) stops it from STARTING obligations; one that is already running
    # may use its whole chain of provers: the hard kill comes after that, so that finished results are never lost
    results = run_tasks(tasks, jobs, per_fn_budget + 9 * timeout_s + 40)

    crashes = [r for r in results if r.get("crash")]
    g = group(results)
    baseline = load_baseline().get(prop, {})
    known = load_known()
    kf = [f for f in known.get("findings", []) if f["property"] == prop]

    violations = []
    known_lines = []
    undecided = []
    notgen = [r for r in results if r.get("error") and not r.get("crash")]

    # ---- proved tier verdicts
    for name, e in sorted(g.items()):
        if e["verdict"] == "refuted":
            handled = False
            for rec in e["recs"]:
                if rec["verdict"] != "refuted":
                    continue
                status, detail = native_replay(reg, e["key"], rec.get("inputs"))
                if status == "passes" and e["kind"] not in ("ensures", "raises", "raises-ensures"):
                    # the native run evaluates the contract's clauses only; invariants, frames, call preconditions and
                    # ghost lemmas have no native counterpart: the refuted obligation stands, without a failing input
                    status, detail = "no-replay", f"a {e['kind']} obligation has no native counterpart (the contract's clauses hold natively on the model)"
                match = _match_known(kf, name, rec.get("inputs"), detail)
                if match is not None:
                    known_lines.append(f"KNOWN-FINDING: property={prop} {match['what']}")
                    handled = True
                    continue
                if status == "passes":
                    # spurious model (abstraction): not a violation by itself; the obligation is undecided
                    continue
                payload = {"property": prop, "obligation": name, "function": e["key"], "clause": e["clause"],
                           "kind": e["kind"], "inputs": rec.get("inputs"), "solver_model": rec.get("model"),
                           "native_replay": status, "observed": detail, "path": rec.get("path"), "line": rec.get("line"),
                           "replay_cmd": "./check replay <this file>"}
                path = write_replay(prop, payload)
                suffix = "" if status == "confirmed" else " no-failing-input-found"
                violations.append(f"VIOLATION property={prop} replay={path}{suffix}")
                handled = True
                break
            if not handled:
                undecided.append((name, "refuted by solver but the model does not fail natively (abstraction artefact)"))
        elif e["verdict"] == "unknown":
            undecided.append((name, "solver gave no answer"))
    for name in baseline:
        if only:
            break
        if any(name.startswith(k + "/") for k in skipped_slow):
            continue
        if name not in g:
            undecided.append((name, "obligation of the baseline was not generated on this tree"))
    for r in notgen:
        undecided.append((r["key"], r["error"]))

    # ---- bounded tier
    bounded = None
    bmod = meta.get("bounded")
    if bmod and not only:
        try:
            m = importlib.import_module(bmod)
            bounded = m.run(tier=tier, seed=seed, reg=reg)
        except BaseException as e:  # noqa: BLE001
            crashes.append({"key": bmod, "error": f"bounded tier crashed: {e!r}", "traceback": traceback.format_exc()})
            bounded = None
        if bounded:
            for fail in bounded.get("failures", []):
                match = _match_known(kf, fail.get("check", ""), fail.get("input"), fail.get("observed", ""),
                                     fail.get("expected", ""))
                if match is not None:
                    line = f"KNOWN-FINDING: property={prop} {match['what']}"
                    if line not in known_lines:
                        known_lines.append(line)
                    continue
                payload = {"property": prop, "obligation": "bounded:" + fail.get("check", ""), "inputs": fail.get("input"),
                           "observed": fail.get("observed"), "expected": fail.get("expected"), "native_replay": "confirmed",
                           "bounded_module": bmod, "replay_cmd": "./check replay <this file>"}
                path = write_replay(prop, payload)
                violations.append(f"VIOLATION property={prop} replay={path}")
                if len(violations) > 20:
                    break

    # ---- evidence
    n_ob = sum(e["paths"] for e in g.values())
    n_proved = sum(1 for e in g.values() for r in e["recs"] if r["verdict"] == "proved")
    backends = {}
    for e in g.values():
        for r in e["recs"]:
            backends[r["backend"]] = backends.get(r["backend"], 0) + 1
    solver_time = round(sum(e["time"] for e in g.values()), 3)
    from pyvc import stdspec
    funcs = [{"function": r["key"], **(r["fingerprint"] or {}), "paths": r.get("paths", 0),
              "obligations": len(r["obligations"]), "status": "not-generated: " + r["error"] if r.get("error") else "ok",
              "canary_paths": r.get("canary_refuted", 0)} for r in results]
    vacuous = [r["key"] for r in results if not r.get("error") and not r["key"].split(":")[0] in ("table", "lemma", "static", "lemma_spec")
               and r.get("canary_refuted", 0) == 0]
    samples = []
    for name, e in list(sorted(g.items()))[:6]:
        samples.append({"obligation": name, "kind": e["kind"], "clause": e["clause"][:200], "paths": e["paths"],
                        "verdict": e["verdict"], "backends": sorted(e["backends"]), "solver_s": round(e["time"], 4)})
    level = meta["level"]
    all_discharged = n_ob > 0 and n_proved == n_ob and not undecided
    if level == "proof" and not all_discharged:
        level_now = "other"
    else:
        level_now = level
    assumptions = list(meta.get("assumptions", [])) + [
        "pyvc encoding of Python semantics (DESIGN.md section 4): mathematical ints, floats as reals, str/bytes as z3 strings, "
        "no aliasing beyond the contracts' models, no monkey-patching/subclass overrides, single thread per call",
    ]
    trusted = sorted({k for k, c in reg.contracts.items() if (c.trusted or k.startswith("model:")) and prop in props_of(c)})
    origins = set()
    for r in results:
        origins |= set(r.get("assumption_origins", []))
    # assumption scan: everything that was ever put on a path condition, by origin.  requires / assumes / loop-inv /
    # callee-ensures come from contracts; the rest are trusted encodings of Python and the stdlib
    lib_assumptions = sorted(o for o in origins if not o.startswith(("requires:", "assumes:", "loop-inv:", "callee-", "ghost-def:",
                                                                     "lemma-hyp:", "loop-index-range", "type:")))
    stubs = sorted(getattr(reg, "stub_src", {}).keys())
    cov = {
        "obligations": n_ob, "discharged": n_proved,
        "checker_cmd": f"./check {prop} --tier {tier}",
        "trusted_base": ["z3 5.1.0 (python API)", "cvc5 1.0.3 --strings-exp (takes z3's unknowns)", "CPython ast / re._parser",
                         "pyvc/lib.py, strlib.py, rx.py, stdspec.py (trusted encodings of builtins/stdlib)"] +
                        ["trusted contract: " + k for k in trusted],
        "library_assumptions_used": lib_assumptions,
        "contract_assumes": sorted({f"{k}: {a}" for k, c in reg.contracts.items() if prop in props_of(c) for a in c.assumes_src}),
        "trusted_stubs_registered": stubs,
        "functions_under_contract": funcs,
        "obligation_groups": len(g),
        "by_backend": backends, "solver_s": solver_time,
        "undecided": [{"obligation": n, "why": w} for n, w in undecided][:50],
        "samples": samples,
        "explanation": meta.get("explanation", ""),
        "bounded": ({k: v for k, v in bounded.items() if k != "failures"} if bounded else None),
        "vacuity": {"functions_without_feasible_terminal_path": vacuous},
        "known_findings_printed": known_lines,
    }
    if bounded:
        cov["evaluations"] = int(bounded.get("evaluations", 0))
        cov["distinct_nontrivial"] = int(bounded.get("distinct_nontrivial", 0))
        cov["rule"] = bounded.get("rule", "")
        if bounded.get("exhaustive") is not None:
            cov["exhaustive_bounded_domain"] = bool(bounded.get("exhaustive"))
    ev = {"property_id": prop, "tier": tier, "seed": int(seed), "level": level_now, "coverage": cov,
          "assumptions": assumptions, "wall_s": round(time.time() - t_start, 2), "violations": len(violations)}
    # runs against a scratch copy (VERIF_REPO set to something else than /repo: seeded-change tooling) must not
    # overwrite the evidence of the registered tree
    from pyvc.runtime import repo_src
    ev["repo"] = os.path.dirname(repo_src().rstrip("/"))
    evdir = os.environ.get("VERIF_EVIDENCE_DIR") or (
        os.path.join(VERIF, "evidence") if os.path.realpath(ev["repo"]) == "/repo" else os.path.join(ev["repo"], ".verif-evidence"))
    os.makedirs(evdir, exist_ok=True)
    # a partial run (--only: development aid, the bounded tier is skipped) does not replace the evidence of the full check
    evname = f"{prop}.json" if not only else f"{prop}.partial.json"
    with open(os.path.join(evdir, evname), "w") as f:
        json.dump(ev, f, indent=1, default=str)

    # ---- report
    print(f"[{prop}] tier={tier} functions={len(keys)} static={len(statics)} obligations={n_ob} discharged={n_proved} "
          f"groups={len(g)} undecided={len(undecided)} solver_s={solver_time} wall_s={ev['wall_s']}")
    if bounded:
        print(f"[{prop}] bounded: evaluations={bounded.get('evaluations')} distinct_nontrivial={bounded.get('distinct_nontrivial')} "
              f"failures={len(bounded.get('failures', []))}")
    for n, w in undecided[:40]:
        print(f"UNDECIDED: {n}: {w}")
    if verbose:
        for name, e in sorted(g.items()):
            print(f"   {e['verdict']:8s} {name} paths={e['paths']} t={e['time']:.3f} {sorted(e['backends'])}")
    for line in known_lines:
        print(line)
    for c in crashes:
        print(f"CHECKER-CRASH: {c['key']}: {c.get('error')}")
        if c.get("traceback"):
            print(c["traceback"])
    if vacuous:
        print(f"CHECKER-VACUOUS: no feasible terminal path in {vacuous}")
    if rebaseline:
        p = os.path.join(VERIF, "baseline", "obligations.json")
        os.makedirs(os.path.dirname(p), exist_ok=True)
        allb = load_baseline()
        if only:
            cur = allb.get(prop, {})
            cur.update({n: {"paths": e["paths"], "verdict": e["verdict"]} for n, e in g.items()})
            allb[prop] = cur
        else:
            allb[prop] = {n: {"paths": e["paths"], "verdict": e["verdict"]} for n, e in sorted(g.items())}
        with open(p, "w") as f:
            json.dump(allb, f, indent=1, sort_keys=True)
        print(f"[{prop}] baseline rewritten ({len(allb[prop])} obligation groups)")
    for v in violations:
        print(v)
    if violations:
        return 1
    if crashes or vacuous:
        return 3
    if n_ob == 0 and not bounded:
        print("CHECKER-BROKEN: zero obligations generated")
        return 3
    return 0


def _lit(x):
    import ast as _ast
    try:
        return _ast.literal_eval(x)
    except Exception:  # noqa: BLE001
        return None


def _stray_cr(obs, exp):
    """C01 signature: observed and expected have the same shape, and every differing str/bytes leaf is
    the expected one plus exactly one trailing CR"""
    diffs = []

    def walk(a, b):
        if type(a) is not type(b):
            return False
        if isinstance(a, (list, tuple)):
            return len(a) == len(b) and all(walk(x, y) for x, y in zip(a, b))
        if isinstance(a, dict):
            return a.keys() == b.keys() and all(walk(a[k], b[k]) for k in a)
        if a == b:
            return True
        if isinstance(a, bytes) and a == b + b"\r":
            diffs.append(1)
            return True
        if isinstance(a, str) and a == b + "\r":
            diffs.append(1)
            return True
        return False

    try:
        return walk(obs, exp) and bool(diffs)
    except Exception:  # noqa: BLE001
        return False


def _match_known(kf, name, inputs, detail, expected=""):
    for f in kf:
        ob = f.get("obligation")
        if ob and ob not in name:
            continue
        pred = f.get("input_predicate")
        if pred:
            try:
                ok = eval(pred, {"inputs": verify.unjson(inputs) if inputs is not None else None,  # noqa: S307
                                 "detail": detail or "", "name": name, "expected": expected or "",
                                 "lit": _lit, "stray_cr": _stray_cr})
            except Exception:  # noqa: BLE001
                ok = False
            if not ok:
                continue
        return f
    return None


def replay_file(path):
    with open(path) as f:
        payload = json.load(f)
    reg = registry()
    prop = payload["property"]
    print(json.dumps({k: payload[k] for k in payload if k != "solver_model"}, indent=1)[:3000])
    if payload.get("bounded_module"):
        m = importlib.import_module(payload["bounded_module"])
        res = m.replay(payload)
        print("replay:", res)
        return 1 if res else 0
    status, detail = native_replay(reg, payload["function"], payload.get("inputs"))
    print("native replay:", status, detail)
    return 1 if status == "confirmed" else 0


def main(argv=None):
    import argparse
    ap = argparse.ArgumentParser()
    ap.add_argument("prop")
    ap.add_argument("file", nargs="?")
    ap.add_argument("--tier", default=os.environ.get("VERIF_TIER", "quick"))
    ap.add_argument("--jobs", type=int, default=None)
    ap.add_argument("--rebaseline", action="store_true")
    ap.add_argument("--only", default=None)
    ap.add_argument("-v", "--verbose", action="store_true")
    a = ap.parse_args(argv)
    if a.prop == "replay":
        return replay_file(a.file)
    seed = int(os.environ.get("VERIF_SEED", "0") or 0)
    try:
        return run_property(a.prop, a.tier, seed, a.jobs, a.rebaseline, a.only, a.verbose)
    except SystemExit:
        raise
    except BaseException:  # noqa: BLE001
        traceback.print_exc()
        return 3


if __name__ == "__main__":
    sys.exit(main())
