"""Python regular expressions -> z3 regular expressions (trusted translation).

Parsed with CPython's own regex parser (re._parser), so the pattern text is
read exactly as `re` reads it.  Supported: literals, classes, ranges, negated
classes, \\d \\w \\s (ASCII under re.ASCII or bytes patterns; otherwise
unsupported), . (without DOTALL: not \\n), * + ? {m,n} (greedy and lazy are the
same *language*), groups, alternation, ^ $ \\A \\Z at the ends.

Capture groups: the match is decomposed at the top-level concatenation; each
group gets a fresh string constrained to its sub-language.  Which
decomposition `re` picks (greediness) is NOT modelled: obligations must hold
for every decomposition (sound for universally quantified properties).
"""
from __future__ import annotations

import re
import z3

try:
    import re._parser as sre_parse
    import re._constants as sre_c
except ImportError:  # pragma: no cover
    import sre_parse
    import sre_constants as sre_c

from .ops import Unsupported, as_int, concrete_int, concrete_str, T, F
from .values import NONE, VByteArray, VBool, VBuiltin, VInt, VNone, VObj, VOpt, VStr, VTuple, VRegex, StrS

MAXCHAR = "\U0002ffff"


def _lit(c):
    return z3.Re(z3.StringVal(chr(c)))


def _rng(a, b):
    return z3.Range(z3.StringVal(chr(a)), z3.StringVal(chr(b)))


def _anychar(maxc):
    return _rng(0, maxc)


class Tr:
    def __init__(self, pattern, flags, is_bytes):
        self.pattern = pattern
        self.flags = flags
        self.is_bytes = is_bytes
        self.ascii = is_bytes or bool(flags & re.ASCII)
        self.maxc = 255 if is_bytes else ord(MAXCHAR)
        self.ignorecase = bool(flags & re.IGNORECASE)
        src = pattern.encode("latin-1") if is_bytes else pattern
        self.parsed = sre_parse.parse(src, flags)

    def category(self, cat):
        name = str(cat)
        if not self.ascii:
            raise Unsupported(f"regex category {name} without re.ASCII")
        d = _rng(48, 57)
        w = z3.Union(d, _rng(65, 90), _rng(97, 122), _lit(95))
        s = z3.Union(_rng(9, 13), _lit(32))
        if name.endswith("CATEGORY_DIGIT"):
            return d, [(48, 57)]
        if name.endswith("CATEGORY_WORD"):
            return w, [(48, 57), (65, 90), (97, 122), (95, 95)]
        if name.endswith("CATEGORY_SPACE"):
            return s, [(9, 13), (32, 32)]
        raise Unsupported(f"regex category {name}")

    def cls_ranges(self, items):
        """list of (lo, hi) for a character class body (without NEGATE)"""
        out = []
        for op, av in items:
            if op is sre_c.LITERAL:
                out.append((av, av))
            elif op is sre_c.RANGE:
                out.append((av[0], av[1]))
            elif op is sre_c.CATEGORY:
                name = str(av)
                if name.endswith("_NOT_DIGIT") or name.endswith("_NOT_WORD") or name.endswith("_NOT_SPACE"):
                    pos = self.category(name.replace("_NOT", ""))[1]
                    out += _complement(pos, self.maxc)
                else:
                    out += self.category(av)[1]
            else:
                raise Unsupported(f"regex class item {op}")
        if self.ignorecase:
            extra = []
            for lo, hi in out:
                for c in range(lo, min(hi, 0x17f) + 1):
                    ch = chr(c)
                    for v in (ch.lower(), ch.upper()):
                        if len(v) == 1 and ord(v) != c:
                            extra.append((ord(v), ord(v)))
            out += extra
        return out

    def ranges_re(self, ranges):
        if not ranges:
            return z3.Empty(z3.ReSort(StrS))
        parts = [_rng(lo, hi) if lo != hi else _lit(lo) for lo, hi in _norm(ranges)]
        return z3.Union(*parts) if len(parts) > 1 else parts[0]

    def seq(self, items):
        parts = [self.item(op, av) for op, av in items]
        parts = [p for p in parts if p is not None]
        if not parts:
            return z3.Re(z3.StringVal(""))
        if len(parts) == 1:
            return parts[0]
        return z3.Concat(*parts)

    def item(self, op, av):
        if op is sre_c.LITERAL:
            if self.ignorecase:
                ch = chr(av)
                alts = {ch, ch.lower(), ch.upper()}
                alts = [a for a in alts if len(a) == 1]
                if len(alts) > 1:
                    return z3.Union(*[_lit(ord(a)) for a in alts])
            return _lit(av)
        if op is sre_c.NOT_LITERAL:
            return self.ranges_re(_complement([(av, av)], self.maxc))
        if op is sre_c.ANY:
            if self.flags & re.DOTALL:
                return _anychar(self.maxc)
            return self.ranges_re(_complement([(10, 10)], self.maxc))
        if op is sre_c.IN:
            neg = bool(av) and av[0][0] is sre_c.NEGATE
            body = av[1:] if neg else av
            rs = self.cls_ranges(body)
            if neg:
                rs = _complement(rs, self.maxc)
            return self.ranges_re(rs)
        if op in (sre_c.MAX_REPEAT, sre_c.MIN_REPEAT):
            lo, hi, sub = av
            r = self.seq(sub)
            if hi is sre_c.MAXREPEAT:
                if lo == 0:
                    return z3.Star(r)
                if lo == 1:
                    return z3.Plus(r)
                return z3.Concat(z3.Loop(r, lo, lo), z3.Star(r))
            if lo == 0 and hi == 1:
                return z3.Option(r)
            return z3.Loop(r, lo, hi)
        if op is sre_c.SUBPATTERN:
            return self.seq(av[3])
        if op is sre_c.BRANCH:
            alts = [self.seq(x) for x in av[1]]
            return z3.Union(*alts) if len(alts) > 1 else alts[0]
        if op is sre_c.AT:
            raise Unsupported(f"regex anchor {av} in the middle of a pattern")
        if op is sre_c.CATEGORY:
            return self.category(av)[0]
        raise Unsupported(f"regex op {op}")

    def strip_anchors(self, items):
        items = list(items)
        begin = end = False
        while items and items[0][0] is sre_c.AT and str(items[0][1]).endswith(("AT_BEGINNING", "AT_BEGINNING_STRING")):
            items.pop(0)
            begin = True
        dollar = False
        while items and items[-1][0] is sre_c.AT and str(items[-1][1]).endswith(("AT_END", "AT_END_STRING")):
            if str(items[-1][1]).endswith("AT_END") and not str(items[-1][1]).endswith("AT_END_STRING"):
                dollar = True
            items.pop()
            end = True
        return items, begin, end, dollar

    def language(self):
        """(regex of the whole pattern without end anchors, begin?, end?, dollar?)"""
        items, begin, end, dollar = self.strip_anchors(self.parsed)
        return self.seq(items), begin, end, dollar


def _norm(ranges):
    rs = sorted(ranges)
    out = []
    for lo, hi in rs:
        if out and lo <= out[-1][1] + 1:
            out[-1] = (out[-1][0], max(out[-1][1], hi))
        else:
            out.append((lo, hi))
    return out


def _complement(ranges, maxc):
    out = []
    prev = 0
    for lo, hi in _norm(ranges):
        if lo > prev:
            out.append((prev, lo - 1))
        prev = hi + 1
    if prev <= maxc:
        out.append((prev, maxc))
    return out


_cache = {}


def translate(rx: VRegex):
    key = (rx.pattern, rx.flags, rx.is_bytes)
    if key not in _cache:
        _cache[key] = Tr(rx.pattern, rx.flags, rx.is_bytes)
    return _cache[key]


def lang(rx):
    return translate(rx).language()


def class_ranges_of_single_class(rx):
    """for a pattern that is a single character class: its code-point ranges"""
    tr = translate(rx)
    items = list(tr.parsed)
    if len(items) == 1 and items[0][0] is sre_c.IN:
        av = items[0][1]
        neg = bool(av) and av[0][0] is sre_c.NEGATE
        rs = tr.cls_ranges(av[1:] if neg else av)
        if neg:
            rs = _complement(rs, tr.maxc)
        return _norm(rs)
    if len(items) == 1 and items[0][0] is sre_c.LITERAL:
        return [(items[0][1], items[0][1])]
    raise Unsupported("pattern is not a single character class")


# --------------------------------------------------------------------------
# match objects

def _top_pieces(tr):
    """top-level concatenation pieces: list of (group number or None, regex)"""
    items, begin, end, dollar = tr.strip_anchors(tr.parsed)
    pieces = []
    for op, av in items:
        if op is sre_c.SUBPATTERN and av[0] is not None:
            pieces.append((av[0], tr.seq(av[3]), False))
        elif op in (sre_c.MAX_REPEAT, sre_c.MIN_REPEAT) and av[0] == 0 and av[1] == 1 and len(av[2]) == 1 \
                and av[2][0][0] is sre_c.SUBPATTERN and av[2][0][1][0] is not None:
            sub = av[2][0][1]
            pieces.append((sub[0], tr.seq(sub[3]), True))  # optional group
        else:
            pieces.append((None, tr.item(op, av), False))
    return pieces, begin, end, dollar


def _literal_alternatives(tr):
    """the literal alternatives (in order) if the last top-level item is a branch of plain literals, else None"""
    items, begin, end, dollar = tr.strip_anchors(tr.parsed)
    if not items or tr.ignorecase:
        return None
    op, av = items[-1]
    if op is sre_c.SUBPATTERN and av[0] is None and len(av[3]) == 1:
        op, av = av[3][0]
    if op is not sre_c.BRANCH:
        return None
    out = []
    for alt in av[1]:
        if not all(o is sre_c.LITERAL for o, _ in alt):
            return None
        out.append("".join(chr(c) for _, c in alt))
    return out


def _mk_match(it, rx, s, mode, node, pos=None):
    """returns VOpt(match object)"""
    tr = translate(rx)
    kind = s.kind
    R, begin, end, dollar = tr.language()
    # what surrounds a match is unconstrained text: the full language (cheaper for the solvers than a range star, and
    # equal to it on every real bytes / str value)
    any_ = z3.Full(z3.ReSort(StrS))
    nl_opt = z3.Option(_lit(10))
    sz = s.z
    base = z3.IntVal(0)
    if pos is not None:
        base = pos
        sz = z3.SubString(s.z, pos, z3.Length(s.z))
    tail_re = z3.Re(z3.StringVal(""))
    if dollar:
        tail_re = nl_opt
    if mode == "fullmatch":
        full = z3.Concat(R, tail_re) if dollar else R
        ok = z3.InRe(sz, full)
    elif mode == "match":
        full = z3.Concat(R, tail_re) if end else z3.Concat(R, any_)
        ok = z3.InRe(sz, full)
    else:  # search
        if begin:
            full = z3.Concat(R, tail_re) if end else z3.Concat(R, any_)
        else:
            full = z3.Concat(any_, R, tail_re) if end else z3.Concat(any_, R, any_)
        ok = z3.InRe(sz, full)
    if it.spec:
        return VOpt(z3.Not(ok), VObj("re.Match", {}))
    if not it.branch(ok, "re." + mode):
        return NONE
    # matched: build the decomposition
    pieces, _, _, _ = _top_pieces(tr)
    m = VObj("re.Match", {})
    pre = z3.StringVal("")
    if mode == "search" and not begin:
        pre = z3.String(it.ctx.fresh_name("re_pre"))
    parts = [pre]
    groups = {}
    for gno, r, optional in pieces:
        v = z3.String(it.ctx.fresh_name("re_g" if gno is not None else "re_p"))
        if optional:
            present = z3.Bool(it.ctx.fresh_name("re_gp"))
            it.ctx.assume(z3.If(present, z3.InRe(v, r), v == z3.StringVal("")), "re:piece-language")
            groups[gno] = (present, v)
        else:
            it.ctx.assume(z3.InRe(v, r), "re:piece-language")
            if gno is not None:
                groups[gno] = (T(), v)
        parts.append(v)
    whole_parts = parts[1:]
    post = z3.String(it.ctx.fresh_name("re_post"))
    if mode == "fullmatch" or end:
        it.ctx.assume(z3.InRe(post, tail_re), "re:tail")
    parts.append(post)
    it.ctx.assume(sz == z3.Concat(*parts) if len(parts) > 1 else sz == parts[0], "re:decomposition")
    # leftmost-first choice: when the pattern ENDS with an alternation of literals and nothing after it can force
    # backtracking (not fullmatch, no end anchor), the first alternative that fits is the one taken
    alts = _literal_alternatives(tr)
    if alts and whole_parts:
        if len(alts) <= 4:
            # one path per alternative: the matched text is a constant on each
            d = it.ctx.choose([whole_parts[-1] == z3.StringVal(li) for li in alts], what="re:alternative")
            it.ctx.assume(whole_parts[-1] == z3.StringVal(alts[d]), "re:piece-language")
        else:
            it.ctx.assume(z3.Or([whole_parts[-1] == z3.StringVal(li) for li in alts]), "re:piece-language")
    if alts and mode != "fullmatch" and not end and whole_parts:
        last = whole_parts[-1]
        rest = z3.Concat(last, post)
        for i, li in enumerate(alts):
            earlier = [z3.Not(z3.PrefixOf(z3.StringVal(lj), rest)) for lj in alts[:i]]
            if earlier:
                it.ctx.assume(z3.Implies(last == z3.StringVal(li), z3.And(earlier)), "re:leftmost-first-alternative")
    whole = z3.Concat(*whole_parts) if len(whole_parts) > 1 else (whole_parts[0] if whole_parts else z3.StringVal(""))
    m.fields["__whole__"] = VStr(whole, kind)
    m.fields["__start__"] = VInt(base + z3.Length(pre))
    m.fields["__end__"] = VInt(base + z3.Length(pre) + z3.Length(whole))
    m.fields["__groups__"] = groups
    m.fields["__kind__"] = kind
    m.fields["__ngroups__"] = tr.parsed.state.groups - 1
    m.fields["__names__"] = dict(tr.parsed.state.groupdict)
    return m


def match_attr(it, m, name, node):
    kind = m.fields["__kind__"]

    def grp(k):
        if isinstance(k, str):
            k = m.fields["__names__"][k]
        if k == 0:
            return m.fields["__whole__"]
        g = m.fields["__groups__"].get(k)
        if g is None:
            raise Unsupported(f"regex group {k} is not a top-level group")
        present, v = g
        if z3.is_true(present):
            return VStr(v, kind)
        return VOpt(z3.Not(present), VStr(v, kind))

    def group(it2, a, k, n):
        if not a:
            return grp(0)
        ks = []
        for x in a:
            x = it2.need(x)
            if isinstance(x, VStr):
                ks.append(concrete_str(x.z))
            else:
                ks.append(concrete_int(as_int(x)))
        if len(ks) == 1:
            return grp(ks[0])
        return VTuple([grp(x) for x in ks])

    def groups(it2, a, k, n):
        return VTuple([grp(i) for i in range(1, m.fields["__ngroups__"] + 1)])

    def end(it2, a, k, n):
        if a:
            raise Unsupported("match.end(group)")
        return m.fields["__end__"]

    def start(it2, a, k, n):
        if a:
            raise Unsupported("match.start(group)")
        return m.fields["__start__"]

    def span(it2, a, k, n):
        return VTuple([m.fields["__start__"], m.fields["__end__"]])

    table = {"group": group, "groups": groups, "end": end, "start": start, "span": span}
    if name in table:
        return VBuiltin("match." + name, table[name])
    raise Unsupported(f"match attribute {name}")


def regex_attr(it, rx, name, node):
    def mk(mode):
        def f(it2, a, k, n):
            s = it2.need(a[0])
            if isinstance(s, VByteArray) and rx.is_bytes:
                # bytes patterns accept any bytes-like subject; the match only reads it
                s = VStr(s.z, "bytes")
            if not isinstance(s, VStr):
                it2.raise_("TypeError", node=n)
            pos = None
            if len(a) > 1:
                pos = as_int(it2.need(a[1]))
            return _mk_match(it2, rx, s, mode, n, pos)
        return VBuiltin("re." + mode, f)

    if name in ("fullmatch", "match", "search"):
        return mk(name)
    if name == "sub":
        def sub(it2, a, k, n):
            h = it2.reg.overrides.get("re.sub")
            if h is not None:
                return h(it2, rx, a, k, n)
            repl = it2.need(a[0])
            s_ = it2.need(a[1])
            # deletion of every character of a single class: the result is made of the other characters
            # (trusted: re.sub with a one-character class and an empty replacement = character-wise filter)
            if isinstance(repl, VStr) and concrete_str(repl.z) == "":
                tr = translate(rx)
                keep = _complement(class_ranges_of_single_class(rx), tr.maxc)
                r = z3.String(it2.ctx.fresh_name("re_sub"))
                it2.ctx.assume(z3.InRe(r, z3.Star(tr.ranges_re(keep))), "re.sub(class, ''):only-other-characters-remain")
                it2.ctx.assume(z3.Length(r) <= z3.Length(s_.z), "re.sub(class, ''):not-longer")
                return VStr(r, s_.kind)
            raise Unsupported("re.sub")
        return VBuiltin("re.sub", sub)
    if name == "pattern":
        return VStr(rx.pattern, "bytes" if rx.is_bytes else "str")
    raise Unsupported(f"regex attribute {name}")
