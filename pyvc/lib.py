"""Python built-in operations, methods and the trusted stdlib spec table.

Everything in this file is part of the *encoding assumptions*: it states what
pyvc believes CPython does.  It is cross-checked against CPython by
selftest/crosscheck.py (concrete inputs fold to constants).
"""
from __future__ import annotations

import ast
import builtins as _pybuiltins

import z3

from . import ops
from .ops import Unsupported, truthy, eq, ite, as_int, as_real, is_num, concrete_int, concrete_str, T, F, str_slice, slice_bounds
from .values import (
    NONE, V, VBool, VByteArray, VDict, VExc, VFloat, VInt, VList, VNone, VObj, VOpaque,
    VOpt, VSet, VStr, VTuple, VClass, VFunc, VBuiltin, VModule, VRegex,
    leaf_sorts, flatten, unflatten, shape_of, IntS, BoolS, StrS, opaque_sort,
)
from .extract import ClassInfo

# uninterpreted functions shared by all paths (stable names)
LOWER = z3.Function("py_lower", StrS, StrS)
UPPER = z3.Function("py_upper", StrS, StrS)
TITLE = z3.Function("py_title", StrS, StrS)
STR_OF_INT = None  # native z3 int.to.str used


def B(name, fn, self_obj=None):
    return VBuiltin(name, fn, self_obj)


# ==========================================================================
# arithmetic / comparison

def binop(interp, op, a, b, node):
    if isinstance(op, ast.Add):
        if isinstance(a, (VStr, VByteArray)) and isinstance(b, (VStr, VByteArray)):
            kind = "bytes" if isinstance(a, VByteArray) else a.kind
            bk = "bytes" if isinstance(b, VByteArray) else b.kind
            if kind != bk:
                interp.raise_("TypeError", node=node)
            r = VStr(z3.Concat(a.z, b.z), kind)
            if isinstance(a, VByteArray):
                return VByteArray(r.z)
            return r
        if isinstance(a, VTuple) and isinstance(b, VTuple):
            return VTuple(a.items + b.items)
        if isinstance(a, VList) and isinstance(b, VList):
            if a.concrete and b.concrete:
                return VList(a.items + b.items)
            return list_concat(interp, a, b)
    if isinstance(op, ast.Mod) and isinstance(a, VStr):
        return _percent_format(interp, a, b, node)
    if isinstance(op, ast.Mult) and isinstance(a, VStr) and isinstance(b, VInt):
        n = concrete_int(b.z)
        if n is None:
            raise Unsupported("str * symbolic int")
        z = z3.StringVal("")
        for _ in range(max(n, 0)):
            z = z3.Concat(z, a.z)
        return VStr(z3.simplify(z), a.kind)
    if isinstance(op, ast.BitOr) and isinstance(a, VSet) and isinstance(b, VSet):
        return set_union(interp, a, b)
    if not (is_num(a) and is_num(b)):
        if isinstance(a, VNone) or isinstance(b, VNone) or isinstance(a, (VStr, VTuple, VList)) or isinstance(b, (VStr, VTuple, VList)):
            if interp.spec:
                raise Unsupported(f"spec arithmetic on {a!r} {b!r}")
            interp.raise_("TypeError", node=node)
        raise Unsupported(f"binop {type(op).__name__} on {a!r}, {b!r}")
    fl = isinstance(a, VFloat) or isinstance(b, VFloat)
    if isinstance(op, ast.Div):
        if not interp.spec and interp.branch(as_real(b) == 0, "div0"):
            interp.raise_("ZeroDivisionError", node=node)
        return VFloat(as_real(a) / as_real(b))
    if fl:
        x, y = as_real(a), as_real(b)
        if isinstance(op, ast.Add):
            return VFloat(x + y)
        if isinstance(op, ast.Sub):
            return VFloat(x - y)
        if isinstance(op, ast.Mult):
            return VFloat(x * y)
        raise Unsupported(f"float op {type(op).__name__}")
    x, y = as_int(a), as_int(b)
    if isinstance(op, ast.Add):
        return VInt(x + y)
    if isinstance(op, ast.Sub):
        return VInt(x - y)
    if isinstance(op, ast.Mult):
        return VInt(x * y)
    if isinstance(op, (ast.FloorDiv, ast.Mod)):
        if not interp.spec and interp.branch(y == 0, "div0"):
            interp.raise_("ZeroDivisionError", node=node)
        # python floor semantics: z3 div/mod are euclidean (remainder >= 0)
        q = z3.If(y > 0, x / y, -((-x) / (-y)) if False else _floordiv(x, y))
        if isinstance(op, ast.FloorDiv):
            return VInt(q)
        return VInt(x - q * y)
    if isinstance(op, ast.Pow):
        cy = concrete_int(y)
        if cy is not None and 0 <= cy <= 8:
            r = z3.IntVal(1)
            for _ in range(cy):
                r = r * x
            return VInt(r)
        raise Unsupported("pow")
    if isinstance(op, ast.BitAnd) and isinstance(a, VBool) and isinstance(b, VBool):
        return VBool(z3.And(a.z, b.z))
    if isinstance(op, ast.BitOr) and isinstance(a, VBool) and isinstance(b, VBool):
        return VBool(z3.Or(a.z, b.z))
    cx, cy = concrete_int(x), concrete_int(y)
    if cx is not None and cy is not None and isinstance(op, (ast.BitOr, ast.BitAnd, ast.BitXor, ast.LShift, ast.RShift)):
        import operator as _op
        f = {ast.BitOr: _op.or_, ast.BitAnd: _op.and_, ast.BitXor: _op.xor, ast.LShift: _op.lshift, ast.RShift: _op.rshift}[type(op)]
        if not (isinstance(op, (ast.LShift, ast.RShift)) and not 0 <= cy <= 64):
            return VInt(f(cx, cy))      # constants (regex flags and the like)
    raise Unsupported(f"int op {type(op).__name__}")


def _floordiv(x, y):
    # floor(x / y) from euclidean division (z3: x == y*(x div y) + (x mod y), 0 <= mod < |y|)
    q = x / y
    r = x % y
    # y > 0: euclidean quotient is already the floor.  y < 0: floor = q if r == 0 else q - 1
    return z3.If(y > 0, q, z3.If(r == 0, q, q - 1))


def compare(interp, op, a, b, node):
    if isinstance(op, (ast.Is, ast.IsNot)):
        r = identity(interp, a, b)
        return r if isinstance(op, ast.Is) else z3.Not(r)
    if isinstance(op, (ast.Eq, ast.NotEq)):
        a2, b2 = a, b
        if isinstance(a2, VObj) or isinstance(b2, VObj):
            r = obj_eq(interp, a2, b2, node)
        else:
            r = eq(a2, b2)
        return r if isinstance(op, ast.Eq) else z3.Not(r)
    if isinstance(op, (ast.In, ast.NotIn)):
        r = contains(interp, b, a, node)
        return r if isinstance(op, ast.In) else z3.Not(r)
    a = interp.need(a)
    b = interp.need(b)
    if isinstance(a, VObj) and isinstance(b, VObj) and a.model is not None and a.model.order_key \
            and b.model is a.model:
        ka = VTuple([a.fields[f] for f in a.model.order_key])
        kb = VTuple([b.fields[f] for f in a.model.order_key])
        return tuple_order(interp, op, ka, kb, node)
    if is_num(a) and is_num(b):
        if isinstance(a, VFloat) or isinstance(b, VFloat):
            x, y = as_real(a), as_real(b)
        else:
            x, y = as_int(a), as_int(b)
        if isinstance(op, ast.Lt):
            return x < y
        if isinstance(op, ast.LtE):
            return x <= y
        if isinstance(op, ast.Gt):
            return x > y
        if isinstance(op, ast.GtE):
            return x >= y
    if isinstance(a, VStr) and isinstance(b, VStr):
        if isinstance(op, ast.Lt):
            return a.z < b.z
        if isinstance(op, ast.LtE):
            return a.z <= b.z
        if isinstance(op, ast.Gt):
            return b.z < a.z
        if isinstance(op, ast.GtE):
            return b.z <= a.z
    if isinstance(a, VTuple) and isinstance(b, VTuple) and len(a.items) == len(b.items):
        return tuple_order(interp, op, a, b, node)
    if isinstance(a, VNone) or isinstance(b, VNone):
        if interp.spec:
            raise Unsupported("ordering comparison with None in spec")
        interp.raise_("TypeError", node=node)
    raise Unsupported(f"compare {type(op).__name__} on {a!r}, {b!r}")


def tuple_order(interp, op, a, b, node):
    strict = isinstance(op, (ast.Lt, ast.Gt))
    lt = isinstance(op, (ast.Lt, ast.LtE))
    res = z3.BoolVal(not strict)
    for x, y in reversed(list(zip(a.items, b.items))):
        xlt = compare(interp, ast.Lt() if lt else ast.Gt(), x, y, node)
        xeq = compare(interp, ast.Eq(), x, y, node)
        res = z3.Or(xlt, z3.And(xeq, res))
    return res


def identity(interp, a, b):
    an, av = ops.lift_opt(a)
    bn, bv = ops.lift_opt(b)
    if av is None or bv is None:
        return z3.And(an, bn)
    same = None
    if isinstance(av, (VObj, VList, VDict, VByteArray, VSet, VFunc, VBuiltin)) or isinstance(bv, (VObj, VList, VDict, VByteArray, VSet, VFunc, VBuiltin)):
        # old(x) of an object is a snapshot carrying the object's identity (ops.snapshot keeps .id; objects, unlike
        # lists / dicts / sets, are never copied that way)
        same = z3.BoolVal(av is bv or (isinstance(av, VObj) and isinstance(bv, VObj) and getattr(av, "id", None) is not None
                                       and getattr(av, "id", None) == getattr(bv, "id", None)))
    elif isinstance(av, VBool) and isinstance(bv, VBool):
        same = av.z == bv.z
    elif isinstance(av, VBool) != isinstance(bv, VBool):
        same = F()  # True is not 1
    elif isinstance(av, VOpaque) and isinstance(bv, VOpaque):
        same = eq(av, bv)
    elif isinstance(av, VClass) and isinstance(bv, VClass):
        same = z3.BoolVal(av.name == bv.name)
    else:
        # identity of equal immutable scalars is implementation-defined; only used with
        # singletons in the code under contract
        same = eq(av, bv)
    return z3.Or(z3.And(an, bn), z3.And(z3.Not(an), z3.Not(bn), same))


def obj_eq(interp, a, b, node):
    a = interp.need(a)
    b = interp.need(b)
    if isinstance(a, VObj) and isinstance(a.cls, ClassInfo):
        owner, found = a.cls.find_method("__eq__")
        if isinstance(found, list) and not interp.spec:
            f = VFunc(found[-1], owner.module, None, f"{owner.name}.__eq__", owner)
            return truthy(interp.call(f.bind(a), [b], {}, node))
    if isinstance(a, VObj) and isinstance(b, VObj):
        return z3.BoolVal(a is b)
    return F()


def contains(interp, container, item, node):
    c = interp.need(container)
    if isinstance(c, VStr):
        it = interp.need(item)
        if isinstance(it, VStr):
            return z3.Contains(c.z, it.z)
        if isinstance(it, VInt) and c.kind == "bytes":
            return z3.Contains(c.z, z3.StrFromCode(it.z))
        interp.raise_("TypeError", node=node)
    if isinstance(c, (VTuple,)) or (isinstance(c, VList) and c.concrete) or (isinstance(c, VSet) and c.items is not None):
        items = c.items
        return z3.Or([_eq_loose(item, x) for x in items] + [F()])
    if isinstance(c, VList):
        i = z3.Int(interp.ctx.fresh_name("k_in"))
        body = _eq_loose(item, ops.list_get(c, i))
        return z3.Exists([i], z3.And(i >= 0, i < c.length, body))
    if isinstance(c, VSet):
        it = interp.need(item)
        return z3.Select(c.arr, key_z(it))
    if isinstance(c, VDict):
        return dict_has(interp, c, item)
    if isinstance(c, VObj) and "__dict__" in c.fields and not (
            isinstance(c.cls, ClassInfo) and isinstance(c.cls.find_method("__contains__")[1], list)):
        return dict_has(interp, c.fields["__dict__"], item)
    if isinstance(c, VObj):
        if isinstance(c.cls, ClassInfo):
            owner, found = c.cls.find_method("__contains__")
            if isinstance(found, list):
                f = VFunc(found[-1], owner.module, None, f"{owner.name}.__contains__", owner)
                return truthy(interp.call(f.bind(c), [item], {}, node))
    raise Unsupported(f"'in' on {c!r}")


def _eq_loose(a, b):
    try:
        return eq(a, b)
    except Unsupported:
        return F()


def key_z(v):
    if isinstance(v, VStr):
        return v.z
    if isinstance(v, VInt):
        return v.z
    raise Unsupported(f"key {v!r}")


# ==========================================================================
# str() / repr()

def int_to_str(z):
    return z3.If(z < 0, z3.Concat(z3.StringVal("-"), z3.IntToStr(-z)), z3.IntToStr(z))


def to_str(interp, v, node=None):
    v = interp.need(v) if not interp.spec else v
    if isinstance(v, VStr):
        if v.kind == "str":
            return v
        raise Unsupported("str(bytes)")
    if isinstance(v, VBool):
        return VStr(z3.If(v.z, z3.StringVal("True"), z3.StringVal("False")))
    if isinstance(v, VInt):
        r = int_to_str(v.z)
        if concrete_int(v.z) is None:
            from . import strlib
            # ground fact about str(int): an optional minus sign followed by decimal digits
            interp.ctx.assume(z3.InRe(r, strlib.PLAIN_INT), "str(int):decimal-digits")
            # ... which int() reads back as the same number
            ten = z3.IntVal(10)
            interp.ctx.assume(z3.And(strlib.INT_OK(r, ten), strlib.INT_VAL(r, ten) == v.z), "int(str(n)) == n")
        return VStr(r)
    if isinstance(v, VNone):
        return VStr("None")
    if isinstance(v, VOpt):
        inner = to_str(interp, v.val, node)
        return VStr(z3.If(v.isnone, z3.StringVal("None"), inner.z))
    if isinstance(v, VObj) and isinstance(v.cls, ClassInfo):
        owner, found = v.cls.find_method("__str__")
        if isinstance(found, list):
            f = VFunc(found[-1], owner.module, None, f"{owner.name}.__str__", owner)
            return interp.call(f.bind(v), [], {}, node)
    if interp.spec:
        raise Unsupported(f"str({v!r}) in spec")
    # text of other values (tuples, objects, exceptions ...): an unconstrained string
    # (sound over-approximation; only used for messages)
    return VStr(z3.String(interp.ctx.fresh_name("str_of")))


def to_repr(interp, v, node=None):
    if interp.spec:
        raise Unsupported("repr in spec")
    return VStr(z3.String(interp.ctx.fresh_name("repr_of")))


# ==========================================================================
# item protocol

def _index(interp, idx):
    idx = interp.need(idx)
    if isinstance(idx, (VInt, VBool)):
        return as_int(idx)
    raise Unsupported(f"index {idx!r}")


def clean_bounds(interp, lo, hi, n):
    """(start, stop) of a slice against length n; uses the path condition to drop the
    normalisation case splits when the bounds are provably in range"""
    def one(i, default):
        if i is None:
            return default
        try:
            if interp.ctx.implied(z3.And(i >= 0, i <= n)):
                return i
        except Exception:  # noqa: BLE001
            pass
        return ops.norm_index(i, n)
    s = one(lo, z3.IntVal(0))
    e = one(hi, n)
    try:
        if interp.ctx.implied(e >= s):
            return s, e
    except Exception:  # noqa: BLE001
        pass
    return s, z3.If(e < s, s, e)


def bslice(interp, z, lo, hi):
    n = z3.Length(z)
    s, e = clean_bounds(interp, lo, hi, n)
    return z3.SubString(z, s, e - s)


def getitem(interp, obj, idx, node):
    if isinstance(idx, tuple) and idx and idx[0] == "slice":
        _, lo, hi = idx
        lo = as_int(lo) if lo is not None else None
        hi = as_int(hi) if hi is not None else None
        if isinstance(obj, VStr):
            return VStr(bslice(interp, obj.z, lo, hi), obj.kind)
        if isinstance(obj, VByteArray):
            return VByteArray(bslice(interp, obj.z, lo, hi), obj.fixed)
        if isinstance(obj, (VTuple, VList)) and (isinstance(obj, VTuple) or obj.concrete):
            n = len(obj.items)
            s, e = slice_bounds(lo, hi, z3.IntVal(n))
            cs, ce = concrete_int(s), concrete_int(e)
            if cs is None or ce is None:
                raise Unsupported("symbolic slice of concrete sequence")
            sub = obj.items[cs:ce] if ce > cs else []
            return VTuple(sub) if isinstance(obj, VTuple) else VList(list(sub))
        if isinstance(obj, VList):
            return list_slice(interp, obj, lo, hi)
        if isinstance(obj, VObj):
            return _dunder(interp, obj, "__getitem__", [_slice_value(lo, hi)], node)
        raise Unsupported(f"slice of {obj!r}")
    if isinstance(obj, VStr):
        i = _index(interp, idx)
        n = z3.Length(obj.z)
        i2 = z3.If(i < 0, i + n, i)
        if not interp.spec and not interp.branch(z3.And(i2 >= 0, i2 < n), "index"):
            interp.raise_("IndexError", node=node)
        if obj.kind == "str":
            return VStr(z3.SubString(obj.z, i2, 1), "str")
        return VInt(z3.StrToCode(z3.SubString(obj.z, i2, 1)))
    if isinstance(obj, VByteArray):
        i = _index(interp, idx)
        n = z3.Length(obj.z)
        i2 = z3.If(i < 0, i + n, i)
        if not interp.spec and not interp.branch(z3.And(i2 >= 0, i2 < n), "index"):
            interp.raise_("IndexError", node=node)
        return VInt(z3.StrToCode(z3.SubString(obj.z, i2, 1)))
    if isinstance(obj, VTuple) or (isinstance(obj, VList) and obj.concrete):
        i = _index(interp, idx)
        n = len(obj.items)
        ci = concrete_int(i)
        if ci is None:
            if n == 0:
                interp.raise_("IndexError", node=node)
            # symbolic index into a concrete sequence: case split
            i2 = z3.If(i < 0, i + n, i)
            if not interp.spec:
                if not interp.branch(z3.And(i2 >= 0, i2 < n), "index"):
                    interp.raise_("IndexError", node=node)
            res = obj.items[n - 1]
            for k in range(n - 2, -1, -1):
                res = ite(i2 == k, obj.items[k], res)
            return res
        if ci < 0:
            ci += n
        if not (0 <= ci < n):
            if interp.spec:
                raise Unsupported("index out of range in spec")
            interp.raise_("IndexError", node=node)
        return obj.items[ci]
    if isinstance(obj, VList):
        i = _index(interp, idx)
        i2 = i if _known_nonneg(interp, i) else z3.If(i < 0, i + obj.length, i)
        if not interp.spec and not interp.branch(z3.And(i2 >= 0, i2 < obj.length), "index"):
            interp.raise_("IndexError", node=node)
        return ops.list_get(obj, i2)
    if isinstance(obj, VDict):
        return dict_get(interp, obj, idx, node)
    if isinstance(obj, VObj):
        return _dunder(interp, obj, "__getitem__", [idx], node)
    if isinstance(obj, VNone):
        interp.raise_("TypeError", node=node)
    if isinstance(obj, (VClass, VModule)):
        return obj  # typing subscripts
    raise Unsupported(f"getitem on {obj!r}")


def _mentions_any(term, names):
    from .contracts import _mentions
    return _mentions(term, names)


def _known_nonneg(interp, i):
    """the index is certainly not negative (then Python's wrap-around `i + len` plays no role and the array is
    selected at `i` itself, which keeps quantifier patterns simple).  Only an encoding choice: both forms are
    equal under the path condition."""
    from .symex import QRANGES
    c = concrete_int(i)
    if c is not None:
        return c >= 0
    i = z3.simplify(i)
    cache = interp.ctx.__dict__.setdefault("_nonneg_cache", {})
    key = i.get_id()
    if key in cache:
        return cache[key]
    res = False
    base = i
    # q, q + c, c + q with c >= 0
    if z3.is_add(i) and len(i.children()) == 2:
        a, b = i.children()
        if z3.is_int_value(a) and a.as_long() >= 0:
            base = b
        elif z3.is_int_value(b) and b.as_long() >= 0:
            base = a
    bound = getattr(interp, "bound_names", None) or set()
    if z3.is_const(base) and base.decl().kind() == z3.Z3_OP_UNINTERPRETED and base.decl().name() in bound:
        nm = base.decl().name()
        if nm in QRANGES:
            lo = QRANGES[nm][0]
            cl = concrete_int(lo)
            res = cl >= 0 if cl is not None else bool(interp.ctx.implied(lo >= 0, 1000))
    elif not bound or not _mentions_any(i, bound):
        # a ground term: ask the path condition
        res = bool(interp.ctx.implied(i >= 0, 1000))
    cache[key] = res
    return res


def _slice_value(lo, hi):
    return VTuple([VStr("__slice__"), VInt(lo) if lo is not None else NONE, VInt(hi) if hi is not None else NONE])


def _dunder(interp, obj, name, args, node):
    if isinstance(obj.cls, ClassInfo):
        owner, found = obj.cls.find_method(name)
        if isinstance(found, list):
            # through the normal attribute protocol, so that the method's real decorators are applied
            return interp.call(interp.class_attr(obj, name, node), args, {}, node)
        if owner is not None and not isinstance(owner, ClassInfo):
            return interp.call(foreign_method(interp, obj, owner, name, node), args, {}, node)
    if obj.model is not None:
        key = f"model:{obj.model.name}.{name}"
        if key in interp.reg.contracts:
            from .symex import _model_method
            return _model_method(key)(interp, [obj] + args, {}, node)
    raise Unsupported(f"{name} on {obj!r}")


def mut(interp, d, node):
    mutating(interp, d, "mutation", node)
    return d


def mutating(interp, obj, what, node=None):
    """frame obligation: the object held by a ContextVar (tag SHARED) is never mutated in place"""
    if "SHARED" in getattr(obj, "tags", ()):
        interp.ctx.oblige("frame", f"{interp.current_target}/no-in-place-mutation-of-shared-payload",
                          F(), {"clause": f"{what} on the object obtained from ContextVar.get() (line {getattr(node, 'lineno', '?')}); "
                                          "it must be copied first"})


def setitem(interp, obj, idx, v, node):
    mutating(interp, obj, "item assignment", node)
    if isinstance(idx, tuple) and idx and idx[0] == "slice":
        _, lo, hi = idx
        lo = as_int(lo) if lo is not None else None
        hi = as_int(hi) if hi is not None else None
        if isinstance(obj, VByteArray):
            v = interp.need(v)
            if not isinstance(v, (VStr, VByteArray)):
                raise Unsupported("bytearray slice assignment from non-bytes")
            n = z3.Length(obj.z)
            s, e = clean_bounds(interp, lo, hi, n)
            if obj.fixed:
                # memoryview: lengths must agree, else ValueError
                if not interp.branch(z3.Length(v.z) == e - s, "mv-slice-len"):
                    interp.raise_("ValueError", node=node)
            head = z3.SubString(obj.z, 0, s)
            tail = z3.SubString(obj.z, e, n - e)
            new = z3.String(interp.ctx.fresh_name("ba"))
            interp.ctx.assume(new == z3.Concat(head, v.z, tail), "bytearray-slice-store:def")
            # consequences of the definition (given 0 <= s <= e <= n), stated to help the solver
            lv = z3.Length(v.z)
            interp.ctx.assume(z3.Length(new) == s + lv + (n - e), "bytearray-slice-store:len")
            interp.ctx.assume(z3.SubString(new, 0, s) == head, "bytearray-slice-store:head")
            interp.ctx.assume(z3.SubString(new, s, lv) == v.z, "bytearray-slice-store:mid")
            interp.ctx.assume(z3.SubString(new, s + lv, n - e) == tail, "bytearray-slice-store:tail")
            obj.z = new
            return
        if isinstance(obj, VList):
            return list_set_slice(interp, obj, lo, hi, v, node)
        if isinstance(obj, VObj):
            return _dunder(interp, obj, "__setitem__", [_slice_value(lo, hi), v], node)
        raise Unsupported(f"slice assignment on {obj!r}")
    if isinstance(obj, VList):
        i = _index(interp, idx)
        if obj.concrete:
            ci = concrete_int(i)
            if ci is None:
                raise Unsupported("symbolic index store into concrete list")
            if ci < 0:
                ci += len(obj.items)
            if not (0 <= ci < len(obj.items)):
                interp.raise_("IndexError", node=node)
            obj.items[ci] = v
            return
        i2 = z3.If(i < 0, i + obj.length, i)
        if not interp.branch(z3.And(i2 >= 0, i2 < obj.length), "index"):
            interp.raise_("IndexError", node=node)
        leaves = flatten(coerce(interp, v, obj.shape), obj.shape)
        obj.arrs = [z3.Store(a, i2, l) for a, l in zip(obj.arrs, leaves)]
        return
    if isinstance(obj, VDict):
        return dict_set(interp, obj, idx, v, node)
    if isinstance(obj, VByteArray):
        i = _index(interp, idx)
        n = z3.Length(obj.z)
        i2 = z3.If(i < 0, i + n, i)
        if not interp.branch(z3.And(i2 >= 0, i2 < n), "index"):
            interp.raise_("IndexError", node=node)
        vv = interp.need(v)
        obj.z = z3.Concat(z3.SubString(obj.z, 0, i2), z3.StrFromCode(as_int(vv)), z3.SubString(obj.z, i2 + 1, n - i2 - 1))
        return
    if isinstance(obj, VObj):
        return _dunder(interp, obj, "__setitem__", [idx, v], node)
    if isinstance(obj, (VTuple, VStr)):
        interp.raise_("TypeError", node=node)
    raise Unsupported(f"setitem on {obj!r}")


def delitem(interp, obj, idx, node):
    mutating(interp, obj, "item deletion", node)
    if isinstance(idx, tuple) and idx and idx[0] == "slice":
        _, lo, hi = idx
        lo = as_int(lo) if lo is not None else None
        hi = as_int(hi) if hi is not None else None
        if isinstance(obj, VByteArray):
            if obj.fixed:
                interp.raise_("TypeError", node=node)
            n = z3.Length(obj.z)
            s, e = clean_bounds(interp, lo, hi, n)
            obj.z = z3.Concat(z3.SubString(obj.z, 0, s), z3.SubString(obj.z, e, n - e))
            return
        if isinstance(obj, VList):
            return list_set_slice(interp, obj, lo, hi, VList([]), node)
        if isinstance(obj, VObj):
            return _dunder(interp, obj, "__delitem__", [_slice_value(lo, hi)], node)
        raise Unsupported(f"del slice on {obj!r}")
    if isinstance(obj, VList):
        i = _index(interp, idx)
        if obj.concrete:
            ci = concrete_int(i)
            if ci is None:
                raise Unsupported("symbolic del from concrete list")
            if ci < 0:
                ci += len(obj.items)
            if not (0 <= ci < len(obj.items)):
                interp.raise_("IndexError", node=node)
            del obj.items[ci]
            return
        i2 = z3.If(i < 0, i + obj.length, i)
        if not interp.branch(z3.And(i2 >= 0, i2 < obj.length), "index"):
            interp.raise_("IndexError", node=node)
        list_delete_at(interp, obj, i2)
        return
    if isinstance(obj, VDict):
        return dict_del(interp, obj, idx, node)
    if isinstance(obj, VObj):
        return _dunder(interp, obj, "__delitem__", [idx], node)
    raise Unsupported(f"delitem on {obj!r}")


# ==========================================================================
# symbolic lists (struct of arrays)

def coerce(interp, v, shape):
    """make v conform to an element shape (wrap into Optional where needed)"""
    if isinstance(shape, tuple) and shape[0] == "opt":
        if isinstance(v, VOpt):
            return VOpt(v.isnone, coerce(interp, v.val, shape[1]))
        if isinstance(v, VNone):
            from .fresh import fresh_value
            return VOpt(True, unflatten(shape[1], [ops.default_leaf(s) for s in leaf_sorts(shape[1])]))
        return VOpt(False, coerce(interp, v, shape[1]))
    if isinstance(shape, tuple) and shape[0] == "tuple":
        if not isinstance(v, VTuple) or len(v.items) != len(shape[1]):
            raise Unsupported(f"value {v!r} does not fit shape {shape!r}")
        return VTuple([coerce(interp, x, s) for x, s in zip(v.items, shape[1])])
    if shape == "float" and isinstance(v, (VInt, VBool)):
        return VFloat(as_real(v))
    if shape == "int" and isinstance(v, VBool):
        return VInt(as_int(v))
    if isinstance(v, VOpt):
        raise Unsupported(f"optional value {v!r} stored into non-optional slot {shape!r}")
    want = {"str": VStr, "bytes": VStr, "int": VInt, "bool": VBool, "float": VFloat}.get(shape) if isinstance(shape, str) else None
    if want is not None and (not isinstance(v, want) or (want is VStr and v.kind != shape) or (want is VInt and isinstance(v, VBool))):
        # the container is modelled with one element type; a value of another type is outside the model (never a
        # solver-level sort error)
        raise Unsupported(f"value {v!r} stored into a container modelled with elements of type {shape!r}")
    return v


def fresh_list(interp, shape, name):
    from .fresh import fresh_value
    return fresh_value(interp, ("list", shape), interp.ctx.fresh_name(name))


def to_symbolic(interp, lst, shape):
    """concrete-spine list -> symbolic list of the given element shape"""
    sorts = leaf_sorts(shape)
    arrs = [z3.K(IntS, ops.default_leaf(s)) for s in sorts]
    for i, x in enumerate(lst.items):
        leaves = flatten(coerce(interp, x, shape), shape)
        arrs = [z3.Store(a, z3.IntVal(i), l) for a, l in zip(arrs, leaves)]
    return VList(None, shape=shape, arrs=arrs, length=z3.IntVal(len(lst.items)))


def _writeback(interp, lst, node=None):
    """the list lives inside a dict (dict of lists): store its new value back under its key"""
    ow = getattr(lst, "owner", None)
    if ow is not None:
        d, key = ow
        dict_set(interp, d, key, lst, node)


def list_append(interp, lst, v):
    if getattr(lst, "owner", None) is not None and lst.concrete:
        lst2 = to_symbolic(interp, lst, lst.owner[0].shape[1] if isinstance(lst.owner[0].shape, tuple) else shape_of(v))
        lst.items, lst.shape, lst.arrs, lst.length = None, lst2.shape, lst2.arrs, lst2.length
    if lst.concrete:
        lst.items.append(v)
        return
    leaves = flatten(coerce(interp, v, lst.shape), lst.shape)
    lst.arrs = [z3.Store(a, lst.length, l) for a, l in zip(lst.arrs, leaves)]
    lst.length = lst.length + 1
    _writeback(interp, lst)


def _qrange(k, new):
    """bounds of a list-axiom quantifier (for the bounded refuter)"""
    from .symex import QRANGES
    QRANGES[k.decl().name()] = (z3.IntVal(0), new.length)


def list_delete_at(interp, lst, i):
    """remove element i: result defined through a fresh list + quantified axiom"""
    new = fresh_list(interp, lst.shape, "del")
    k = z3.Int(interp.ctx.fresh_name("k_del"))
    _qrange(k, new)
    conj = []
    for a, b in zip(lst.arrs, new.arrs):
        conj.append(z3.Select(b, k) == z3.If(k < i, z3.Select(a, k), z3.Select(a, k + 1)))
    interp.ctx.assume(new.length == lst.length - 1, "list-del:len")
    interp.ctx.assume(z3.ForAll([k], z3.Implies(z3.And(k >= 0, k < new.length), z3.And(conj + [T()]))), "list-del:elems")
    lst.arrs, lst.length = new.arrs, new.length


def list_slice(interp, lst, lo, hi):
    s, e = slice_bounds(lo, hi, lst.length)
    e = z3.If(e < s, s, e)
    new = fresh_list(interp, lst.shape, "slice")
    k = z3.Int(interp.ctx.fresh_name("k_sl"))
    _qrange(k, new)
    conj = [z3.Select(b, k) == z3.Select(a, k + s) for a, b in zip(lst.arrs, new.arrs)]
    interp.ctx.assume(new.length == e - s, "list-slice:len")
    interp.ctx.assume(z3.ForAll([k], z3.Implies(z3.And(k >= 0, k < new.length), z3.And(conj + [T()]))), "list-slice:elems")
    return new


def list_concat(interp, a, b):
    shape = a.shape if not a.concrete else b.shape
    if a.concrete:
        a = to_symbolic(interp, a, shape)
    if b.concrete:
        b = to_symbolic(interp, b, shape)
    new = fresh_list(interp, shape, "cat")
    k = z3.Int(interp.ctx.fresh_name("k_cat"))
    _qrange(k, new)
    conj = [z3.Select(n, k) == z3.If(k < a.length, z3.Select(x, k), z3.Select(y, k - a.length))
            for x, y, n in zip(a.arrs, b.arrs, new.arrs)]
    interp.ctx.assume(new.length == a.length + b.length, "list-cat:len")
    interp.ctx.assume(z3.ForAll([k], z3.Implies(z3.And(k >= 0, k < new.length), z3.And(conj + [T()]))), "list-cat:elems")
    return new


def list_set_slice(interp, lst, lo, hi, v, node):
    v = interp.need(v)
    if lst.concrete:
        n = len(lst.items)
        s, e = slice_bounds(lo, hi, z3.IntVal(n))
        cs, ce = concrete_int(s), concrete_int(e)
        if cs is None or ce is None:
            raise Unsupported("symbolic slice store into concrete list")
        ce = max(ce, cs)
        lst.items[cs:ce] = interp.concrete_items(v, node)
        return
    s, e = slice_bounds(lo, hi, lst.length)
    e = z3.If(e < s, s, e)
    if isinstance(v, (VTuple,)) or (isinstance(v, VList) and v.concrete):
        v = to_symbolic(interp, VList(list(v.items)), lst.shape)
    if not isinstance(v, VList):
        raise Unsupported(f"slice assignment from {v!r}")
    new = fresh_list(interp, lst.shape, "setsl")
    k = z3.Int(interp.ctx.fresh_name("k_ss"))
    _qrange(k, new)
    conj = []
    for a, b, n in zip(lst.arrs, v.arrs, new.arrs):
        conj.append(z3.Select(n, k) == z3.If(k < s, z3.Select(a, k),
                                             z3.If(k < s + v.length, z3.Select(b, k - s),
                                                   z3.Select(a, k - v.length + (e - s)))))
    interp.ctx.assume(new.length == lst.length - (e - s) + v.length, "list-setslice:len")
    interp.ctx.assume(z3.ForAll([k], z3.Implies(z3.And(k >= 0, k < new.length), z3.And(conj + [T()]))), "list-setslice:elems")
    lst.arrs, lst.length = new.arrs, new.length


# ==========================================================================
# dicts (symbolic: present-array + value arrays; concrete: python dict)

def dict_has(interp, d, key):
    key = interp.need(key)
    if d.concrete:
        try:
            hk = interp.hashable(key)
        except Unsupported:
            # symbolic key against concrete keys
            conds = []
            for (kind, val) in d.items:
                conds.append(_eq_loose(key, _unhash(kind, val)))
            return z3.Or(conds + [F()])
        return z3.BoolVal(hk in d.items)
    return z3.Select(d.present, key_z(key))


def _unhash(kind, val):
    from .loops import _unhash as u
    return u((kind, val))


def dict_get(interp, d, key, node):
    key = interp.need(key)
    if d.concrete:
        try:
            hk = interp.hashable(key)
        except Unsupported:
            items = list(d.items.items())
            if not items:
                interp.raise_("KeyError", node=node)
            for (kind, val), v in items:
                if interp.branch(_eq_loose(key, _unhash(kind, val)), "dictkey"):
                    return v
            interp.raise_("KeyError", node=node)
        if hk not in d.items:
            if interp.spec:
                raise Unsupported("missing key in spec")
            interp.raise_("KeyError", node=node)
        return d.items[hk]
    kz = key_z(key)
    if not interp.spec and not interp.branch(z3.Select(d.present, kz), "dictkey"):
        interp.raise_("KeyError", node=node)
    v = unflatten(d.shape, [z3.Select(a, kz) for a in d.arrs])
    if isinstance(v, VList):
        interp.ctx.assume(v.length >= 0, "list:length>=0")      # whatever list is stored there
    if isinstance(v, VList) and not interp.spec:
        # a list stored in a dict is an object: in-place changes of what is handed out are changes of the stored value
        v.owner = (d, key)
    return v


def dict_set(interp, d, key, v, node):
    key = interp.need(key)
    if d.concrete:
        try:
            hk = interp.hashable(key)
        except Unsupported:
            if d.items or not isinstance(key, (VStr, VInt)):
                raise
            # an empty dict literal receiving a symbolic key becomes a symbolic dict
            from .values import shape_of
            vv = interp.need(v) if isinstance(v, VOpt) and False else v
            sh = shape_of(vv)
            d.items = None
            d.keykind = key.kind if isinstance(key, VStr) else "int"
            d.keysort = StrS if isinstance(key, VStr) else IntS
            d.shape = sh
            d.present = z3.K(d.keysort, F())
            d.arrs = [z3.K(d.keysort, ops.default_leaf(ls)) for ls in leaf_sorts(sh)]
            return dict_set(interp, d, key, v, node)
        d.items[hk] = v
        return
    kz = key_z(key)
    leaves = flatten(coerce(interp, v, d.shape), d.shape)
    d.present = z3.Store(d.present, kz, T())
    d.arrs = [z3.Store(a, kz, l) for a, l in zip(d.arrs, leaves)]


def dict_del(interp, d, key, node):
    key = interp.need(key)
    if d.concrete:
        hk = interp.hashable(key)
        if hk not in d.items:
            interp.raise_("KeyError", node=node)
        del d.items[hk]
        return
    kz = key_z(key)
    if not interp.branch(z3.Select(d.present, kz), "dictkey"):
        interp.raise_("KeyError", node=node)
    d.present = z3.Store(d.present, kz, F())


def set_union(interp, a, b):
    if a.items is not None and b.items is not None:
        return VSet(items=a.items + [x for x in b.items])
    raise Unsupported("symbolic set union")


# ==========================================================================
# attribute access on built-in values

def value_attr(interp, obj, name, node):
    if isinstance(obj, VStr):
        from . import strlib
        m = strlib.method(interp, obj, name)
        if m is not None:
            return m
    if isinstance(obj, VList):
        m = LIST_METHODS.get(name)
        if m:
            return B("list." + name, m, obj)
    if isinstance(obj, VByteArray):
        m = BYTEARRAY_METHODS.get(name)
        if m:
            return B("bytearray." + name, m, obj)
        from . import strlib
        sm = strlib.method(interp, VStr(obj.z, "bytes"), name)
        if sm is not None:
            return sm
    if isinstance(obj, VDict):
        m = DICT_METHODS.get(name)
        if m:
            return B("dict." + name, m, obj)
    if isinstance(obj, VSet):
        m = SET_METHODS.get(name)
        if m:
            return B("set." + name, m, obj)
    if isinstance(obj, VTuple):
        if name == "index" or name == "count":
            raise Unsupported("tuple." + name)
    if isinstance(obj, VExc):
        if name in obj.fields:
            return obj.fields[name]
        if name == "args":
            return VTuple(obj.args)
        ci = getattr(obj, "clsinfo", None)
        if isinstance(ci, ClassInfo):
            owner, found = ci.find_method(name)
            if found is not None and not isinstance(found, list):
                sub = interp.sub(interp.spec)
                from .symex import Env
                return sub.eval(found, Env(vars={"__module__": owner.module}))
        raise Unsupported(f"exception attribute {name}")
    if isinstance(obj, VOpaque):
        return opaque_attr(interp, obj, name, node)
    if isinstance(obj, VRegex):
        from . import rx
        return rx.regex_attr(interp, obj, name, node)
    if isinstance(obj, VFunc):
        if name == "__name__":
            return VStr(obj.qualname.split(".")[-1])
    if isinstance(obj, VInt) and name in ("real", "numerator"):
        return obj
    raise Unsupported(f"attribute {name!r} of {obj!r} (line {getattr(node, 'lineno', '?')})")


def opaque_attr(interp, obj, name, node):
    h = interp.reg.overrides.get(f"opaque:{obj.kind}.{name}")
    if h is not None:
        return h(interp, obj, node)
    raise Unsupported(f"attribute {name!r} of opaque {obj.kind}")


def call_opaque(interp, fv, args, kwargs, node):
    """call of an opaque callable (callback): recorded in the ghost call log,
    returns an unconstrained opaque value; assumed not to touch modelled state"""
    log = interp.ghost.setdefault("calls", [])
    log.append((fv, [ops.snapshot(a) for a in args], interp.ctx.cur_line))
    h = interp.reg.overrides.get(f"call:{fv.kind}")
    if h is not None:
        return h(interp, fv, args, kwargs, node)
    return NONE


def missing_attr(interp, obj, name, node):
    interp.raise_("AttributeError", node=node)


def foreign_method(interp, obj, owner, name, node):
    """method inherited from a builtin / stdlib base class"""
    key = f"foreign:{owner}.{name}"
    if owner == "dict" and isinstance(obj, VObj) and "__dict__" in obj.fields:
        d = obj.fields["__dict__"]
        if name == "__setitem__":
            return B("dict.__setitem__", lambda it, a, k, n: dict_set(it, mut(it, a[0].fields["__dict__"], n), a[1], a[2], n) or NONE, obj)
        if name == "__delitem__":
            return B("dict.__delitem__", lambda it, a, k, n: dict_del(it, mut(it, a[0].fields["__dict__"], n), a[1], n) or NONE, obj)
        if name == "__getitem__":
            return B("dict.__getitem__", lambda it, a, k, n: dict_get(it, a[0].fields["__dict__"], a[1], n), obj)
        if name == "__contains__":
            return B("dict.__contains__", lambda it, a, k, n: VBool(dict_has(it, a[0].fields["__dict__"], a[1])), obj)
        if name in DICT_METHODS:
            return B("dict." + name, lambda it, a, k, n: DICT_METHODS[name](it, [a[0].fields["__dict__"]] + a[1:], k, n), obj)
    if owner == "list" and isinstance(obj, VObj):
        # list subclass: the list part of the object lives in the field __list__
        if name == "__init__":
            def init(it, a, k, n):
                src = it.need(a[1]) if len(a) > 1 else VList([])
                if isinstance(src, VObj) and "__list__" in src.fields:
                    src = src.fields["__list__"]
                a[0].fields["__list__"] = _list(it, [src], {}, n)
                return NONE
            return B("list.__init__", init, obj)
        if name in ("__getitem__",) and "__list__" in obj.fields:
            return B("list.__getitem__", lambda it, a, k, n: getitem(it, a[0].fields["__list__"], a[1], n), obj)
        if name in LIST_METHODS and "__list__" in obj.fields:
            return B("list." + name, lambda it, a, k, n: LIST_METHODS[name](it, [a[0].fields["__list__"]] + a[1:], k, n), obj)
    h = interp.reg.overrides.get(key)
    if h is not None:
        return B(key, h, obj)
    if key in interp.reg.contracts:
        from .symex import _model_method
        return B(key, _model_method(key), obj)
    if owner in ("object", "Generic", "typing.Generic", "t.Generic") or name in ("__init__",) and owner in ("object",):
        if name == "__init__":
            return B("object.__init__", lambda it, a, k, n: NONE, obj)
        if name == "__setattr__":
            def osetattr(it, a, k, n):
                o, nm, v = a[0], concrete_str(it.need(a[1]).z), a[2]
                if nm is None:
                    raise Unsupported("object.__setattr__ with a symbolic attribute name")
                # data descriptors (property setters) of the class take precedence, as in CPython
                if isinstance(o.cls, ClassInfo):
                    ow, found = o.cls.find_method(nm)
                    if isinstance(found, list):
                        for fn in found:
                            if f"{nm}.setter" in [ast.unparse(d) for d in fn.decorator_list]:
                                f = VFunc(fn, ow.module, None, f"{ow.name}.{nm}", ow)
                                it.call(f.bind(o), [v], {}, n)
                                return NONE
                it.frame_write(o, nm)
                o.fields[nm] = v
                return NONE
            return B("object.__setattr__", osetattr, obj)
    raise Unsupported(f"method {name!r} inherited from foreign base {owner!r} (line {getattr(node, 'lineno', '?')})")


def external_class_attr(interp, cv, name, node):
    h = interp.reg.overrides.get(f"extclass:{cv.name}.{name}")
    if h is not None:
        return h(interp)
    raise Unsupported(f"attribute {name} of external class {cv.name}")


def construct_external(interp, cv, args, kwargs, node):
    name = cv.name
    short = name.split(".")[-1]
    py = getattr(_pybuiltins, short, None)
    if isinstance(py, type) and issubclass(py, BaseException):
        e = VExc(short, args)
        e.clsinfo = None
        return e
    from .symex import _EXTRA_EXC
    if name in _EXTRA_EXC:
        e = VExc(name, args)
        e.clsinfo = None
        return e
    h = interp.reg.overrides.get(f"construct:{name}")
    if h is not None:
        return h(interp, args, kwargs, node)
    if short in CTORS:
        return CTORS[short](interp, args, kwargs, node)
    raise Unsupported(f"construction of external class {name} (line {getattr(node, 'lineno', '?')})")


# ==========================================================================
# list / bytearray / dict / set methods

def _list_append(it, a, k, n):
    mutating(it, a[0], 'append()', n)
    list_append(it, a[0], a[1])
    return NONE


def _list_extend(it, a, k, n):
    mutating(it, a[0], 'extend()', n)
    lst, other = a[0], it.need(a[1])
    if lst.concrete:
        lst.items.extend(it.concrete_items(other, n))
        return NONE
    if isinstance(other, (VTuple,)) or (isinstance(other, VList) and other.concrete):
        for x in other.items:
            list_append(it, lst, x)
        return NONE
    new = list_concat(it, lst, other)
    lst.arrs, lst.length = new.arrs, new.length
    return NONE


def _list_pop(it, a, k, n):
    mutating(it, a[0], 'pop()', n)
    lst = a[0]
    if lst.concrete:
        if not lst.items:
            it.raise_("IndexError", node=n)
        i = concrete_int(as_int(a[1])) if len(a) > 1 else -1
        if i is None:
            raise Unsupported("symbolic pop index")
        try:
            return lst.items.pop(i)
        except IndexError:
            it.raise_("IndexError", node=n)
    if len(a) > 1:
        i = as_int(it.need(a[1]))
        i2 = z3.If(i < 0, i + lst.length, i)
        if not it.branch(z3.And(i2 >= 0, i2 < lst.length), "index"):
            it.raise_("IndexError", node=n)
        v = ops.list_get(lst, i2)
        list_delete_at(it, lst, i2)
        return v
    if not it.branch(lst.length > 0, "pop"):
        it.raise_("IndexError", node=n)
    v = ops.list_get(lst, lst.length - 1)
    lst.length = lst.length - 1
    return v


def _list_insert(it, a, k, n):
    mutating(it, a[0], 'insert()', n)
    lst = a[0]
    if lst.concrete:
        i = concrete_int(as_int(a[1]))
        if i is None:
            raise Unsupported("symbolic insert index")
        lst.items.insert(i, a[2])
        return NONE
    i = as_int(it.need(a[1]))
    pos = ops.norm_index(i, lst.length)
    list_set_slice(it, lst, pos, pos, VList([a[2]]), n)
    return NONE


def _list_copy(it, a, k, n):
    lst = a[0]
    if lst.concrete:
        return VList(list(lst.items))
    return VList(None, shape=lst.shape, arrs=list(lst.arrs), length=lst.length)


def _list_clear(it, a, k, n):
    mutating(it, a[0], 'clear()', n)
    lst = a[0]
    if lst.concrete:
        lst.items.clear()
    else:
        lst.length = z3.IntVal(0)
    return NONE


def _list_index(it, a, k, n):
    lst, x = a[0], a[1]
    if lst.concrete:
        for i, y in enumerate(lst.items):
            if it.branch(eq(x, y), "list.index"):
                return VInt(i)
        it.raise_("ValueError", node=n)
    raise Unsupported("index on symbolic list")


def _list_remove(it, a, k, n):
    mutating(it, a[0], 'remove()', n)
    lst, x = a[0], a[1]
    if lst.concrete:
        for i, y in enumerate(lst.items):
            if it.branch(eq(x, y), "list.remove"):
                del lst.items[i]
                return NONE
        it.raise_("ValueError", node=n)
    raise Unsupported("remove on symbolic list")


LIST_METHODS = {
    "append": _list_append, "extend": _list_extend, "pop": _list_pop, "insert": _list_insert,
    "copy": _list_copy, "clear": _list_clear, "index": _list_index, "remove": _list_remove,
}


def _ba_extend(it, a, k, n):
    ba, other = a[0], it.need(a[1])
    if ba.fixed:
        it.raise_("AttributeError", node=n)
    if isinstance(other, (VStr, VByteArray)):
        ba.z = z3.Concat(ba.z, other.z)
        return NONE
    raise Unsupported("bytearray.extend non-bytes")


BYTEARRAY_METHODS = {"extend": _ba_extend}


def _dict_get(it, a, k, n):
    d, key = a[0], it.need(a[1])
    default = a[2] if len(a) > 2 else k.get("default", NONE)
    if isinstance(key, VNone) and not d.concrete:
        return default
    if "type" in k and not isinstance(k["type"], VNone):
        # MultiDict.get(key, type=T): conversion is abstract -- present and convertible gives
        # some T value, otherwise the default (trusted: TypeConversionDict.get)
        if it.spec:
            raise Unsupported("dict.get(type=) in spec")
        if it.branch(dict_has(it, d, key), "dict.get"):
            tname = getattr(k["type"], "name", "")
            if tname == "int":
                ok = z3.Bool(it.ctx.fresh_name("conv_ok"))
                if it.branch(ok, "conv"):
                    return VInt(z3.Int(it.ctx.fresh_name("conv_int")))
                return default
            raise Unsupported(f"dict.get(type={tname})")
        return default
    has = dict_has(it, d, key)
    if it.spec:
        if not d.concrete and isinstance(default, VNone):
            # specification text: d.get(k) of a symbolic map is the Optional "absent or the stored value" (no branching)
            v = dict_get(it, d, key, n)
            if isinstance(v, (VStr, VInt, VBool)):
                return VOpt(z3.Not(has), v)
        raise Unsupported("dict.get in spec")
    if it.branch(has, "dict.get"):
        return dict_get(it, d, key, n)
    return default


def _dict_pop(it, a, k, n):
    mutating(it, a[0], 'pop()', n)
    d, key = a[0], it.need(a[1])
    has = dict_has(it, d, key)
    if it.branch(has, "dict.pop"):
        v = dict_get(it, d, key, n)
        dict_del(it, d, key, n)
        return v
    if len(a) > 2:
        return a[2]
    it.raise_("KeyError", node=n)


def _dict_setdefault(it, a, k, n):
    mutating(it, a[0], 'setdefault()', n)
    d, key = a[0], it.need(a[1])
    default = a[2] if len(a) > 2 else NONE
    if it.branch(dict_has(it, d, key), "dict.setdefault"):
        return dict_get(it, d, key, n)
    dict_set(it, d, key, default, n)
    if isinstance(default, VList) and not d.concrete:
        default.owner = (d, key)       # the stored list object itself is returned
    return default


def _dict_items(it, a, k, n):
    d = a[0]
    if d.concrete:
        return VList([VTuple([_unhash(*kk), v]) for kk, v in d.items.items()])
    return _symbolic_dict_view(it, d, n, "items")


def _symbolic_dict_view(it, d, node, what):
    """iteration over a symbolic dict: an enumeration of its keys -- n = number of entries, K[0..n) the keys in iteration
    order, POS the inverse (ghost witness: position of a key).  Trusted encoding: every K[i] is present and sits at position
    i (hence the keys are distinct), every present key is enumerated.  The snapshot semantics of a for loop over
    d.items() are kept only if the loop does not change d (a change raises RuntimeError in CPython; not modelled)."""
    from .loops import View
    from .values import unflatten
    from .symex import QRANGES
    ctx = it.ctx
    ks = d.present.sort().domain()
    nlen = z3.Int(ctx.fresh_name("dict_n"))
    K = z3.Array(ctx.fresh_name("dict_keys"), z3.IntSort(), ks)
    POS = z3.Function(ctx.fresh_name("dict_pos"), ks, z3.IntSort())
    i = z3.Int(ctx.fresh_name("i_dict"))
    x = z3.Const(ctx.fresh_name("k_dict"), ks)
    present, arrs, shape, keykind = d.present, list(d.arrs), d.shape, d.keykind
    QRANGES[i.decl().name()] = (z3.IntVal(0), nlen)
    ctx.assume(nlen >= 0, "dict-iteration:length>=0")
    ctx.assume(z3.ForAll([i], z3.Implies(z3.And(i >= 0, i < nlen),
                                         z3.And(z3.Select(present, z3.Select(K, i)), POS(z3.Select(K, i)) == i))),
               "dict-iteration:enumerated-keys-are-present-and-distinct")
    ctx.assume(z3.ForAll([x], z3.Implies(z3.Select(present, x),
                                         z3.And(POS(x) >= 0, POS(x) < nlen, z3.Select(K, POS(x)) == x))),
               "dict-iteration:every-present-key-is-enumerated")

    def key_at(j):
        kz = z3.Select(K, j)
        return VStr(kz, "str" if keykind == "str" else "bytes") if keykind in ("str", "bytes") else VInt(kz)

    def get(j):
        kv = key_at(j)
        if what == "keys":
            return kv
        val = unflatten(shape, [z3.Select(a, key_z(kv)) for a in arrs])
        return val if what == "values" else VTuple([kv, val])
    # the enumeration is visible to specification text (loop invariants): ghost_dict_key(j), ghost_dict_pos(k)
    it.ghost["dict_key"] = VBuiltin("ghost:dict_key", lambda it2, a2, k2, nn: key_at(as_int(it2.need(a2[0]))))
    it.ghost["dict_pos"] = VBuiltin("ghost:dict_pos", lambda it2, a2, k2, nn: VInt(POS(key_z(it2.need(a2[0])))))
    return View(nlen, get)


def _dict_keys(it, a, k, n):
    d = a[0]
    if d.concrete:
        return VList([_unhash(*kk) for kk in d.items])
    raise Unsupported("keys() of symbolic dict")


def _dict_values(it, a, k, n):
    d = a[0]
    if d.concrete:
        return VList(list(d.items.values()))
    raise Unsupported("values() of symbolic dict")


def _dict_copy(it, a, k, n):
    d = a[0]
    return ops.snapshot(d) if not d.concrete else VDict(dict(d.items), keykind=d.keykind)


def _dict_clear(it, a, k, n):
    mutating(it, a[0], 'clear()', n)
    d = a[0]
    if d.concrete:
        d.items.clear()
    else:
        d.present = z3.K(d.keysort, F())
    return NONE


def _dict_update(it, a, k, n):
    mutating(it, a[0], 'update()', n)
    d = a[0]
    if len(a) > 1:
        o = it.need(a[1])
        if isinstance(o, VDict) and o.concrete:
            for kk, v in o.items.items():
                dict_set(it, d, _unhash(*kk), v, n)
        else:
            raise Unsupported("dict.update from symbolic")
    for kk, v in k.items():
        dict_set(it, d, VStr(kk), v, n)
    return NONE


DICT_METHODS = {
    "get": _dict_get, "pop": _dict_pop, "setdefault": _dict_setdefault, "items": _dict_items,
    "keys": _dict_keys, "values": _dict_values, "copy": _dict_copy, "clear": _dict_clear,
    "update": _dict_update,
}


def _set_add(it, a, k, n):
    mutating(it, a[0], 'add()', n)
    s, x = a[0], it.need(a[1])
    if s.items is not None:
        s.items.append(x)
    else:
        s.arr = z3.Store(s.arr, key_z(x), T())
    return NONE


def _set_remove(it, a, k, n):
    mutating(it, a[0], 'remove()', n)
    s, x = a[0], it.need(a[1])
    if s.items is not None:
        raise Unsupported("concrete set remove")
    if not it.branch(z3.Select(s.arr, key_z(x)), "set.remove"):
        it.raise_("KeyError", node=n)
    s.arr = z3.Store(s.arr, key_z(x), F())
    return NONE


def _set_discard(it, a, k, n):
    mutating(it, a[0], 'discard()', n)
    s, x = a[0], it.need(a[1])
    if s.items is not None:
        raise Unsupported("concrete set discard")
    s.arr = z3.Store(s.arr, key_z(x), F())
    return NONE


def _set_clear(it, a, k, n):
    mutating(it, a[0], 'clear()', n)
    s = a[0]
    if s.items is not None:
        s.items.clear()
    else:
        s.arr = z3.K(s.arr.sort().domain(), F())
    return NONE


def _set_copy(it, a, k, n):
    return ops.snapshot(a[0])


def _set_update(it, a, k, n):
    mutating(it, a[0], 'update()', n)
    s, o = a[0], it.need(a[1])
    if s.items is not None or not isinstance(o, VSet) or o.items is not None:
        raise Unsupported("set.update on concrete sets")
    x = z3.Const(it.ctx.fresh_name("sx"), s.arr.sort().domain())
    new = z3.Array(it.ctx.fresh_name("set_union"), s.arr.sort().domain(), BoolS)
    it.ctx.assume(z3.ForAll([x], z3.Select(new, x) == z3.Or(z3.Select(s.arr, x), z3.Select(o.arr, x))), "set.update:union")
    s.arr = new
    return NONE


SET_METHODS = {"update": _set_update, "add": _set_add, "remove": _set_remove, "discard": _set_discard, "clear": _set_clear,
               "copy": _set_copy}


# ==========================================================================
# builtins

def _len(it, a, k, n):
    v = it.need(a[0])
    if isinstance(v, (VStr, VByteArray)):
        return VInt(z3.Length(v.z))
    if isinstance(v, VTuple):
        return VInt(len(v.items))
    if isinstance(v, VList):
        return VInt(ops.list_len(v))
    if isinstance(v, VDict) and v.concrete:
        return VInt(len(v.items))
    if isinstance(v, VSet) and v.items is not None:
        return VInt(len(v.items))
    if isinstance(v, VObj) and "__list__" in v.fields and not (
            isinstance(v.cls, ClassInfo) and isinstance(v.cls.find_method("__len__")[1], list)):
        return VInt(ops.list_len(v.fields["__list__"]))
    if isinstance(v, VObj):
        return _dunder(it, v, "__len__", [], n)
    if isinstance(v, VNone):
        it.raise_("TypeError", node=n)
    raise Unsupported(f"len({v!r})")


def _minmax(is_min):
    def f(it, a, k, n):
        vals = a
        if len(a) == 1:
            vals = it.concrete_items(it.need(a[0]), n)
        vals = [it.need(x) for x in vals]
        if not vals:
            it.raise_("ValueError", node=n)
        res = vals[0]
        for x in vals[1:]:
            if not (is_num(x) and is_num(res)):
                if isinstance(x, (VTuple, VStr)) and type(x) is type(res):
                    # ordered values: whatever `<` / `>` means for them (lexicographic for tuples)
                    c = compare(it, ast.Lt() if is_min else ast.Gt(), x, res, n)
                    res = ite(c, x, res)
                    continue
                raise Unsupported("min/max of non-numbers")
            if isinstance(x, VFloat) or isinstance(res, VFloat):
                c = as_real(x) < as_real(res) if is_min else as_real(x) > as_real(res)
            else:
                c = as_int(x) < as_int(res) if is_min else as_int(x) > as_int(res)
            res = ite(c, x, res)
        return res
    return f


def _isinstance(it, a, k, n):
    v, cls = a[0], a[1]
    return VBool(isinstance_z(it, v, cls))


def isinstance_z(it, v, cls):
    if isinstance(cls, VTuple):
        return z3.Or([isinstance_z(it, v, c) for c in cls.items] + [F()])
    if isinstance(v, VOpt):
        return z3.And(z3.Not(v.isnone), isinstance_z(it, v.val, cls))
    if not isinstance(cls, VClass):
        raise Unsupported(f"isinstance against {cls!r}")
    name = cls.name
    short = name.split(".")[-1]
    if isinstance(v, VObj):
        if isinstance(v.cls, ClassInfo):
            names = []
            for c in v.cls.mro():
                names.append(c.name if isinstance(c, ClassInfo) else str(c).split(".")[-1])
            return z3.BoolVal(short in names or short == "object")
        if isinstance(v.cls, str) and v.model is None:
            return z3.BoolVal(v.cls.split(".")[-1] == short or short == "object")
        tags = getattr(v.model, "isinstance", None) if v.model is not None else None
        if tags is not None:
            return z3.BoolVal(short in tags)
        return z3.BoolVal(short == "object")
    if isinstance(v, VExc):
        from .symex import class_chain
        return z3.BoolVal(short in class_chain(getattr(v, "clsinfo", None) or v.cls))
    table = {
        "int": (VInt, VBool), "bool": (VBool,), "float": (VFloat,), "str": (VStr,), "bytes": (VStr,),
        "tuple": (VTuple,), "list": (VList,), "dict": (VDict,), "set": (VSet,), "bytearray": (VByteArray,),
        "NoneType": (VNone,), "Mapping": (VDict,), "MutableMapping": (VDict,), "Sequence": (VTuple, VList),
        "Iterable": (VTuple, VList, VDict, VSet, VStr), "memoryview": (VByteArray,),
    }
    if short in table:
        ok = isinstance(v, table[short])
        if ok and short in ("str", "bytes"):
            ok = v.kind == short
        if ok and short == "bytearray":
            ok = not v.fixed
        if ok and short == "memoryview":
            ok = v.fixed
        return z3.BoolVal(ok)
    if isinstance(v, VOpaque):
        h = it.reg.overrides.get(f"isinstance:{v.kind}")
        if h is not None:
            return h(it, v, short)
        if it.spec:
            # in contract clauses an opaque value is never one of the structurally modelled records
            return F()
    if short == "object":
        return T()
    if isinstance(v, (VInt, VBool, VFloat, VStr, VTuple, VList, VDict, VSet, VNone, VByteArray)):
        return F()
    raise Unsupported(f"isinstance({v!r}, {name})")


def _hasattr(it, a, k, n):
    obj = it.need(a[0])
    name = concrete_str(a[1].z)
    if isinstance(obj, VObj):
        if name in obj.fields:
            return VBool(True)
        if obj.model is not None and name in obj.model.hasattr:
            return obj.fields[obj.model.hasattr[name]]
        if isinstance(obj.cls, ClassInfo):
            owner, found = obj.cls.find_method(name)
            if found is not None:
                return VBool(True)
            if owner is None:
                return VBool(False)
        if obj.model is not None:
            return VBool(f"model:{obj.model.name}.{name}" in it.reg.contracts)
    if isinstance(obj, VOpaque):
        h = it.reg.overrides.get(f"hasattr:{obj.kind}.{name}")
        if h is not None:
            return h(it, obj)
    if isinstance(obj, (VStr, VList, VDict, VTuple, VByteArray)):
        py = {"str": str, "bytes": bytes, "list": list, "dict": dict, "tuple": tuple, "bytearray": bytearray,
              "memoryview": memoryview}[obj.pytype]
        return VBool(hasattr(py, name))
    if isinstance(obj, VNone):
        return VBool(hasattr(None, name))
    raise Unsupported(f"hasattr({obj!r}, {name!r})")


def _getattr(it, a, k, n):
    obj = a[0]
    name = concrete_str(a[1].z)
    if name is None:
        raise Unsupported("getattr with symbolic name")
    if len(a) > 2:
        h = _hasattr(it, [obj, a[1]], {}, n)
        if it.truth(h):
            return it.getattr(obj, name, n)
        return a[2]
    return it.getattr(obj, name, n)


def _int(it, a, k, n):
    if not a:
        return VInt(0)
    v = it.need(a[0])
    if isinstance(v, VBool):
        return VInt(as_int(v))
    if isinstance(v, VInt):
        return v
    if isinstance(v, VStr):
        from . import strlib
        base = 10
        if len(a) > 1:
            base = concrete_int(as_int(a[1]))
        elif "base" in k:
            base = concrete_int(as_int(k["base"]))
        return strlib.parse_int(it, v, base, n)
    if isinstance(v, VFloat):
        return VInt(z3.If(v.z >= 0, z3.ToInt(v.z), -z3.ToInt(-v.z)))
    if isinstance(v, VNone):
        it.raise_("TypeError", node=n)
    raise Unsupported(f"int({v!r})")


def _str(it, a, k, n):
    if not a:
        return VStr("")
    return to_str(it, a[0], n)


def _bool(it, a, k, n):
    if not a:
        return VBool(False)
    if it.spec:
        return VBool(truthy(a[0]))
    return VBool(it.truth(a[0]))


def _float(it, a, k, n):
    v = it.need(a[0])
    if isinstance(v, VFloat):
        return v
    if is_num(v):
        return VFloat(as_real(v))
    if isinstance(v, VStr):
        from . import strlib
        return strlib.parse_float(it, v, n)
    raise Unsupported(f"float({v!r})")


def _bytes(it, a, k, n):
    if not a:
        return VStr(b"", "bytes")
    v = it.need(a[0])
    if isinstance(v, VByteArray):
        return VStr(v.z, "bytes")
    if isinstance(v, VStr) and v.kind == "bytes":
        return v
    raise Unsupported(f"bytes({v!r})")


def _bytearray(it, a, k, n):
    if not a:
        return VByteArray(z3.StringVal(""))
    v = it.need(a[0])
    if isinstance(v, (VInt, VBool)):
        size = as_int(v)
        cs = concrete_int(size)
        if cs is not None and cs >= 4096:
            # generalisation of large literal sizes: proved for EVERY size >= 1 instead of the
            # literal (sound over-approximation; z3's sequence solver cannot build 64 KiB models)
            size = z3.Int(f"bigsize_{cs}")
            it.ctx.assume(size >= 1, "bytearray(n):large-literal-generalised")
        if not it.branch(size >= 0, "bytearray-size"):
            it.raise_("ValueError", node=n)
        z = z3.String(it.ctx.fresh_name("zeros"))
        # only the length is recorded; that the bytes are zero is deliberately forgotten (weaker
        # assumption, sound): correct code never looks at them
        it.ctx.assume(z3.Length(z) == size, "bytearray(n):len")
        return VByteArray(z)
    if isinstance(v, (VStr, VByteArray)):
        return VByteArray(v.z)
    raise Unsupported(f"bytearray({v!r})")


def _list(it, a, k, n):
    if not a:
        return VList([])
    v = it.need(a[0])
    if isinstance(v, VSet) and v.items is None:
        # list(<symbolic set>): some enumeration of its members (order unspecified) -- every element is a member,
        # and the list is empty only if the set is
        L = fresh_list(it, v.elemkind, "list_of_set")
        i = z3.Int(it.ctx.fresh_name("k_los"))
        it.ctx.assume(z3.ForAll([i], z3.Implies(z3.And(i >= 0, i < L.length), z3.Select(v.arr, z3.Select(L.arrs[0], i)))),
                      "list(set):elements-are-members")
        it.ctx.assume((L.length > 0) == truthy(v), "list(set):empty-iff-empty")
        return L
    if isinstance(v, VList) and not v.concrete:
        return _list_copy(it, [v], {}, n)
    from .loops import iter_view
    view = iter_view(it, v, n)
    cn = concrete_int(view.length)
    if cn is None:
        if view.shape is not None:
            # the remaining elements of a view over a symbolic list, as a new list (named array + defining axiom)
            from .symex import QRANGES
            new = fresh_list(it, view.shape, "list_of_view")
            i = z3.Int(it.ctx.fresh_name("k_lov"))
            QRANGES[i.decl().name()] = (z3.IntVal(0), new.length)
            it.ctx.assume(new.length == view.length, "list(view):length")
            it.ctx.assume(z3.ForAll([i], z3.Implies(z3.And(i >= 0, i < new.length),
                                                    ops.eq(ops.list_get(new, i), view.get(i)))), "list(view):elements")
            if view.consume:
                view.consume(view.length)
            return new
        raise Unsupported("list() of symbolic iterable")
    return VList([view.get(z3.IntVal(i)) for i in range(cn)])


def _tuple(it, a, k, n):
    if not a:
        return VTuple([])
    return VTuple(_list(it, a, k, n).items)


def _dict(it, a, k, n):
    d = VDict({})
    if a:
        o = it.need(a[0])
        if isinstance(o, VNone):
            it.raise_("TypeError", node=n)       # dict(None)
        if isinstance(o, VDict) and o.concrete:
            d.items.update(o.items)
        elif isinstance(o, VDict):
            return ops.snapshot(o)
        else:
            for pair in it.concrete_items(o, n):
                kk, vv = it.unpack(it.need(pair), 2, n)
                d.items[it.hashable(kk)] = vv
    for kk, vv in k.items():
        d.items[("str", kk)] = vv
    return d


def _set(it, a, k, n):
    if not a:
        return VSet(items=[])
    v = it.need(a[0])
    if isinstance(v, VSet):
        return ops.snapshot(v)
    return VSet(items=list(it.concrete_items(v, n)))


def _range(it, a, k, n):
    from .loops import View
    a = [as_int(it.need(x)) for x in a]
    if len(a) == 1:
        lo, hi = z3.IntVal(0), a[0]
    elif len(a) == 2:
        lo, hi = a
    else:
        raise Unsupported("range with step")
    ln = z3.If(hi > lo, hi - lo, z3.IntVal(0))
    o = VObj("range", {})
    o.fields["__view__"] = View(z3.simplify(ln), lambda i: VInt(lo + i))
    return o


def _enumerate(it, a, k, n):
    from .loops import View, iter_view
    view = iter_view(it, it.need(a[0]), n)
    start = as_int(a[1]) if len(a) > 1 else as_int(k["start"]) if "start" in k else z3.IntVal(0)
    o = VObj("enumerate", {})
    o.fields["__view__"] = View(view.length, lambda i: VTuple([VInt(start + i), view.get(i)]), view.consume)
    return o


def _zip(it, a, k, n):
    from .loops import View, iter_view
    views = [iter_view(it, it.need(x), n) for x in a]
    ln = views[0].length
    for v in views[1:]:
        ln = z3.If(v.length < ln, v.length, ln)
    o = VObj("zip", {})
    o.fields["__view__"] = View(z3.simplify(ln), lambda i: VTuple([v.get(i) for v in views]))
    return o


def _reversed(it, a, k, n):
    from .loops import View, iter_view
    view = iter_view(it, it.need(a[0]), n)
    o = VObj("reversed", {})
    o.fields["__view__"] = View(view.length, lambda i: view.get(view.length - 1 - i))
    return o


def _iter(it, a, k, n):
    from .loops import iter_view
    v = it.need(a[0])
    if isinstance(v, VObj) and "__view__" in v.fields and "__pos__" in v.fields:
        return v   # iter(iterator) is the iterator
    if isinstance(v, VObj) and v.model is not None and f"model:{v.model.name}.__next__" in it.reg.contracts:
        return v   # an environment model with __next__ is an iterator: iter() returns the object itself
    o = VObj("iterator", {"__pos__": VInt(0)})
    o.fields["__view__"] = iter_view(it, v, n)
    if isinstance(v, VList):
        # list iterators read the live list (see loops.iterator_view)
        o.fields["__live__"] = v
        o.fields["__snap__"] = ops.snapshot(v)
    return o


def _next(it, a, k, n):
    o = it.need(a[0])
    if isinstance(o, VObj) and "__view__" in o.fields and "__pos__" in o.fields:
        from .loops import iterator_view
        view = iterator_view(it, o, n)
        if it.branch(view.length > 0, "next"):
            x = view.get(z3.IntVal(0))
            view.consume(1)
            return x
        if len(a) > 1:
            return a[1]
        it.raise_("StopIteration", node=n)
    if isinstance(o, VObj):
        return _dunder(it, o, "__next__", [], n)
    raise Unsupported(f"next({o!r})")


def _any_all(is_any):
    def f(it, a, k, n):
        items = it.concrete_items(it.need(a[0]), n)
        if it.spec:
            zs = [truthy(x) for x in items]
            return VBool(z3.Or(zs + [F()]) if is_any else z3.And(zs + [T()]))
        for x in items:
            t = it.truth(x)
            if is_any and t:
                return VBool(True)
            if not is_any and not t:
                return VBool(False)
        return VBool(not is_any)
    return f


_SUM = z3.Function("py_sum", z3.ArraySort(IntS, IntS), IntS, IntS)


def _sum(it, a, k, n):
    v0 = it.need(a[0])
    if isinstance(v0, VList) and not v0.concrete and v0.shape == "int" and len(a) == 1:
        # sum of a symbolic list of ints: an uninterpreted function of (elements, length); only congruence is used
        return VInt(_SUM(v0.arrs[0], v0.length))
    items = it.concrete_items(v0, n)
    tot = a[1] if len(a) > 1 else VInt(0)
    for x in items:
        tot = binop(it, ast.Add(), tot, it.need(x), n)
    return tot


def _abs(it, a, k, n):
    v = it.need(a[0])
    if isinstance(v, VFloat):
        return VFloat(z3.If(v.z < 0, -v.z, v.z))
    x = as_int(v)
    return VInt(z3.If(x < 0, -x, x))


def _callable(it, a, k, n):
    v = it.need(a[0])
    if isinstance(v, (VFunc, VBuiltin, VClass)):
        return VBool(True)
    if isinstance(v, VOpaque):
        h = it.reg.overrides.get(f"callable:{v.kind}")
        if h is not None:
            return h(it, v)
        return VBool(True)
    if isinstance(v, VObj) and isinstance(v.cls, ClassInfo):
        return VBool(v.cls.find_method("__call__")[1] is not None)
    return VBool(False)


def _type(it, a, k, n):
    v = it.need(a[0])
    if isinstance(v, VObj) and isinstance(v.cls, ClassInfo):
        return VClass(v.cls)
    return VClass(v.pytype)


def _chr(it, a, k, n):
    return VStr(z3.StrFromCode(as_int(it.need(a[0]))))


def _ord(it, a, k, n):
    return VInt(z3.StrToCode(it.need(a[0]).z))


def _sorted(it, a, k, n):
    h = it.reg.overrides.get("builtin:sorted")
    if h is not None:
        return h(it, a, k, n)
    raise Unsupported("sorted()")


HEX = z3.Function("py_hex", IntS, StrS)


def _percent_format(interp, fmt, args, node):
    """printf-style formatting with a constant format string and the conversions %s %b %d %x %%"""
    cf = concrete_str(fmt.z)
    if cf is None:
        raise Unsupported("% formatting with a symbolic format string")
    items = list(args.items) if isinstance(args, VTuple) else [args]
    out, i, k = [], 0, 0
    lit = ""
    while i < len(cf):
        ch = cf[i]
        if ch != "%":
            lit += ch
            i += 1
            continue
        if i + 1 >= len(cf):
            raise Unsupported("% formatting: dangling %")
        conv = cf[i + 1]
        i += 2
        if conv == "%":
            lit += "%"
            continue
        if lit:
            out.append(z3.StringVal(lit))
            lit = ""
        if k >= len(items):
            interp.raise_("TypeError", node=node)
        v = interp.need(items[k])
        k += 1
        if conv in ("s", "b"):
            if isinstance(v, VByteArray):
                v = VStr(v.z, "bytes")
            if fmt.kind == "bytes" and not (isinstance(v, VStr) and v.kind == "bytes"):
                interp.raise_("TypeError", node=node)
            out.append(to_str(interp, v, node).z if fmt.kind == "str" else v.z)
        elif conv == "d":
            if not is_num(v):
                interp.raise_("TypeError", node=node)
            out.append(int_to_str(as_int(v)))
        elif conv == "x":
            if not is_num(v):
                interp.raise_("TypeError", node=node)
            n_ = as_int(v)
            digits = HEX(n_)
            interp.ctx.assume(z3.InRe(digits, z3.Plus(z3.Union(z3.Range(z3.StringVal("0"), z3.StringVal("9")),
                                                                z3.Range(z3.StringVal("a"), z3.StringVal("f"))))), "hex():digits")
            if concrete_int(n_) is not None:
                out.append(z3.StringVal("%x" % concrete_int(n_)))
            elif not interp.spec and interp.branch(n_ < 0, "hex-negative"):
                out.append(z3.Concat(z3.StringVal("-"), HEX(-n_)))
            else:
                out.append(digits)
        else:
            raise Unsupported(f"% formatting: conversion %{conv}")
    if lit:
        out.append(z3.StringVal(lit))
    if k != len(items):
        interp.raise_("TypeError", node=node)
    if not out:
        return VStr(z3.StringVal(""), fmt.kind)
    return VStr(z3.Concat(*out) if len(out) > 1 else out[0], fmt.kind)


def _hex(it, a, k, n):
    """hex(n): abstract text with the ground facts that matter: '0x' prefix for n >= 0, at least one digit"""
    v = as_int(it.need(a[0]))
    c = concrete_int(v)
    if c is not None:
        return VStr(hex(c))
    digits = HEX(v)
    # hex(n) == "0x" + digits for n >= 0, digits a non-empty lower-case hexadecimal numeral (ground facts)
    it.ctx.assume(z3.InRe(digits, z3.Plus(z3.Union(z3.Range(z3.StringVal("0"), z3.StringVal("9")),
                                                  z3.Range(z3.StringVal("a"), z3.StringVal("f"))))), "hex():digits")
    if not it.spec and it.branch(v < 0, "hex-negative"):
        return VStr(z3.Concat(z3.StringVal("-0x"), HEX(-v)))
    return VStr(z3.Concat(z3.StringVal("0x"), digits))


def _id(it, a, k, n):
    v = it.need(a[0])
    return VInt(getattr(v, "id", 0))


def _re_in(it, a, k, n):
    """spec helper: re_in(s, pattern) -- s fully matches the (ASCII-mode) pattern"""
    from . import rx
    s_ = a[0].val if isinstance(a[0], VOpt) else a[0]
    pat = concrete_str(a[1].z)
    R, _, _, _ = rx.lang(VRegex(pat, 256, s_.kind == "bytes"))
    return VBool(z3.InRe(s_.z, R))


def _str_to_int(it, a, k, n):
    """spec helper: int(s) for s in -?[0-9]+ (the abstract value function of the trusted int() spec)"""
    from . import strlib
    s_ = a[0].val if isinstance(a[0], VOpt) else a[0]
    return VInt(strlib.INT_VAL(s_.z, z3.IntVal(10)))


def _idna_ok(it, a, k, n):
    """spec helper: str.encode('idna') succeeds"""
    from . import strlib
    return VBool(strlib.ENC_OK(a[0].z, z3.StringVal("idna")))


def _idna(it, a, k, n):
    """spec helper: s.encode('idna').decode('ascii') (abstract, ASCII-valued)"""
    from . import strlib
    return VStr(strlib.ENC(a[0].z, z3.StringVal("idna:strict")), "str")


def _ncalls(it, a, k, n):
    """spec helper: number of calls of opaque callables (callbacks) made so far on this path"""
    return VInt(len(it.ghost.get("calls", [])))


def _notified_final(it, a, k, n):
    """spec helper: the last callback call received `obj` in its FINAL state (every modelled field of the
    snapshot taken at the call equals the field now): notification happens after the mutation"""
    obj = a[0]
    calls = it.ghost.get("calls", [])
    if not calls:
        return VBool(False)
    snap = calls[-1][1][0] if calls[-1][1] else None
    if not isinstance(snap, VObj) or not isinstance(obj, VObj) or snap.id != obj.id:
        return VBool(False)
    zs = []
    for f, v in obj.fields.items():
        if f.startswith("__") or f not in snap.fields:
            continue
        try:
            zs.append(eq(snap.fields[f], v))
        except Unsupported:
            if isinstance(v, VDict):
                continue
            raise
    return VBool(z3.And(zs + [T()]))


def _ghost_shift_down(it, a, k, n):
    """ghost: positions greater than idx move down by one (after deleting list element idx)"""
    d, idx = a[0], as_int(it.need(a[1]))
    x = z3.Const(it.ctx.fresh_name("gx"), d.keysort)
    new = z3.Array(it.ctx.fresh_name("gshift"), d.keysort, IntS)
    old = d.arrs[0]
    it.ctx.assume(z3.ForAll([x], z3.Select(new, x) == z3.If(z3.Select(old, x) > idx, z3.Select(old, x) - 1, z3.Select(old, x))),
                  "ghost:shift-down")
    d.arrs = [new]
    return NONE


def _int_max_digits(it, a, k, n):
    from . import strlib
    return VInt(strlib.MAX_DIGITS)


_BUILTINS = {
    "re_in": _re_in, "str_to_int": _str_to_int, "int_max_digits": _int_max_digits, "idna_ok": _idna_ok, "idna": _idna,
    "ncalls": _ncalls, "notified_final": _notified_final, "ghost_shift_down": _ghost_shift_down,
    "len": _len, "min": _minmax(True), "max": _minmax(False), "isinstance": _isinstance,
    "hasattr": _hasattr, "getattr": _getattr, "int": _int, "str": _str, "bool": _bool, "float": _float,
    "bytes": _bytes, "bytearray": _bytearray, "list": _list, "tuple": _tuple, "dict": _dict, "set": _set,
    "range": _range, "enumerate": _enumerate, "zip": _zip, "reversed": _reversed, "iter": _iter,
    "next": _next, "any": _any_all(True), "all": _any_all(False), "sum": _sum, "abs": _abs,
    "callable": _callable, "type": _type, "hex": _hex, "chr": _chr, "ord": _ord, "sorted": _sorted, "id": _id,
    "frozenset": _set,
}

_TYPE_NAMES = {"int", "str", "bool", "float", "bytes", "bytearray", "list", "tuple", "dict", "set",
               "object", "memoryview", "frozenset", "type"}


def builtin(interp, name):
    if name in _BUILTINS:
        b = B(name, _BUILTINS[name])
        if name in _TYPE_NAMES:
            # usable both as constructor and as class in isinstance
            return _TypeCallable(name, _BUILTINS[name])
        return b
    if name in _TYPE_NAMES:
        return VClass(name)
    py = getattr(_pybuiltins, name, None)
    if isinstance(py, type) and issubclass(py, BaseException):
        return VClass(name)
    if name == "NotImplemented":
        return VOpaque(z3.Const("NotImplemented", opaque_sort("singleton")), "singleton")
    if name == "__debug__":
        return VBool(True)
    return None


class _TypeCallable(VClass):
    """builtin type: a class (for isinstance) that is also callable"""

    def __init__(self, name, impl):
        super().__init__(name)
        self.impl = impl


CTORS = {}


def _bytesio(it, a, k, n):
    init = it.need(a[0]) if a else VStr(b"", "bytes")
    return VObj("BytesIO", {"initial": init, "pos": VInt(0)})


CTORS["BytesIO"] = _bytesio


def _install_type_ctors():
    for nm in _TYPE_NAMES:
        if nm in _BUILTINS:
            CTORS[nm] = _BUILTINS[nm]


_install_type_ctors()


# ==========================================================================
# external (stdlib) modules

def external(interp, modname, name):
    key = f"{modname}.{name}"
    h = interp.reg.overrides.get("ext:" + key)
    if h is not None:
        return h(interp) if not isinstance(h, V) else h
    from . import stdspec
    v = stdspec.lookup(interp, modname, name)
    if v is not None:
        return v
    # unknown external attribute: a module or class reference kept by name
    if name[:1].isupper():
        return VClass(key)
    return VModule(key, None)
