"""Creation of fresh symbolic values from shapes."""
from __future__ import annotations

import z3

from .values import (
    NONE, VBool, VByteArray, VDict, VFloat, VInt, VList, VObj, VOpaque, VOpt, VSet, VStr,
    VTuple, ObjModel, parse_shape, leaf_sorts, opaque_sort, IntS, BoolS, StrS,
)
from .extract import find_target, ModuleInfo


def keysort(kind):
    return {"str": StrS, "bytes": StrS, "int": IntS}[kind]


def fresh_value(interp, shape, name):
    ctx = interp.ctx
    if isinstance(shape, (ObjModel, dict)):
        shape = parse_shape(shape, interp.reg.models)
    if isinstance(shape, str) and shape not in ("int", "bool", "float", "str", "bytes", "none"):
        shape = parse_shape(shape, interp.reg.models)
    if shape == "int":
        return VInt(z3.Int(name))
    if shape == "bool":
        return VBool(z3.Bool(name))
    if shape == "float":
        return VFloat(z3.Real(name))
    if shape == "str":
        return VStr(z3.String(name), "str")
    if shape == "bytes":
        return VStr(z3.String(name), "bytes")
    if shape == "none":
        return NONE
    k = shape[0]
    if k == "opt":
        return VOpt(z3.Bool(name + ".isnone"), fresh_value(interp, shape[1], name + ".val"))
    if k == "tuple":
        return VTuple([fresh_value(interp, s, f"{name}.{i}") for i, s in enumerate(shape[1])])
    if k == "list":
        sorts = leaf_sorts(shape[1])
        arrs = [z3.Array(f"{name}.a{i}", IntS, s) for i, s in enumerate(sorts)]
        ln = z3.Int(name + ".len")
        ctx.assume(ln >= 0, "type:list-length>=0")
        return VList(None, shape=shape[1], arrs=arrs, length=ln)
    if k == "bytearray":
        return VByteArray(z3.String(name), fixed=False)
    if k == "memoryview":
        return VByteArray(z3.String(name), fixed=True)
    if k == "opaque":
        return VOpaque(z3.Const(name, opaque_sort(shape[1])), shape[1])
    if k == "set":
        return VSet(z3.Array(name, keysort(shape[1]), BoolS), shape[1])
    if k == "dict":
        ks = keysort(shape[1])
        sorts = leaf_sorts(shape[2])
        d = VDict(None, keysort=ks, shape=shape[2], present=z3.Array(name + ".in", ks, BoolS),
                  arrs=[z3.Array(f"{name}.v{i}", ks, s) for i, s in enumerate(sorts)], keykind=shape[1])
        return d
    if k == "dictrec":
        d = VDict({})
        for key, sh in shape[1].items():
            d.items[("str", key)] = fresh_value(interp, sh, f"{name}[{key}]")
        return d
    if k == "obj":
        model = shape[1]
        cls = model.name
        if model.cls:
            relpath, cname = model.cls.split(":")
            cls = ModuleInfo.get(relpath).classes[cname]
        obj = VObj(cls, {}, model)
        for fname, fshape in model.fields.items():
            obj.fields[fname] = fresh_value(interp, fshape, f"{name}.{fname}")
        return obj
    raise ValueError(f"fresh: unknown shape {shape!r}")


def fresh_like(interp, v, name):
    """fresh value of the same shape as v (used to havoc)"""
    from .ops import shape_of
    if isinstance(v, VObj):
        raise ValueError("cannot havoc whole object; havoc its fields")
    if isinstance(v, VList) and v.concrete:
        raise ValueError("cannot havoc a list with concrete spine; declare it symbolic")
    return fresh_value(interp, shape_of(v), interp.ctx.fresh_name(name))
