"""Modular call: replace a call by the callee's contract."""
from __future__ import annotations

import ast
import z3

from .ops import truthy, snapshot, T, Unsupported
from .values import NONE, VBuiltin, VByteArray, VClass, VDict, VExc, VFunc, VList, VModule, VObj, VOpt, VRegex, VSet
from .symex import Env, PyRaise


def havoc_lvalue(interp, expr_src, env, tag="havoc", self_model=None):
    """forget everything about an lvalue given as source text ('self._pos', 'b')"""
    from .fresh import fresh_like
    from .values import VNone
    node = ast.parse(expr_src, mode="eval").body if isinstance(expr_src, str) else expr_src
    spec = interp.sub(True)
    if isinstance(node, ast.Name):
        cur = env.lookup(node.id)
        if _havoc_inplace(interp, cur, tag):
            return
        if isinstance(cur, VNone):
            # "a fresh value shaped like None" would be None again: the havoc would silently assume the value stays None
            raise Unsupported(f"havoc of {expr_src}: current value is None and no shape is declared")
        env.assign(node.id, fresh_like(interp, cur, f"{tag}_{node.id}"))
        return
    if isinstance(node, ast.Attribute):
        obj = spec.eval(node.value, env)
        if isinstance(obj, VOpt):
            obj = obj.val
        if not isinstance(obj, VObj):
            raise Unsupported(f"havoc of attribute on {obj!r}")
        cur = obj.fields.get(node.attr)
        if cur is None:
            raise Unsupported(f"havoc: {expr_src} has no current value")
        if isinstance(cur, VNone):
            # None carries no shape: take the declared one (the object's model, else the callee's model of `self`)
            from .values import parse_shape
            decl = None
            if obj.model is not None and node.attr in obj.model.fields:
                decl = obj.model.fields[node.attr]
            elif self_model is not None and isinstance(node.value, ast.Name) and node.value.id == "self" \
                    and node.attr in self_model.fields:
                decl = self_model.fields[node.attr]
            if decl is None:
                raise Unsupported(f"havoc of {expr_src}: current value is None and no shape is declared")
            obj.fields[node.attr] = interp.fresh(parse_shape(decl, interp.reg.models) if isinstance(decl, str) else decl,
                                                 f"{tag}_{node.attr}")
            return
        concrete_container = (isinstance(cur, (VList, VDict)) and cur.concrete) or (isinstance(cur, VSet) and cur.arr is None)
        if concrete_container and obj.model is not None and node.attr in obj.model.fields:
            # a literal container ([] / set() / {}) about to be changed in a loop: from here on it is a symbolic value
            # of the shape the model declares for the field
            from .values import parse_shape
            sh = obj.model.fields[node.attr]
            obj.fields[node.attr] = interp.fresh(parse_shape(sh, interp.reg.models) if isinstance(sh, str) else sh,
                                                 f"{tag}_{node.attr}")
            return
        if _havoc_inplace(interp, cur, tag):
            return
        obj.fields[node.attr] = fresh_like(interp, cur, f"{tag}_{node.attr}")
        return
    raise Unsupported(f"havoc target {expr_src!r}")


def _havoc_inplace(interp, cur, tag):
    from .values import shape_of
    from .fresh import fresh_value
    if isinstance(cur, VByteArray):
        cur.z = z3.String(interp.ctx.fresh_name(tag + "_bytes"))
        return True
    if isinstance(cur, VList):
        if cur.concrete:
            raise Unsupported("havoc of a list with concrete spine")
        f = fresh_value(interp, ("list", cur.shape), interp.ctx.fresh_name(tag + "_list"))
        cur.arrs, cur.length = f.arrs, f.length
        return True
    if isinstance(cur, VSet):
        if cur.arr is None:
            raise Unsupported("havoc of a concrete set")
        f = fresh_value(interp, ("set", cur.elemkind), interp.ctx.fresh_name(tag + "_set"))
        cur.arr = f.arr
        return True
    if isinstance(cur, VDict):
        if cur.concrete:
            raise Unsupported("havoc of a concrete dict")
        f = fresh_value(interp, ("dict", cur.keykind, cur.shape), interp.ctx.fresh_name(tag + "_dict"))
        cur.present, cur.arrs = f.present, f.arrs
        return True
    if isinstance(cur, VObj):
        raise Unsupported("havoc of whole object; list its fields in modifies")
    return False


def reachable_lvalues(vals, skip=()):
    """lvalue paths ('self.buffer', 'b', 'self._stream.pos') of every mutable piece of state reachable from the
    named values through object fields"""
    out = []
    seen = set()

    def walk(path, v):
        if isinstance(v, VOpt):
            v = v.val
        if isinstance(v, VObj):
            if id(v) in seen:
                return
            seen.add(id(v))
            for f, x in v.fields.items():
                if not f.startswith("__"):
                    walk(f"{path}.{f}", x)
            return
        out.append((path, v))
    for nm, v in vals.items():
        if nm in skip or nm.startswith("__"):
            continue
        if isinstance(v, VOpt):
            v = v.val
        if isinstance(v, VObj):
            walk(nm, v)
        elif isinstance(v, (VList, VDict, VSet, VByteArray)):
            out.append((nm, v))
    return out


def havoc_reachable(interp, vals, env):
    for path, v in reachable_lvalues(vals):
        if isinstance(v, (VFunc, VBuiltin, VClass, VRegex, VModule)):
            continue   # code objects: not state
        havoc_lvalue(interp, path, env, tag="m")


def _returns_value(fn):
    from .symex import _walk_own
    for n in _walk_own(fn):
        if isinstance(n, ast.Return) and n.value is not None and not (isinstance(n.value, ast.Constant) and n.value.value is None):
            return True
    return False


def apply_contract(interp, c, fv, args, kwargs, node):
    ctx = interp.ctx
    if interp.spec:
        raise Unsupported(f"call of contracted function {c.key} inside a spec clause")
    if fv is not None:
        vars_ = interp.bind_params(fv, args, dict(kwargs), node)
    else:
        names = c.param_names or (["self"] + list(c.params))
        vars_ = {}
        args = list(args)
        for i, nm in enumerate(names):
            if i < len(args):
                vars_[nm] = args[i]
            elif nm in kwargs:
                vars_[nm] = kwargs[nm]
            elif nm in c.defaults:
                vars_[nm] = interp.sub(True).eval(c.defaults[nm], Env(None, {}))
            else:
                raise Unsupported(f"{c.key}: missing argument {nm}")
    from .values import VOpt, parse_shape
    for nm, sh in c.params.items():
        v = vars_.get(nm)
        if isinstance(v, VOpt):
            try:
                psh = parse_shape(sh, interp.reg.models)
            except ValueError:
                continue
            if not (isinstance(psh, tuple) and psh and psh[0] == "opt"):
                vars_[nm] = interp.need(v)
    # ghost parameters of the callee: the instance the caller names for this call site, else an arbitrary value
    # (named by the contract of the function under verification; it also covers call sites in callees it inlines)
    caller = interp.reg.contracts.get(interp.current_target) if interp.current_target else None
    binds = (caller.call_ghost.get(c.key, {}) if caller is not None else {})
    for g, sh in c.ghost_params.items():
        if g in binds and getattr(interp, "_call_env", None) is not None:
            vars_[g] = interp.sub(True).eval(binds[g], Env(interp._call_env, dict(getattr(interp, "ghost_args", {}))))
        else:
            vars_[g] = interp.fresh(sh, "ghostarg." + g)
    env = Env(None, dict(vars_))
    spec = interp.sub(True)
    old = {k: snapshot(v) for k, v in vars_.items()}
    spec.old_env = old
    for k, r in enumerate(c.requires):
        ctx.oblige("call-pre", f"{c.key}/requires[{k}]", truthy(spec.eval(r, env)),
                   {"clause": c.requires_src[k], "callee": c.key})
    outcomes = ["return"] + list(c.raises)
    # which outcome happens is the callee's choice; the condition attached to a raise is a
    # two-state predicate (old() = state before the call) assumed after the callee's effects
    d = ctx.choose([T()] * len(outcomes), what=f"call:{c.key}")
    if c.modifies_declared or c.trusted or c.key.startswith("model:"):
        for lv in (c.modifies if d == 0 else c.raise_modifies):
            havoc_lvalue(interp, lv, env, tag="m", self_model=c.self_model)
    else:
        # a verified contract without a declared frame: the callee may have changed anything it can reach
        import os as _os
        if _os.environ.get("PYVC_LOG_UNDECLARED"):
            print(f"UNDECLARED-FRAME callee={c.key} caller={interp.current_target}", flush=True)
        havoc_reachable(interp, vars_, env)
    # bind_params / names may have been rebound by havoc of plain names: not visible to caller (python semantics)
    if d == 0:
        result = NONE
        if c.returns is None and c.returns_expr is None and fv is not None and _returns_value(fv.node):
            # (guard against a silent vacuity: the call would evaluate to None on every path)
            raise Unsupported(f"{c.key}: used at a call site, but its contract declares no `returns` shape "
                              f"although the function returns a value")
        if c.returns_expr is not None:
            result = spec.eval(c.returns_expr, env)
        elif c.returns and c.returns != "none":
            result = interp.fresh(c.returns, "ret_" + c.key.split(":")[-1].split(".")[-1])
        env.vars["result"] = result
        for k, e in enumerate(c.ensures):
            ctx.assume(truthy(spec.eval(e, env)), f"callee-ensures:{c.key}[{k}]")
        return result
    cls = outcomes[d]
    exc = VExc(cls, [])
    for fname, fshape in c.raises_fields.get(cls, {}).items():
        exc.fields[fname] = interp.fresh(fshape, f"exc_{cls}_{fname}")
    env.vars["exc"] = exc
    ctx.assume(truthy(spec.eval(c.raises[cls], env)), f"callee-raises-cond:{c.key}[{cls}]")
    for e in c.raises_ensures.get(cls, []):
        ctx.assume(truthy(spec.eval(e, env)), f"callee-raises-ensures:{c.key}")
    if not ctx.replaying and not ctx._feasible(z3.BoolVal(True)):
        from .paths import PathEnd
        raise PathEnd()
    exc.clsinfo = None
    exc.info["from_contract"] = c.key
    raise PyRaise(exc, getattr(node, "lineno", 0))
