"""pyvc symbolic executor: walks the real AST of a function path by path.

Program mode (spec=False): control flow forks through PathCtx.branch, Python
exceptions of the analysed program are PyRaise signals, loops are cut by the
sidecar invariants, calls go through callee contracts (or are inlined from the
callee's own real source).

Spec mode (spec=True): used for contract clauses; side-effect free, total,
never forks: and/or/not/if-else/comparisons build one z3 formula.
"""
from __future__ import annotations

import ast
import builtins as _pybuiltins

import z3

from . import ops
from .ops import Unsupported, truthy, eq, ite, as_int, as_real, is_num, concrete_int, T, F
from .values import (
    NONE, V, VBool, VByteArray, VDict, VExc, VFloat, VInt, VList, VNone, VObj, VOpaque,
    VOpt, VSet, VStr, VTuple, VClass, VFunc, VBuiltin, VModule, VRegex, VGhostLog,
    ObjModel, parse_shape, leaf_sorts, flatten, unflatten, shape_of, opaque_sort,
    IntS, BoolS, RealS, StrS,
)
from .extract import ModuleInfo, ClassInfo, ExtractError
from .paths import PathEnd


# bound-variable name -> (lo, hi) of every range quantifier built from contract text (used by the
# bounded refuter to expand quantifiers on small ranges)
QRANGES = {}


class ReturnSig(Exception):
    def __init__(self, value):
        self.value = value


class BreakSig(Exception):
    pass


class ContinueSig(Exception):
    pass


class PyRaise(Exception):
    """an exception of the analysed program"""

    def __init__(self, exc, line=0):
        self.exc = exc
        self.line = line


# --------------------------------------------------------------------------
# exception class lattice

_EXTRA_EXC = {
    "binascii.Error": ["binascii.Error", "ValueError", "Exception", "BaseException"],
    "json.JSONDecodeError": ["json.JSONDecodeError", "ValueError", "Exception", "BaseException"],
    "socket.timeout": ["TimeoutError", "OSError", "Exception", "BaseException"],
    "re.error": ["re.error", "Exception", "BaseException"],
    "zlib.error": ["zlib.error", "Exception", "BaseException"],
}


def class_chain(c):
    """names of all classes in the MRO of an exception class (ClassInfo or name)"""
    if isinstance(c, ClassInfo):
        out = []
        for k in c.mro():
            if isinstance(k, ClassInfo):
                out.append(k.name)
            else:
                out += class_chain(k)
        return out
    name = c.split(".")[-1] if c.startswith("builtins.") else c
    if name in _EXTRA_EXC:
        return list(_EXTRA_EXC[name])
    py = getattr(_pybuiltins, name, None)
    if isinstance(py, type):
        return [k.__name__ for k in py.__mro__ if k is not object]
    # an exception named by a contract (raises={"BadRequestKeyError": ...}): the repository's own hierarchy
    try:
        from .extract import ModuleInfo
        k = ModuleInfo.get("werkzeug/exceptions.py").classes.get(name.split(".")[-1])
        if isinstance(k, ClassInfo):
            return class_chain(k)
    except Exception:  # noqa: BLE001
        pass
    return [name]


def is_exception_class(c):
    ch = class_chain(c)
    return "BaseException" in ch


# --------------------------------------------------------------------------

class Env:
    def __init__(self, parent=None, vars=None):
        self.vars = vars if vars is not None else {}
        self.parent = parent
        self.nonlocals = set()
        self.globals_ = set()

    def lookup(self, name):
        e = self
        while e is not None:
            if name in e.vars:
                return e.vars[name]
            e = e.parent
        raise KeyError(name)

    def has(self, name):
        e = self
        while e is not None:
            if name in e.vars:
                return True
            e = e.parent
        return False

    def assign(self, name, v):
        if name in self.nonlocals:
            e = self.parent
            while e is not None:
                if name in e.vars:
                    e.vars[name] = v
                    return
                e = e.parent
            raise Unsupported(f"nonlocal {name} not bound")
        self.vars[name] = v

    def delete(self, name):
        self.vars.pop(name, None)


UNBOUND = object()


class Interp:
    def __init__(self, ctx, registry, spec=False, current_target=None):
        self.ctx = ctx
        self.reg = registry
        self.spec = spec
        self.current_target = current_target
        self.depth = 0
        self.module_cache = {}
        self.old_env = None
        self.loop_ordinals = {}
        self.ghost = {}
        self.frame_fn = []

    # ------------------------------------------------------------------ utils
    def sub(self, spec):
        """an interpreter sharing path context, in the given mode"""
        it = Interp(self.ctx, self.reg, spec=spec, current_target=self.current_target)
        it.old_env = self.old_env
        it.ghost = self.ghost
        it.module_cache = self.module_cache
        it.loop_ordinals = self.loop_ordinals
        it._target_mod = getattr(self, "_target_mod", None)
        return it

    def fresh(self, shape, name):
        from .fresh import fresh_value
        return fresh_value(self, shape, self.ctx.fresh_name(name))

    def raise_(self, cls, *args, node=None, clsinfo=None):
        e = VExc(cls, args)
        e.clsinfo = clsinfo
        raise PyRaise(e, getattr(node, "lineno", self.ctx.cur_line))

    def branch(self, cond, what="if"):
        if self.spec:
            raise Unsupported("branch in spec mode")
        return self.ctx.branch(cond, what)

    def need(self, v):
        """strip Optional: forks (program mode) on None-ness"""
        if isinstance(v, VOpt):
            if self.spec:
                return v.val
            if self.branch(v.isnone, "isnone"):
                return NONE
            return v.val
        return v

    def truth(self, v):
        """python truthiness as a python bool (forks in program mode)"""
        if isinstance(v, VOpt) and isinstance(v.val, VObj):
            v = self.need(v)
        if isinstance(v, VObj) and "__list__" in v.fields and isinstance(v.cls, ClassInfo) \
                and not isinstance(v.cls.find_method("__bool__")[1], list) \
                and not isinstance(v.cls.find_method("__len__")[1], list):
            return self.branch(truthy(v.fields["__list__"]), "truth")
        if isinstance(v, VObj) and isinstance(v.cls, ClassInfo):
            for dunder in ("__bool__", "__len__"):
                owner, found = v.cls.find_method(dunder)
                if isinstance(found, list):
                    f = VFunc(found[-1], owner.module, None, f"{owner.name}.{dunder}", owner)
                    r = self.call(f.bind(v), [], {}, None)
                    return self.branch(truthy(r), "truth")
                if owner is not None and not isinstance(owner, ClassInfo) and found is None:
                    break
        if isinstance(v, VObj) and v.model is not None and not isinstance(v.cls, ClassInfo):
            # environment model: truthiness through its trusted __bool__ / __len__ if it declares one
            for dunder in ("__bool__", "__len__"):
                k = f"model:{v.model.name}.{dunder}"
                if k in self.reg.contracts:
                    from .callspec import apply_contract
                    r = apply_contract(self, self.reg.contracts[k], None, [v], {}, None)
                    return self.branch(truthy(r), "truth")
        return self.branch(truthy(v), "truth")

    # ------------------------------------------------------------- name lookup
    def module_value(self, mod: ModuleInfo, name):
        """value of a module-level name of a repository module"""
        key = (mod.relpath, name)
        if key in self.module_cache:
            return self.module_cache[key]
        ov = self.reg.overrides.get(f"{mod.relpath}:{name}")
        if ov is not None:
            v = ov(self) if callable(ov) else ov
            self.module_cache[key] = v
            return v
        if name in mod.functions:
            v = VFunc(mod.functions[name], mod, None, name)
        elif name in mod.classes:
            v = VClass(mod.classes[name])
        elif name in mod.assigns:
            sub = Interp(self.ctx, self.reg, spec=self.spec)
            sub.module_cache = self.module_cache
            v = sub.eval(mod.assigns[name], Env(vars={"__module__": mod}))
        elif name in mod.imports:
            imp = mod.imports[name]
            if imp[0] == "module":
                mi = ModuleInfo.by_dotted(imp[1])
                v = VModule(imp[1], mi)
            else:
                _, base, nm = imp
                mi = ModuleInfo.by_dotted(base)
                sub_mi = ModuleInfo.by_dotted(f"{base}.{nm}")
                if sub_mi is not None:
                    v = VModule(f"{base}.{nm}", sub_mi)
                elif mi is not None:
                    v = self.module_value(mi, nm)
                else:
                    v = self.external_attr(base, nm)
        else:
            raise KeyError(name)
        self.module_cache[key] = v
        return v

    def external_attr(self, modname, name):
        from . import lib
        return lib.external(self, modname, name)

    def lookup(self, name, env, node=None):
        try:
            return env.lookup(name)
        except KeyError:
            pass
        mod = None
        try:
            mod = env.lookup("__module__")
        except KeyError:
            pass
        if mod is not None:
            try:
                return self.module_value(mod, name)
            except KeyError:
                pass
        if name in self.reg.spec_names:
            return self.reg.spec_names[name]
        if self.spec and name.startswith("ghost_") and name[6:] in self.ghost and not name[6:].startswith("__"):
            # ghost functions / witnesses of the run (filter-comprehension indices, dict enumeration): visible to every
            # piece of specification text, loop invariants included
            return self.ghost[name[6:]]
        tm = getattr(self, "_target_mod", None)
        if mod is None and tm is not None:
            try:
                return self.module_value(tm, name)
            except KeyError:
                pass
        from . import lib
        b = lib.builtin(self, name)
        if b is not None:
            return b
        raise Unsupported(f"unresolved name {name!r} (line {getattr(node, 'lineno', '?')})")

    def frame_contract(self, key):
        """contract that annotates the function whose body is being executed: the one under verification
        (which may be a second contract 'path:qual#tag') for the target itself, the plain one otherwise"""
        if self.current_target and key == self.current_target.split("#")[0]:
            return self.reg.contracts.get(self.current_target)
        return self.reg.contracts.get(key)

    # ---------------------------------------------------------------- statements
    def exec_block(self, stmts, env):
        for st in stmts:
            self.exec_stmt(st, env)

    def exec_stmt(self, st, env):
        self.ctx.cur_line = getattr(st, "lineno", self.ctx.cur_line)
        m = getattr(self, "st_" + type(st).__name__, None)
        if m is None:
            raise Unsupported(f"statement {type(st).__name__} (line {st.lineno})")
        m(st, env)
        if self.frame_fn and not self.spec:
            c = self.frame_contract(self.frame_fn[-1][0])
            if c is not None and (c.ghost_after or c.ghost_prefix) and isinstance(st, (ast.Expr, ast.Assign, ast.AugAssign, ast.Delete)):
                txt = ast.unparse(st)
                g = c.ghost_after.get(txt)
                if g is None:
                    # a key ending in "..." matches every statement that starts with it (robust against edits of
                    # the right-hand side: the ghost lemmas are then proved -- or refuted -- about the new code)
                    for k2, v2 in c.ghost_prefix.items():
                        if txt.startswith(k2):
                            g = v2
                            break
                if g:
                    for gi, gs in enumerate(g):
                        if isinstance(gs, ast.Assert):
                            # ghost assertion: an intermediate lemma -- proved here, then available to the solver
                            z = truthy(self.sub(True).eval(gs.test, env))
                            self.ctx.oblige("ghost-assert", f"{c.key}/ghost-assert@{getattr(st, 'lineno', 0)}[{gi}]", z,
                                            {"clause": ast.unparse(gs.test)})
                            self.ctx.assume(z, f"ghost-assert:{c.key}")
                        else:
                            self.exec_stmt(gs, env)
                            if isinstance(gs, ast.Assign) and len(gs.targets) == 1 and isinstance(gs.targets[0], ast.Name) \
                                    and gs.targets[0].id.startswith("ghost_"):
                                # ghost variable: visible to the postconditions under the same name
                                self.ghost[gs.targets[0].id[6:]] = env.lookup(gs.targets[0].id)

    def st_Expr(self, st, env):
        if isinstance(st.value, ast.Constant):
            return  # docstring / bare constant
        self.eval(st.value, env)

    def st_Pass(self, st, env):
        pass

    def st_Return(self, st, env):
        raise ReturnSig(self.eval(st.value, env) if st.value is not None else NONE)

    def st_Break(self, st, env):
        raise BreakSig()

    def st_Continue(self, st, env):
        raise ContinueSig()

    def st_Nonlocal(self, st, env):
        env.nonlocals.update(st.names)

    def st_Global(self, st, env):
        env.globals_.update(st.names)

    def st_Assign(self, st, env):
        v = self.eval(st.value, env)
        for tg in st.targets:
            self.assign(tg, v, env)

    def st_AnnAssign(self, st, env):
        if st.value is not None:
            self.assign(st.target, self.eval(st.value, env), env)

    def st_AugAssign(self, st, env):
        tg = st.target
        if isinstance(tg, ast.Name):
            cur = self.lookup(tg.id, env, tg)
            cur_n = self.need(cur)
            rhs = self.need(self.eval(st.value, env))
            if isinstance(cur_n, (VList, VByteArray)) and isinstance(st.op, ast.Add):
                self.call_method(cur_n, "extend", [rhs], {}, st)
                return
            env.assign(tg.id, self.binop(st.op, cur_n, rhs, st))
        elif isinstance(tg, ast.Attribute):
            obj = self.eval(tg.value, env)
            cur = self.getattr(obj, tg.attr, tg)
            rhs = self.need(self.eval(st.value, env))
            self.setattr(obj, tg.attr, self.binop(st.op, self.need(cur), rhs, st), tg)
        elif isinstance(tg, ast.Subscript):
            obj = self.eval(tg.value, env)
            idx = self.eval_index(tg.slice, env)
            cur = self.getitem(obj, idx, tg)
            rhs = self.need(self.eval(st.value, env))
            self.setitem(obj, idx, self.binop(st.op, self.need(cur), rhs, st), tg)
        else:
            raise Unsupported("augmented assignment target")

    def st_Delete(self, st, env):
        for tg in st.targets:
            if isinstance(tg, ast.Name):
                env.delete(tg.id)
            elif isinstance(tg, ast.Subscript):
                obj = self.eval(tg.value, env)
                idx = self.eval_index(tg.slice, env)
                self.delitem(obj, idx, tg)
            elif isinstance(tg, ast.Attribute):
                obj = self.eval(tg.value, env)
                self.delattr(obj, tg.attr, tg)
            else:
                raise Unsupported("del target")

    def st_If(self, st, env):
        c = self.eval(st.test, env)
        if self.truth(c):
            self.exec_block(st.body, env)
        else:
            self.exec_block(st.orelse, env)

    def st_Assert(self, st, env):
        c = self.eval(st.test, env)
        if not self.truth(c):
            self.raise_("AssertionError", node=st)

    def st_Raise(self, st, env):
        if st.exc is None:
            cur = env.lookup("__exc__") if env.has("__exc__") else None
            if cur is None:
                raise Unsupported("bare raise outside handler")
            raise PyRaise(cur, st.lineno)
        v = self.eval(st.exc, env)
        if isinstance(v, VClass):
            v = self.call(v, [], {}, st)
        if not isinstance(v, VExc):
            raise Unsupported(f"raise of non-exception {v!r} (line {st.lineno})")
        if st.cause is not None:
            c = self.eval(st.cause, env)
            v.fields["__cause__"] = c
        raise PyRaise(v, st.lineno)

    def st_FunctionDef(self, st, env):
        f = VFunc(st, env.lookup("__module__"), env, st.name)
        parent_q = env.lookup("__qualname__") if env.has("__qualname__") else None
        if parent_q:
            f.qualname = f"{parent_q}.{st.name}"
        env.assign(st.name, f)

    def st_Import(self, st, env):
        for a in st.names:
            nm = a.asname or a.name.split(".")[0]
            env.assign(nm, VModule(a.name if a.asname else a.name.split(".")[0], ModuleInfo.by_dotted(a.name)))

    def st_ImportFrom(self, st, env):
        mod = env.lookup("__module__")
        base = mod._resolve_from(st)
        for a in st.names:
            mi = ModuleInfo.by_dotted(base)
            sub_mi = ModuleInfo.by_dotted(f"{base}.{a.name}")
            if sub_mi is not None:
                v = VModule(f"{base}.{a.name}", sub_mi)
            elif mi is not None:
                v = self.module_value(mi, a.name)
            else:
                v = self.external_attr(base, a.name)
            env.assign(a.asname or a.name, v)

    def st_Try(self, st, env):
        try:
            try:
                self.exec_block(st.body, env)
            except PyRaise as pr:
                handled = False
                for h in st.handlers:
                    if h.type is None or self.exc_matches(pr.exc, self.eval(h.type, env)):
                        handled = True
                        if h.name:
                            env.assign(h.name, pr.exc)
                        saved = env.vars.get("__exc__", UNBOUND)
                        env.vars["__exc__"] = pr.exc
                        try:
                            self.exec_block(h.body, env)
                        finally:
                            if saved is UNBOUND:
                                env.vars.pop("__exc__", None)
                            else:
                                env.vars["__exc__"] = saved
                        break
                if not handled:
                    raise
            else:
                self.exec_block(st.orelse, env)
        finally:
            if st.finalbody:
                # NB: python semantics: a signal raised in finally replaces the pending one
                self.exec_block(st.finalbody, env)

    def exc_matches(self, exc, typ):
        if isinstance(typ, VTuple):
            return any(self.exc_matches(exc, t) for t in typ.items)
        if not isinstance(typ, VClass):
            raise Unsupported(f"except clause type {typ!r}")
        chain = class_chain(getattr(exc, "clsinfo", None) or exc.cls)
        name = typ.name.split(".")[-1] if not isinstance(typ.info, ClassInfo) and typ.name not in _EXTRA_EXC else typ.name
        if name in chain:
            return True
        # aliases (IOError = EnvironmentError = OSError, socket.error ...)
        alias = {"IOError": "OSError", "EnvironmentError": "OSError", "error": "OSError"}
        return alias.get(name) in chain

    def st_With(self, st, env):
        # context managers: the body runs once; `as` binds the manager itself (what ExitStack,
        # locks and files do).  Assumption (listed): __exit__ neither swallows exceptions nor
        # touches modelled state.
        for item in st.items:
            v = self.eval(item.context_expr, env)
            if item.optional_vars is not None:
                self.assign(item.optional_vars, v, env)
        self.exec_block(st.body, env)

    # ---- loops
    def _loop_spec(self, st):
        fn = self.frame_fn[-1] if self.frame_fn else None
        if fn is None:
            return None
        key, node = fn
        if id(node) not in self.loop_ordinals:
            ords = {}
            n = 0
            for x in ast.walk(node):
                pass
            # pre-order, source order
            def visit(nd):
                nonlocal n
                for ch in ast.iter_child_nodes(nd):
                    if isinstance(ch, (ast.FunctionDef, ast.Lambda, ast.ClassDef)):
                        continue
                    if isinstance(ch, (ast.While, ast.For)):
                        ords[id(ch)] = n
                        n += 1
                    visit(ch)
            visit(node)
            self.loop_ordinals[id(node)] = ords
        o = self.loop_ordinals[id(node)].get(id(st))
        c = self.frame_contract(key)
        if c is None or o is None:
            return None
        sp = c.loops.get(o)
        if sp is not None:
            sp = dict(sp)
            sp["ordinal"] = o
            sp["key"] = key
        return sp

    def st_While(self, st, env):
        spec = self._loop_spec(st)
        if spec is None or spec.get("unroll"):
            # unroll (bounded only by feasibility / explorer budget): sound, may not terminate
            # for genuinely unbounded loops -> budget error (undecided), never a wrong verdict
            limit = (spec or {}).get("unroll", 64)
            n = 0
            broke = False
            while True:
                c = self.eval(st.test, env)
                if not self.truth(c):
                    break
                n += 1
                if n > limit:
                    raise Unsupported(f"while loop at line {st.lineno} has no invariant (unrolled {limit}x)")
                try:
                    self.exec_block(st.body, env)
                except BreakSig:
                    broke = True
                    break
                except ContinueSig:
                    continue
            if not broke:
                self.exec_block(st.orelse, env)
            return
        from .loops import cut_while
        cut_while(self, st, env, spec)

    def st_For(self, st, env):
        it = self.eval(st.iter, env)
        from .loops import iter_view, cut_for
        spec = self._loop_spec(st)
        view = iter_view(self, self.need(it), st)
        n = concrete_int(view.length)
        if spec is None or spec.get("unroll"):
            if n is None:
                raise Unsupported(f"for loop over symbolic sequence without invariant (line {st.lineno})")
            broke = False
            for i in range(n):
                self.assign(st.target, view.get(z3.IntVal(i)), env)
                try:
                    self.exec_block(st.body, env)
                except BreakSig:
                    broke = True
                    if view.consume:
                        view.consume(z3.IntVal(i + 1))
                    break
                except ContinueSig:
                    continue
            if not broke:
                if view.consume:
                    view.consume(z3.IntVal(n))
                self.exec_block(st.orelse, env)
            return
        cut_for(self, st, env, spec, view)

    # ---------------------------------------------------------------- assignment
    def assign(self, tg, v, env):
        if isinstance(tg, ast.Name):
            env.assign(tg.id, v)
        elif isinstance(tg, (ast.Tuple, ast.List)):
            v = self.need(v)
            items = self.unpack(v, len(tg.elts), tg)
            for t_, x in zip(tg.elts, items):
                self.assign(t_, x, env)
        elif isinstance(tg, ast.Attribute):
            obj = self.eval(tg.value, env)
            self.setattr(obj, self.mangle(tg.attr, env), v, tg)
        elif isinstance(tg, ast.Subscript):
            obj = self.eval(tg.value, env)
            idx = self.eval_index(tg.slice, env)
            self.setitem(obj, idx, v, tg)
        else:
            raise Unsupported(f"assignment target {type(tg).__name__}")

    def unpack(self, v, n, node):
        if isinstance(v, VTuple):
            if len(v.items) != n:
                self.raise_("ValueError", node=node)
            return v.items
        if isinstance(v, VList) and v.concrete:
            if len(v.items) != n:
                self.raise_("ValueError", node=node)
            return v.items
        if isinstance(v, VList):
            if self.spec or self.branch(v.length == n, "unpack"):
                return [ops.list_get(v, z3.IntVal(i)) for i in range(n)]
            self.raise_("ValueError", node=node)
        if isinstance(v, VNone):
            self.raise_("TypeError", node=node)
        raise Unsupported(f"unpack of {v!r}")

    # ---------------------------------------------------------------- expressions
    def eval(self, node, env):
        m = getattr(self, "ev_" + type(node).__name__, None)
        if m is None:
            raise Unsupported(f"expression {type(node).__name__} (line {getattr(node, 'lineno', '?')})")
        return m(node, env)

    def ev_Constant(self, node, env):
        return self.const(node.value)

    def const(self, c):
        if c is None:
            return NONE
        if isinstance(c, bool):
            return VBool(c)
        if isinstance(c, int):
            return VInt(c)
        if isinstance(c, float):
            return VFloat(c)
        if isinstance(c, str):
            return VStr(c, "str")
        if isinstance(c, bytes):
            return VStr(c, "bytes")
        if c is Ellipsis:
            return NONE
        if isinstance(c, tuple):
            return VTuple([self.const(x) for x in c])
        raise Unsupported(f"constant {c!r}")

    def ev_Name(self, node, env):
        return self.lookup(node.id, env, node)

    def ev_Tuple(self, node, env):
        items = []
        for e in node.elts:
            if isinstance(e, ast.Starred):
                sv = self.need(self.eval(e.value, env))
                items += self.concrete_items(sv, e)
            else:
                items.append(self.eval(e, env))
        return VTuple(items)

    def ev_List(self, node, env):
        items = []
        for e in node.elts:
            if isinstance(e, ast.Starred):
                sv = self.need(self.eval(e.value, env))
                items += self.concrete_items(sv, e)
            else:
                items.append(self.eval(e, env))
        return VList(items)

    def ev_Set(self, node, env):
        return VSet(items=[self.eval(e, env) for e in node.elts])

    def ev_Dict(self, node, env):
        d = {}
        for k, v in zip(node.keys, node.values):
            if k is None:
                raise Unsupported("dict unpacking")
            kv = self.eval(k, env)
            d[self.hashable(kv)] = self.eval(v, env)
        return VDict(d)

    def hashable(self, kv):
        if isinstance(kv, VStr):
            s = ops.concrete_str(kv.z)
            if s is None:
                raise Unsupported("symbolic key in concrete dict")
            return (kv.kind, s)
        if isinstance(kv, VInt):
            i = concrete_int(kv.z)
            if i is None:
                raise Unsupported("symbolic key in concrete dict")
            return ("int", i)
        if isinstance(kv, VBool):
            z = z3.simplify(kv.z)
            if z3.is_true(z) or z3.is_false(z):
                return ("int", 1 if z3.is_true(z) else 0)
        if isinstance(kv, VNone):
            return ("none", None)
        if isinstance(kv, VTuple):
            return ("tuple", tuple(self.hashable(x) for x in kv.items))
        raise Unsupported(f"dict key {kv!r}")

    def concrete_items(self, v, node=None):
        if isinstance(v, VTuple):
            return list(v.items)
        if isinstance(v, VList) and v.concrete:
            return list(v.items)
        if isinstance(v, VSet) and v.items is not None:
            return list(v.items)
        raise Unsupported(f"need a concrete sequence, got {v!r}")

    def ev_JoinedStr(self, node, env):
        from . import lib
        parts = []
        for p in node.values:
            if isinstance(p, ast.Constant):
                parts.append(z3.StringVal(p.value))
            elif isinstance(p, ast.FormattedValue):
                v = self.eval(p.value, env)
                if p.format_spec is not None:
                    raise Unsupported("f-string format spec")
                if p.conversion == 114:  # !r
                    parts.append(lib.to_repr(self, v, p).z)
                else:
                    parts.append(lib.to_str(self, v, p).z)
            else:
                raise Unsupported("f-string part")
        if not parts:
            return VStr("", "str")
        z = parts[0]
        for p in parts[1:]:
            z = z3.Concat(z, p)
        return VStr(z, "str")

    def ev_NamedExpr(self, node, env):
        v = self.eval(node.value, env)
        env.assign(node.target.id, v)
        return v

    def ev_Lambda(self, node, env):
        f = VFunc(node, env.lookup("__module__") if env.has("__module__") else None, env, "<lambda>")
        return f

    def ev_IfExp(self, node, env):
        c = self.eval(node.test, env)
        if self.spec:
            cz = truthy(c)
            cs = z3.simplify(cz)
            if z3.is_true(cs):
                return self.eval(node.body, env)
            if z3.is_false(cs):
                return self.eval(node.orelse, env)
            return ite(cz, self.eval(node.body, env), self.eval(node.orelse, env))
        if self.truth(c):
            return self.eval(node.body, env)
        return self.eval(node.orelse, env)

    def ev_BoolOp(self, node, env):
        if self.spec:
            zs = []
            is_and = isinstance(node.op, ast.And)
            for sub in node.values:
                zv = truthy(self.eval(sub, env))
                zsimp = z3.simplify(zv)
                if is_and and z3.is_false(zsimp):
                    return VBool(False)
                if not is_and and z3.is_true(zsimp):
                    return VBool(True)
                zs.append(zv)
            return VBool(z3.And(zs) if is_and else z3.Or(zs))
        v = None
        for i, sub in enumerate(node.values):
            v = self.eval(sub, env)
            if i == len(node.values) - 1:
                return v
            t = self.truth(v)
            if isinstance(node.op, ast.And) and not t:
                return v
            if isinstance(node.op, ast.Or) and t:
                return v
        return v

    def ev_UnaryOp(self, node, env):
        v = self.eval(node.operand, env)
        if isinstance(node.op, ast.Not):
            if self.spec:
                return VBool(z3.Not(truthy(v)))
            return VBool(not self.truth(v))
        v = self.need(v)
        if isinstance(node.op, ast.USub):
            if isinstance(v, VFloat):
                return VFloat(-v.z)
            if is_num(v):
                return VInt(-as_int(v))
        if isinstance(node.op, ast.UAdd) and is_num(v):
            return v
        raise Unsupported(f"unary {type(node.op).__name__} on {v!r}")

    def ev_BinOp(self, node, env):
        a = self.need(self.eval(node.left, env))
        b = self.need(self.eval(node.right, env))
        return self.binop(node.op, a, b, node)

    def binop(self, op, a, b, node):
        from . import lib
        return lib.binop(self, op, a, b, node)

    def ev_Compare(self, node, env):
        left = self.eval(node.left, env)
        if self.spec:
            zs = []
            for op, rn in zip(node.ops, node.comparators):
                right = self.eval(rn, env)
                zs.append(self.compare(op, left, right, node))
                left = right
            return VBool(z3.And(zs) if len(zs) > 1 else zs[0])
        res = None
        for i, (op, rn) in enumerate(zip(node.ops, node.comparators)):
            right = self.eval(rn, env)
            res = VBool(self.compare(op, left, right, node))
            if i < len(node.ops) - 1:
                if not self.truth(res):
                    return res
            left = right
        return res

    def compare(self, op, a, b, node):
        """z3 Bool"""
        from . import lib
        return lib.compare(self, op, a, b, node)

    def mangle(self, name, env):
        if name.startswith("__") and not name.endswith("__") and env.has("__class__"):
            cls = env.lookup("__class__")
            return f"_{cls.name.lstrip('_')}{name}"
        return name

    def ev_Attribute(self, node, env):
        obj = self.eval(node.value, env)
        return self.getattr(obj, self.mangle(node.attr, env), node)

    def ev_Subscript(self, node, env):
        obj = self.eval(node.value, env)
        idx = self.eval_index(node.slice, env)
        return self.getitem(obj, idx, node)

    def eval_index(self, sl, env):
        if isinstance(sl, ast.Slice):
            if sl.step is not None:
                stp = self.eval(sl.step, env)
                if not (isinstance(stp, VInt) and concrete_int(stp.z) == 1):
                    raise Unsupported("slice step")
            lo = self.need(self.eval(sl.lower, env)) if sl.lower is not None else None
            hi = self.need(self.eval(sl.upper, env)) if sl.upper is not None else None
            if isinstance(lo, VNone):
                lo = None
            if isinstance(hi, VNone):
                hi = None
            return ("slice", lo, hi)
        return self.eval(sl, env)

    def ev_Call(self, node, env):
        self._call_env = env      # the caller's scope at this call site (ghost-argument bindings are evaluated in it)
        # spec-mode special forms
        if isinstance(node.func, ast.Name):
            nm = node.func.id
            if nm == "old" and self.spec and not env.has("old"):
                if self.old_env is None:
                    raise Unsupported("old() without pre-state")
                saved = self.old_env
                return self.eval(node.args[0], _OldEnv(env, saved))
            if nm in ("forall", "exists") and self.spec:
                return self.quant(nm, node, env)
            if nm in ("forall_s", "exists_s") and self.spec:
                lam = node.args[0]
                vname = lam.args.args[0].arg
                bname = self.ctx.fresh_name("qs_" + vname)
                bound = z3.String(bname)
                if not hasattr(self, "bound_names") or self.bound_names is None:
                    self.bound_names = set()
                self.bound_names.add(bname)
                try:
                    body = truthy(self.eval(lam.body, Env(env, {vname: VStr(bound, "str")})))
                finally:
                    self.bound_names.discard(bname)
                return VBool(z3.ForAll([bound], body) if nm == "forall_s" else z3.Exists([bound], body))
            if nm == "implies" and self.spec:
                a = truthy(self.eval(node.args[0], env))
                if z3.is_false(z3.simplify(a)):
                    return VBool(True)
                b = truthy(self.eval(node.args[1], env))
                return VBool(z3.Implies(a, b))
            if nm == "super" and not node.args:
                return ("super",)
        if isinstance(node.func, ast.Attribute) and isinstance(node.func.value, ast.Call) \
                and isinstance(node.func.value.func, ast.Name) and node.func.value.func.id == "super" \
                and not env.has("super"):
            return self.super_call(node, env)
        if isinstance(node.func, ast.Attribute) and isinstance(node.func.value, ast.Name) \
                and node.func.value.id == "t" and node.func.attr == "cast":
            return self.eval(node.args[1], env)
        fv = self.eval(node.func, env)
        args = []
        kwargs = {}
        for a in node.args:
            if isinstance(a, ast.Starred):
                sv = self.need(self.eval(a.value, env))
                if isinstance(sv, VList) and not sv.concrete:
                    kwargs["__star__"] = sv      # f(*symbolic_list): handed to the callee's spec as a whole
                    continue
                args += self.concrete_items(sv, a)
            else:
                args.append(self.eval(a, env))
        for k in node.keywords:
            if k.arg is None:
                dv = self.need(self.eval(k.value, env))
                if isinstance(dv, VDict) and dv.concrete:
                    for (kk, ks), vv in dv.items.items():
                        kwargs[ks] = vv
                    continue
                raise Unsupported("**kwargs with symbolic dict")
            kwargs[k.arg] = self.eval(k.value, env)
        return self.call(fv, args, kwargs, node)

    def quant(self, nm, node, env):
        lo = self.eval(node.args[0], env)
        hi = self.eval(node.args[1], env)
        lam = node.args[2]
        if not isinstance(lam, ast.Lambda):
            raise Unsupported("forall/exists needs a lambda")
        clo, chi = concrete_int(as_int(lo)), concrete_int(as_int(hi))
        if clo is not None and chi is not None and chi <= clo:
            return VBool(nm == "forall")          # empty range: the body is not even evaluated
        vname = lam.args.args[0].arg
        bname = self.ctx.fresh_name("q_" + vname)
        bound = z3.Int(bname)
        e2 = Env(env, {vname: VInt(bound)})
        if not hasattr(self, "bound_names") or self.bound_names is None:
            self.bound_names = set()
        self.bound_names.add(bname)
        QRANGES[bname] = (as_int(lo), as_int(hi))
        try:
            body = truthy(self.eval(lam.body, e2))
        finally:
            self.bound_names.discard(bname)
        rng = z3.And(as_int(lo) <= bound, bound < as_int(hi))
        if nm == "forall":
            return VBool(z3.ForAll([bound], z3.Implies(rng, body)))
        ex = z3.Exists([bound], z3.And(rng, body))
        # exists(lo, hi, lambda p: ..., witness=lambda: <ghost term>): the same proposition, with the instance at the
        # ghost witness spelled out as a first disjunct (equivalent, since the instance implies the existential)
        for kw in node.keywords:
            if kw.arg == "witness" and isinstance(kw.value, ast.Lambda):
                try:
                    w = as_int(self.eval(kw.value.body, env))
                except (Unsupported, KeyError):
                    break
                inst = truthy(self.eval(lam.body, Env(env, {vname: VInt(w)})))
                return VBool(z3.Or(z3.And(as_int(lo) <= w, w < as_int(hi), inst), ex))
        return VBool(ex)

    def super_call(self, node, env):
        meth = node.func.attr
        selfv = env.lookup("self") if env.has("self") else None
        cls = env.lookup("__class__") if env.has("__class__") else None
        if selfv is None or cls is None:
            raise Unsupported("super() outside method")
        args = [self.eval(a, env) for a in node.args]
        kwargs = {k.arg: self.eval(k.value, env) for k in node.keywords}
        return self.call_method(selfv, meth, args, kwargs, node, after=cls)

    def ev_ListComp(self, node, env):
        sym = self._filter_comprehension(node, env)
        if sym is None:
            sym = self._map_comprehension(node, env)
        if sym is not None:
            return sym
        return VList(self.comprehension(node, env))

    def _filter_comprehension(self, node, env):
        """[E(t) for t in <symbolic sequence> if cond(t)] (E pure, the target a name or a tuple pattern): the result is a
        fresh list characterised completely by quantified axioms -- an order-preserving, complete selection of the
        source elements that satisfy the condition, each mapped through E.  Trusted encoding of the comprehension;
        returns None when the shape of the comprehension is another one.  The two index functions (result index ->
        source index, source index -> result index) are exposed as ghost functions `ghost_filt_src`, `ghost_filt_dst`."""
        from .loops import iter_view
        from . import lib
        from .values import shape_of, VBuiltin
        if len(node.generators) != 1:
            return None
        g = node.generators[0]
        if g.is_async or not g.ifs:
            return None
        itv = self.need(self.eval(g.iter, env))
        try:
            view = iter_view(self, itv, g.iter)
        except Unsupported as _e:
            import os as _o
            if _o.environ.get("PYVC_DEBUG_COMP"): print("[comp] iter_view", repr(_e))
            return None
        if concrete_int(view.length) is not None or view.shape is None:
            # concrete spine: the generic path (looking at the iterator has not advanced it)
            import os as _o
            if _o.environ.get("PYVC_DEBUG_COMP"): print("[comp] view", view.length, view.shape)
            return None
        ctx = self.ctx
        n = view.length
        sp = self.sub(True)

        def bind(elem):
            e2 = Env(env)
            sp.assign(g.target, elem, e2)
            return e2

        def cond_on(elem):
            e2 = bind(elem)
            cs = [truthy(sp.eval(c, e2)) for c in g.ifs]
            return z3.And(cs + [z3.BoolVal(True)])

        def elt_of(elem):
            return sp.eval(node.elt, bind(elem))
        i = z3.Int(ctx.fresh_name("i_filt"))
        j = z3.Int(ctx.fresh_name("j_filt"))
        try:
            sample = elt_of(view.get(i))
            rshape = shape_of(sample)
        except (Unsupported, ValueError) as _e:
            import os as _o
            if _o.environ.get("PYVC_DEBUG_COMP"): print("[comp] sample", repr(_e))
            return None
        identity = isinstance(g.target, ast.Name) and isinstance(node.elt, ast.Name) and node.elt.id == g.target.id
        r = lib.fresh_list(self, rshape, "filt")
        f = z3.Function(ctx.fresh_name("filt_src"), z3.IntSort(), z3.IntSort())
        gi = z3.Function(ctx.fresh_name("filt_dst"), z3.IntSort(), z3.IntSort())
        # bounds of the axioms' quantifiers, for the bounded refuter
        i2 = z3.Int(ctx.fresh_name("i_filt"))
        QRANGES[i.decl().name()] = (z3.IntVal(0), r.length)
        QRANGES[i2.decl().name()] = (z3.IntVal(0), r.length - 1)
        QRANGES[j.decl().name()] = (z3.IntVal(0), n)
        ctx.assume(z3.And(r.length >= 0, r.length <= n), "filter-comprehension:length")
        body = [f(i) >= 0, f(i) < n, ops.eq(ops.list_get(r, i), elt_of(view.get(f(i)))), cond_on(view.get(f(i)))]
        if identity:
            body.append(cond_on(ops.list_get(r, i)))
        ctx.assume(z3.ForAll([i], z3.Implies(z3.And(i >= 0, i < r.length), z3.And(body))),
                   "filter-comprehension:elements-are-selected-source-elements")
        ctx.assume(z3.ForAll([i2], z3.Implies(z3.And(i2 >= 0, i2 < r.length - 1), f(i2) < f(i2 + 1))),
                   "filter-comprehension:order-preserved")
        ctx.assume(z3.ForAll([j], z3.Implies(z3.And(j >= 0, j < n, cond_on(view.get(j))),
                                              z3.And(gi(j) >= 0, gi(j) < r.length, f(gi(j)) == j))),
                   "filter-comprehension:complete")
        self.ghost["filt_src"] = VBuiltin("ghost:filt_src", lambda it, a, k, nn: VInt(f(as_int(a[0]))))
        self.ghost["filt_dst"] = VBuiltin("ghost:filt_dst", lambda it, a, k, nn: VInt(gi(as_int(a[0]))))
        if view.consume:
            view.consume(n)
        return r

    def ev_GeneratorExp(self, node, env):
        sym = self._map_comprehension(node, env)
        if sym is not None:
            return sym
        return VList(self.comprehension(node, env))

    def _map_comprehension(self, node, env):
        """(E(x) for x in <symbolic list>) / [E(x) for x in ...] without a filter, E a pure expression: the result
        list is the array  lambda i. E(src[i])  of the same length.  The same expression over the same list
        yields the same term (z3 lambda arrays), so code and specification meet syntactically."""
        from .loops import iter_view
        from .values import shape_of, flatten as _flatten
        if len(node.generators) != 1:
            return None
        g = node.generators[0]
        if g.is_async or g.ifs or not isinstance(g.target, ast.Name):
            return None
        itv = self.need(self.eval(g.iter, env))
        try:
            view = iter_view(self, itv, g.iter)
        except Unsupported:
            return None
        if concrete_int(view.length) is not None or view.shape is None:
            return None
        i = z3.Int("i!map")
        sp = self.sub(True)
        e2 = Env(env)
        e2.assign(g.target.id, view.get(i))
        try:
            val = sp.eval(node.elt, e2)
        except Unsupported:
            return None
        shape = shape_of(val)
        leaves = _flatten(val, shape)
        # the mapped list: arrays NAMED after the defining expression (so that code and specification, which map the
        # same expression over the same list, meet in the same term) with their defining axiom.  Plain SMT-LIB
        # (z3's lambda arrays would do the same, but cvc5 cannot read them)
        import hashlib
        arrs = []
        for k, l in enumerate(leaves):
            h = hashlib.sha1(l.sexpr().encode()).hexdigest()[:12]
            a = z3.Array(f"map!{h}", z3.IntSort(), l.sort())
            arrs.append(a)
            seen = self.ctx.__dict__.setdefault("_map_axioms", set())
            if h not in seen:
                seen.add(h)
                ih = z3.Int(f"i!map!{h}")
                QRANGES[ih.decl().name()] = (z3.IntVal(0), view.length)
                self.ctx.assume(z3.ForAll([ih], z3.Implies(z3.And(ih >= 0, ih < view.length),
                                                           z3.Select(a, ih) == z3.substitute(l, (i, ih)))),
                                "map-comprehension:definition")
        if view.consume:
            view.consume(view.length)
        return VList(None, shape=shape, arrs=arrs, length=view.length)

    def ev_SetComp(self, node, env):
        return VSet(items=self.comprehension(node, env))

    def ev_DictComp(self, node, env):
        out = {}
        self._comp_rec(node.generators, 0, env, lambda e: out.__setitem__(
            self.hashable(self.eval(node.key, e)), self.eval(node.value, e)))
        return VDict(out)

    def comprehension(self, node, env):
        out = []
        self._comp_rec(node.generators, 0, env, lambda e: out.append(self.eval(node.elt, e)))
        return out

    def _comp_rec(self, gens, k, env, emit):
        from .loops import iter_view
        if k == len(gens):
            emit(env)
            return
        g = gens[k]
        it = self.need(self.eval(g.iter, env))
        view = iter_view(self, it, g.iter)
        n = concrete_int(view.length)
        if n is None:
            raise Unsupported("comprehension over symbolic sequence")
        for i in range(n):
            e2 = Env(env)
            self.assign(g.target, view.get(z3.IntVal(i)), e2)
            ok = True
            for cond in g.ifs:
                c = self.eval(cond, e2)
                if self.spec:
                    raise Unsupported("filtered comprehension in spec")
                if not self.truth(c):
                    ok = False
                    break
            if ok:
                self._comp_rec(gens, k + 1, e2, emit)
        if view.consume:
            view.consume(z3.IntVal(n))

    def ev_Starred(self, node, env):
        raise Unsupported("starred expression")

    # ---------------------------------------------------------------- attribute protocol
    def getattr(self, obj, name, node=None):
        from . import lib
        obj = self.need(obj)
        if isinstance(obj, VObj):
            if name in obj.fields:
                return obj.fields[name]
            if obj.cls == "re.Match":
                from . import rx
                return rx.match_attr(self, obj, name, node)
            return self.class_attr(obj, name, node)
        if isinstance(obj, VModule):
            if obj.info is not None:
                try:
                    return self.module_value(obj.info, name)
                except KeyError:
                    raise Unsupported(f"module {obj.name} has no {name}")
            return self.external_attr(obj.name, name)
        if isinstance(obj, VClass):
            if isinstance(obj.info, ClassInfo) and any(str(b).split(".")[-1] in ("Enum", "IntEnum", "Flag")
                                                       for b in obj.info.mro() if not isinstance(b, ClassInfo)) \
                    and name in obj.info.attrs:
                # enum members are distinct named constants
                return VStr(f"{obj.info.name}.{name}")
            if isinstance(obj.info, ClassInfo):
                owner, found = obj.info.find_method(name)
                if found is None:
                    raise Unsupported(f"class attribute {obj.name}.{name}")
                if isinstance(found, list):
                    fn = found[-1]
                    f = VFunc(fn, owner.module, None, f"{owner.name}.{fn.name}", owner)
                    decs = [ast.unparse(d) for d in fn.decorator_list]
                    if "classmethod" in decs:
                        return f.bind(obj)
                    return f
                sub = Interp(self.ctx, self.reg, spec=self.spec)
                sub.module_cache = self.module_cache
                return sub.eval(found, Env(vars={"__module__": owner.module}))
            return lib.external_class_attr(self, obj, name, node)
        if isinstance(obj, VNone):
            self.raise_("AttributeError", node=node)
        return lib.value_attr(self, obj, name, node)

    def class_attr(self, obj, name, node):
        from . import lib
        cls = obj.cls
        if isinstance(cls, ClassInfo):
            owner, found = cls.find_method(name)
            if isinstance(found, list):
                fn = found[-1]
                for cand in found:      # a property: the getter is the definition decorated with @property
                    cd = [ast.unparse(d) for d in cand.decorator_list]
                    if any(d in ("property", "cached_property") or d.endswith(".cached_property") for d in cd):
                        fn = cand
                decs = [ast.unparse(d) for d in fn.decorator_list]
                f = VFunc(fn, owner.module, None, f"{owner.name}.{fn.name}", owner)
                if any(d in ("property", "cached_property") or d.endswith(".cached_property") for d in decs):
                    return self.call(f.bind(obj), [], {}, node)
                if "staticmethod" in decs:
                    return f
                if "classmethod" in decs:
                    return f.bind(VClass(cls))
                g = self.apply_decorators(f, fn, owner.module)
                if g is not f:
                    return VBuiltin("decorated:" + f.qualname,
                                    lambda it, a, k, n, g=g, obj=obj: it.call(g, [obj] + list(a), k, n))
                return f.bind(obj)
            if found is not None and owner is not None and isinstance(owner, ClassInfo):
                sub = Interp(self.ctx, self.reg, spec=self.spec)
                sub.module_cache = self.module_cache
                return sub.eval(found, Env(vars={"__module__": owner.module}))
            if owner is not None and not isinstance(owner, ClassInfo):
                return lib.foreign_method(self, obj, owner, name, node)
        if obj.model is not None:
            # environment model: methods are given by trusted contracts
            key = f"model:{obj.model.name}.{name}"
            if key in self.reg.contracts:
                return VBuiltin(key, _model_method(key), obj)
            if key in self.reg.overrides:
                return VBuiltin(key, self.reg.overrides[key], obj)
        if self.spec:
            raise Unsupported(f"attribute {name!r} of {obj!r} in spec")
        # hasattr-style miss
        return lib.missing_attr(self, obj, name, node)

    _PLAIN_DECORATORS = ("property", "staticmethod", "classmethod", "cached_property", "overload", "abstractmethod")

    def apply_decorators(self, f, fn, module):
        """apply the function's real decorators (executed from their own source), innermost first"""
        decs = [d for d in fn.decorator_list
                if not any(ast.unparse(d).split(".")[-1] == p or ast.unparse(d).endswith(".setter") for p in self._PLAIN_DECORATORS)]
        if not decs:
            return f
        g = f
        for d in reversed(decs):
            dv = self.eval(d, Env(vars={"__module__": module}))
            g = self.call(dv, [g], {}, d)
        return g

    def setattr(self, obj, name, v, node=None):
        obj = self.need(obj)
        if isinstance(obj, VObj):
            cls = obj.cls
            if isinstance(cls, ClassInfo):
                owner, found = cls.find_method("__setattr__")
                if isinstance(found, list) and not getattr(self, "_in_setattr", False):
                    f = VFunc(found[-1], owner.module, None, f"{owner.name}.__setattr__", owner)
                    self._in_setattr = True
                    try:
                        self.call(f.bind(obj), [VStr(name), v], {}, node)
                    finally:
                        self._in_setattr = False
                    return
                # property setter?
                owner, found = cls.find_method(name)
                if isinstance(found, list):
                    for fn in found:
                        decs = [ast.unparse(d) for d in fn.decorator_list]
                        if f"{name}.setter" in decs:
                            f = VFunc(fn, owner.module, None, f"{owner.name}.{name}", owner)
                            self.call(f.bind(obj), [v], {}, node)
                            return
            self.frame_write(obj, name)
            if obj.model is not None and getattr(obj.model, "setters", None) and name in obj.model.setters:
                v = obj.model.setters[name](self, obj, v)
            obj.fields[name] = v
            return
        if isinstance(obj, VExc):
            obj.fields[name] = v
            return
        raise Unsupported(f"setattr on {obj!r}")

    def delattr(self, obj, name, node=None):
        obj = self.need(obj)
        if isinstance(obj, VObj):
            if name in obj.fields:
                del obj.fields[name]
                return
            self.raise_("AttributeError", node=node)
        raise Unsupported(f"delattr on {obj!r}")

    def frame_write(self, obj, name):
        """hook for frame obligations (set by the verifier)"""
        cb = self.ghost.get("__frame_cb__")
        if cb:
            cb(obj, name)

    # ---------------------------------------------------------------- item protocol
    def getitem(self, obj, idx, node=None):
        from . import lib
        return lib.getitem(self, self.need(obj), idx, node)

    def setitem(self, obj, idx, v, node=None):
        from . import lib
        return lib.setitem(self, self.need(obj), idx, v, node)

    def delitem(self, obj, idx, node=None):
        from . import lib
        return lib.delitem(self, self.need(obj), idx, node)

    # ---------------------------------------------------------------- calls
    def call_method(self, obj, name, args, kwargs, node, after=None):
        obj = self.need(obj)
        if after is not None and isinstance(obj, VObj) and isinstance(obj.cls, ClassInfo):
            owner, found = obj.cls.find_method(name, after=after)
            if isinstance(found, list):
                f = VFunc(found[-1], owner.module, None, f"{owner.name}.{name}", owner)
                return self.call(f.bind(obj), args, kwargs, node)
            from . import lib
            return self.call(lib.foreign_method(self, obj, owner if owner is not None else "object", name, node), args, kwargs, node)
        f = self.getattr(obj, name, node)
        return self.call(f, args, kwargs, node)

    def call(self, fv, args, kwargs, node=None):
        fv = self.need(fv)
        if isinstance(fv, VBuiltin):
            if fv.self_obj is not None:
                return fv.impl(self, [fv.self_obj] + list(args), kwargs, node)
            return fv.impl(self, list(args), kwargs, node)
        if isinstance(fv, VFunc):
            return self.call_func(fv, args, kwargs, node)
        if isinstance(fv, VClass):
            return self.instantiate(fv, args, kwargs, node)
        if isinstance(fv, VOpaque):
            from . import lib
            return lib.call_opaque(self, fv, args, kwargs, node)
        if isinstance(fv, VNone):
            self.raise_("TypeError", node=node)
        if isinstance(fv, VObj):
            return self.call_method(fv, "__call__", args, kwargs, node)
        raise Unsupported(f"call of {fv!r} (line {getattr(node, 'lineno', '?')})")

    def func_key(self, fv):
        if fv.module is None:
            return None
        return f"{fv.module.relpath}:{fv.qualname}"

    def call_func(self, fv, args, kwargs, node):
        key = self.func_key(fv)
        stub = self.reg.overrides.get("stubmethod:" + key) if key else None
        if stub is not None:
            f2 = VFunc(stub, fv.module, None, fv.qualname, fv.cls)
            f2.self_obj = fv.self_obj
            return self.run_body(f2, args, kwargs, node)
        c = self.reg.contracts.get(key) if key else None
        top = self.reg.contracts.get(self.current_target) if self.current_target else None
        if c is not None and top is not None and key in top.inline_callees:
            c = None
        if c is not None and c.call_inline:
            c = None
        plain_target = self.current_target.split("#")[0] if self.current_target else None
        if key is not None and key == plain_target and not getattr(self, "_entered_target", False):
            # first entry into the function under verification (possibly through its decorators): its body is
            # executed; only recursive calls use its own contract
            self._entered_target = True
            c = None
        if c is not None and not c.inline and not (self.depth == 0 and key == self.current_target):
            from .callspec import apply_contract
            return apply_contract(self, c, fv, args, kwargs, node)
        if self.depth > 12:
            raise Unsupported(f"inline depth exceeded at {key}")
        return self.run_body(fv, args, kwargs, node)

    def bind_params(self, fv, args, kwargs, node):
        a = fv.node.args
        env_vars = {}
        params = [p.arg for p in a.posonlyargs + a.args]
        args = list(args)
        if fv.self_obj is not None:
            args = [fv.self_obj] + args
        defaults = [None] * (len(params) - len(a.defaults)) + list(a.defaults)
        denv = Env(fv.closure, {"__module__": fv.module}) if fv.closure is None else fv.closure
        for i, p in enumerate(params):
            if i < len(args):
                env_vars[p] = args[i]
            elif p in kwargs:
                env_vars[p] = kwargs.pop(p)
            elif defaults[i] is not None:
                env_vars[p] = self.eval(defaults[i], denv)
            else:
                self.raise_("TypeError", node=node)
        extra = args[len(params):]
        if a.vararg and "__vararg__" in kwargs:
            env_vars[a.vararg.arg] = kwargs.pop("__vararg__")
        elif a.vararg:
            env_vars[a.vararg.arg] = VTuple(extra)
        elif extra:
            self.raise_("TypeError", node=node)
        for p, d in zip(a.kwonlyargs, a.kw_defaults):
            if p.arg in kwargs:
                env_vars[p.arg] = kwargs.pop(p.arg)
            elif d is not None:
                env_vars[p.arg] = self.eval(d, denv)
            else:
                self.raise_("TypeError", node=node)
        if a.kwarg:
            env_vars[a.kwarg.arg] = VDict({("str", k): v for k, v in kwargs.items()})
        elif kwargs:
            self.raise_("TypeError", node=node)
        return env_vars

    def run_body(self, fv, args, kwargs, node):
        env_vars = self.bind_params(fv, args, dict(kwargs), node)
        env = Env(fv.closure, env_vars)
        env.vars["__module__"] = fv.module
        env.vars["__qualname__"] = fv.qualname
        if fv.cls is not None:
            env.vars["__class__"] = fv.cls
        if isinstance(fv.node, ast.Lambda):
            return self.eval(fv.node.body, env)
        is_gen = any(isinstance(n, (ast.Yield, ast.YieldFrom)) for n in _walk_own(fv.node))
        key = self.func_key(fv)
        self.depth += 1
        self.frame_fn.append((key, fv.node))
        saved_line = self.ctx.cur_line
        try:
            if is_gen:
                log = VList([])
                env.vars["__yield__"] = log
                try:
                    self.exec_block(fv.node.body, env)
                except ReturnSig:
                    pass
                return log
            try:
                self.exec_block(fv.node.body, env)
            except ReturnSig as r:
                return r.value
            return NONE
        finally:
            self.depth -= 1
            self.frame_fn.pop()
            self.ctx.cur_line = saved_line

    def ev_Yield(self, node, env):
        log = env.lookup("__yield__")
        if not log.concrete:
            raise Unsupported("yield after `yield from <symbolic list>`")
        log.items.append(self.eval(node.value, env) if node.value is not None else NONE)
        return NONE

    def ev_YieldFrom(self, node, env):
        log = env.lookup("__yield__")
        v = self.need(self.eval(node.value, env))
        if isinstance(v, VList) and not v.concrete and log.concrete and not log.items:
            # nothing yielded so far and the whole of a symbolic list is delegated to: what the generator yields is that
            # list (a snapshot: later changes of the source are not seen by the consumer of the finished log)
            log.items, log.shape, log.arrs, log.length = None, v.shape, list(v.arrs), v.length
            return NONE
        if not log.concrete:
            raise Unsupported("yield from after `yield from <symbolic list>`")
        log.items.extend(self.concrete_items(v, node))
        return NONE

    def instantiate(self, cv, args, kwargs, node):
        from . import lib
        info = cv.info
        if not isinstance(info, ClassInfo):
            return lib.construct_external(self, cv, args, kwargs, node)
        if is_exception_class(info):
            e = VExc(info.name, args)
            e.clsinfo = info
            for k, v in kwargs.items():
                e.fields[k] = v
            return e
        key = f"{info.module.relpath}:{info.name}"
        ctor = self.reg.constructors.get(key)
        if ctor is not None:
            return ctor(self, cv, args, kwargs, node)
        obj = VObj(info, {})
        owner, found = info.find_method("__init__")
        if isinstance(found, list):
            f = VFunc(found[-1], owner.module, None, f"{owner.name}.__init__", owner)
            ikey = self.func_key(f)
            ic = self.reg.contracts.get(ikey) if ikey else None
            top = self.reg.contracts.get(self.current_target) if self.current_target else None
            if ic is not None and ic.self_model is not None and not ic.inline and not ic.call_inline \
                    and not (top is not None and ikey in top.inline_callees) \
                    and ikey != (self.current_target.split("#")[0] if self.current_target else None):
                # the constructor is replaced by its contract: the new object starts as an arbitrary instance of the
                # contract's model (nothing known about its fields) and the postconditions say what __init__ made of it
                fo = self.fresh(("obj", ic.self_model), "new_" + info.name)
                obj.fields.update(fo.fields)
                obj.model = ic.self_model
            self.call(f.bind(obj), args, kwargs, node)
        elif _is_dataclass(info):
            # @dataclass without a hand-written __init__: the generated one assigns the annotated fields, in
            # definition order (bases first), from positional / keyword arguments or the class-level default
            names = _dataclass_fields(info)
            args = list(args)
            if len(args) > len(names):
                self.raise_("TypeError", node=node)
            for i, (nm, default) in enumerate(names):
                if i < len(args):
                    obj.fields[nm] = args[i]
                elif nm in kwargs:
                    obj.fields[nm] = kwargs[nm]
                elif default is not None:
                    obj.fields[nm] = self.eval(default, Env(None, {"__module__": info.module}))
                else:
                    self.raise_("TypeError", node=node)
            extra = [k for k in kwargs if k not in [n for n, _ in names]]
            if extra:
                self.raise_("TypeError", node=node)
        return obj


def _is_dataclass(info):
    for d in info.node.decorator_list:
        f = d.func if isinstance(d, ast.Call) else d
        nm = f.id if isinstance(f, ast.Name) else (f.attr if isinstance(f, ast.Attribute) else None)
        if nm == "dataclass":
            return True
    return False


def _dataclass_fields(info):
    out = []
    for k in reversed([c for c in info.mro() if isinstance(c, ClassInfo)]):
        if not _is_dataclass(k):
            continue
        for st in k.node.body:
            if isinstance(st, ast.AnnAssign) and isinstance(st.target, ast.Name):
                out = [x for x in out if x[0] != st.target.id] + [(st.target.id, st.value)]
    return out


class _OldEnv(Env):
    """environment that resolves names in the pre-state snapshot first"""

    def __init__(self, env, old_vars):
        super().__init__(env, dict(old_vars))


def _model_method(key):
    def impl(interp, args, kwargs, node):
        from .callspec import apply_contract
        c = interp.reg.contracts[key]
        return apply_contract(interp, c, None, args, kwargs, node)
    return impl


def _walk_own(fn):
    """nodes of fn excluding nested function bodies"""
    stack = list(fn.body) if hasattr(fn, "body") and isinstance(fn.body, list) else [fn.body]
    while stack:
        n = stack.pop()
        yield n
        for ch in ast.iter_child_nodes(n):
            if isinstance(ch, (ast.FunctionDef, ast.AsyncFunctionDef, ast.Lambda, ast.ClassDef)):
                continue
            stack.append(ch)
