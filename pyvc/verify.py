"""Verification of one function against its sidecar contract: VC generation
(path exploration over the real AST) and discharge (z3, then cvc5)."""
from __future__ import annotations

import ast
import hashlib
import os
import subprocess
import tempfile
import time
import traceback

import z3

from . import ops
from .ops import Unsupported, truthy, snapshot, T, F
from .values import (
    NONE, VBool, VByteArray, VDict, VExc, VFloat, VInt, VList, VNone, VObj, VOpaque, VOpt, VSet,
    VStr, VTuple, VFunc, ObjModel,
)
from .extract import find_target, fn_fingerprint, ExtractError
from .paths import Explorer, PathEnd, Budget, timed_check, _has_quantifier
from .symex import Interp, Env, PyRaise, ReturnSig, class_chain

CVC5 = "/usr/bin/cvc5"


def _short(key):
    return key.split("/")[-1]


class FuncRun:
    """everything produced for one function under contract"""

    def __init__(self, key):
        self.key = key
        self.obligations = []
        self.paths = 0
        self.terminals = 0
        self.live_terminals = 0
        self.error = None
        self.fingerprint = None
        self.solver_calls = 0
        self.assumption_origins = set()
        self.trusted_used = set()
        self.gen_s = 0.0


def build_args(it, c, fn, cls, case=None):
    """fresh symbolic arguments for the function under contract"""
    a = fn.args
    names = [p.arg for p in a.posonlyargs + a.args]
    defaults = [None] * (len(names) - len(a.defaults)) + list(a.defaults)
    shapes = dict(c.params)
    if case:
        shapes.update(case)
    vals = {}
    for i, nm in enumerate(names):
        if i == 0 and cls is not None and nm in ("self", "cls") and nm not in shapes:
            if c.self_model is None:
                raise Unsupported(f"{c.key}: no self model")
            vals[nm] = it.fresh(("obj", c.self_model), "arg.self")
            continue
        if nm in shapes:
            sh = shapes[nm]
            if isinstance(sh, tuple) and sh and sh[0] == "const":
                vals[nm] = it.const(sh[1])
            elif isinstance(sh, tuple) and sh and sh[0] == "builtin":
                from . import lib
                vals[nm] = lib.builtin(it, sh[1])
            elif isinstance(sh, tuple) and sh and sh[0] == "const_class":
                # the class itself (the `cls` of a classmethod): 'relpath:ClassName'
                from .extract import ModuleInfo as _MI
                from .values import VClass as _VC
                rp, cn = sh[1].split(":")
                vals[nm] = _VC(_MI.get(rp).classes[cn])
            else:
                vals[nm] = it.fresh(sh, "arg." + nm)
        elif defaults[i] is not None:
            vals[nm] = it.eval(defaults[i], Env(vars={"__module__": it._target_mod}))
        else:
            raise Unsupported(f"{c.key}: no shape for parameter {nm}")
    for p, d in zip(a.kwonlyargs, a.kw_defaults):
        if p.arg in shapes:
            vals[p.arg] = it.fresh(shapes[p.arg], "arg." + p.arg)
        elif d is not None:
            vals[p.arg] = it.eval(d, Env(vars={"__module__": it._target_mod}))
        else:
            raise Unsupported(f"{c.key}: no shape for parameter {p.arg}")
    if a.vararg:
        sh = shapes.get(a.vararg.arg)
        if sh is None:
            vals[a.vararg.arg] = VTuple([])
        else:
            vals[a.vararg.arg] = it.fresh(sh, "arg." + a.vararg.arg)
    if a.kwarg:
        vals[a.kwarg.arg] = VDict({})
    for g, sh in c.ghost_params.items():
        vals[g] = it.fresh(sh, "ghost." + g)
    return vals


def generate(reg, key, budget=None, parallel=None):
    """explore all paths of the function; returns FuncRun with raw obligations.
    parallel = (workers, finish): after a short sequential phase the pending decision prefixes are handed to
    forked children; each child explores its share, calls finish(obligations) (discharge) and sends the JSON
    records back; they are collected in run.remote"""
    run = FuncRun(key)
    run.remote = []
    t0 = time.time()
    c = reg.contracts[key]
    try:
        mod, cls, fn, enclosing = find_target(key.split("#")[0])   # 'path:qual#tag': a second contract on the same function
        run.fingerprint = fn_fingerprint(mod, fn)
        cases = c.cases or [None]
        for ci, case in enumerate(cases):
            ex = Explorer(**(budget or {}))
            tag = f"case[{ci}]/" if c.cases else ""

            def run_one(ctx, case=case, tag=tag):
                it = Interp(ctx, reg, False, key)
                it._target_mod = mod
                vals = build_args(it, c, fn, cls, case)
                it.ghost_args = {g: vals[g] for g in c.ghost_params}
                closure_env = None
                if enclosing or c.closure:
                    cv = {"__module__": mod}
                    for nm, sh in c.closure.items():
                        if isinstance(sh, tuple) and sh and sh[0] == "modvalue":
                            cv[nm] = it.module_value(mod, sh[1])     # a module-level function / constant of the repository
                        else:
                            cv[nm] = it.fresh(sh, "clo." + nm)
                    closure_env = Env(None, cv)
                    closure_env.vars["__qualname__"] = key.split(":")[1].rsplit(".", 1)[0]
                sp = it.sub(True)
                env0 = Env(closure_env or Env(None, {"__module__": mod}), dict(vals))
                for k, r in enumerate(c.requires):
                    ctx.assume(truthy(sp.eval(r, env0)), f"requires:{key}[{k}]")
                for k, r in enumerate(c.assumes):
                    ctx.assume(truthy(sp.eval(r, env0)), f"assumes:{key}[{k}]")
                old = {k: snapshot(v) for k, v in vals.items()}
                if closure_env is not None:
                    for k, v in closure_env.vars.items():
                        if not k.startswith("__"):
                            old[k] = snapshot(v)
                it.old_env = old
                sp.old_env = old
                ctx.inputs = old
                fv = VFunc(fn, mod, closure_env, key.split("#")[0].split(":")[1], cls)
                a = fn.args
                pos = [vals[p.arg] for p in a.posonlyargs + a.args]
                kw = {p.arg: vals[p.arg] for p in a.kwonlyargs}
                if a.vararg:
                    va = vals[a.vararg.arg]
                    if getattr(va, "items", None) is not None:
                        pos += list(va.items)
                    else:
                        kw["__vararg__"] = va
                outcome = "return"
                try:
                    dec = it.apply_decorators(fv, fn, mod)
                    if dec is not fv:
                        result = it.call(dec, pos, kw, fn)      # the decorated function is what callers get
                    else:
                        it._entered_target = True
                        result = it.run_body(fv, pos, kw, fn)
                except PyRaise as pr:
                    outcome = "raise:" + pr.exc.cls
                    _check_raise(it, sp, c, key, tag, pr, vals, closure_env)
                    return outcome
                env1 = Env(closure_env or Env(None, {"__module__": mod}), dict(vals))
                env1.vars["result"] = result
                for g in it.ghost:
                    if not g.startswith("__"):
                        env1.vars.setdefault("ghost_" + g, it.ghost[g])
                env1.vars["__ghost__"] = it.ghost
                for k, e in enumerate(c.ensures):
                    try:
                        goal = truthy(sp.eval(e, env1))
                        info = {"clause": c.ensures_src[k]}
                    except Unsupported as ue:
                        # the clause is not even defined on the value produced (e.g. result[2] of a 2-tuple):
                        # it does not hold
                        if "index out of range in spec" not in str(ue) and "missing key in spec" not in str(ue):
                            raise
                        goal = F()
                        info = {"clause": c.ensures_src[k] + f"   [undefined on the produced result: {ue}]"}
                    ctx.oblige("ensures", f"{key}/{tag}ensures[{k}]", goal, info)
                frame_obligations(it, c, key, tag, _with_closure(vals, closure_env), old, False)
                # every completed path is evidence against vacuity
                ctx.oblige("canary", f"{key}/{tag}canary", F(), {"clause": "False (must be refuted)"})
                return outcome

            if parallel:
                workers, finish = parallel
                obs = ex.explore(run_one, stop_when=lambda pending, done: pending >= 2 * workers or (done >= 24 and pending >= 2))
                if ex.pending:
                    run.remote += _explore_children(ex, run_one, ex.pending, workers, finish, budget)
            else:
                obs = ex.explore(run_one)
            run.obligations += obs
            run.paths += ex.paths
            run.terminals += len(ex.terminals)
            run.solver_calls += ex.solver_calls
            run.assumption_origins |= ex.origins
            if ex.false_assumes:
                raise Unsupported(f"assumption evaluated to constant False (contract/type mismatch?): {ex.false_assumes[:3]}")
    except (Unsupported, Budget, ExtractError) as e:
        run.error = f"{type(e).__name__}: {e}"
    except RecursionError as e:
        run.error = f"RecursionError: {e}"
    run.gen_s = time.time() - t0
    return run


def _explore_children(ex, run_one, pending, workers, finish, budget):
    """fork `workers` children over the pending prefixes; returns their result dicts"""
    import multiprocessing as mp
    ctx = mp.get_context("fork")
    chunks = [pending[i::workers] for i in range(workers)]
    chunks = [c for c in chunks if c]
    procs = []
    for chunk in chunks:
        parent, child = ctx.Pipe(duplex=False)

        def work(conn, chunk=chunk):
            res = {"records": [], "canary": 0, "paths": 0, "solver_calls": 0, "origins": [], "error": None}
            try:
                sub = Explorer(**(budget or {}))
                obs = sub.explore(run_one, work=chunk)
                res["paths"] = sub.paths
                res["solver_calls"] = sub.solver_calls
                res["origins"] = sorted(sub.origins)
                if sub.false_assumes:
                    res["error"] = f"Unsupported: assumption evaluated to constant False: {sub.false_assumes[:3]}"
                fin = finish(obs)
                res["records"] = fin["records"]
                res["canary"] = fin["canary"]
            except (Unsupported, Budget, ExtractError) as e:
                res["error"] = f"{type(e).__name__}: {e}"
            except BaseException as e:  # noqa: BLE001
                res["error"] = "crash: " + repr(e)
                res["traceback"] = traceback.format_exc()
            try:
                conn.send(res)
            finally:
                conn.close()
                os._exit(0)

        p = ctx.Process(target=work, args=(child,))
        p.start()
        child.close()
        procs.append((p, parent))
    ex._children = procs
    return procs


def collect_children(procs, deadline):
    out = []
    for p, conn in procs:
        left = max(1.0, deadline - time.time()) if deadline else None
        res = None
        if conn.poll(left):
            try:
                res = conn.recv()
            except EOFError:
                res = None
        if res is None:
            p.kill()
            res = {"records": [], "canary": 0, "paths": 0, "solver_calls": 0, "origins": [],
                   "error": "Budget: a path-exploration worker gave no answer in time (killed)"}
        p.join(2)
        out.append(res)
    return out


def _unchanged(cur, old):
    """z3 Bool 'cur equals the pre-state value old', or None if that is syntactically evident"""
    from .values import VList, VDict, VSet, VByteArray, VObj, VOpt
    from . import ops as _ops
    if isinstance(cur, VObj) or isinstance(old, VObj):
        return None if (isinstance(cur, VObj) and isinstance(old, VObj) and cur.id == old.id) else F()
    if isinstance(cur, VList) and isinstance(old, VList):
        if cur.concrete and old.concrete:
            if len(cur.items) != len(old.items):
                return F()
            parts = [_unchanged(a, b) for a, b in zip(cur.items, old.items)]
            parts = [x for x in parts if x is not None]
            return z3.And(parts) if parts else None
        if not cur.concrete and not old.concrete:
            if cur.length is old.length and all(a is b or a.eq(b) for a, b in zip(cur.arrs, old.arrs)):
                return None
            return _ops.list_eq(cur, old)
        return _ops.eq(cur, old)
    if isinstance(cur, VByteArray) and isinstance(old, VByteArray):
        return None if cur.z.eq(old.z) else cur.z == old.z
    if isinstance(cur, VDict) and isinstance(old, VDict):
        if cur.concrete and old.concrete:
            if set(cur.items) != set(old.items):
                return F()
            parts = [_unchanged(cur.items[k], old.items[k]) for k in cur.items]
            parts = [x for x in parts if x is not None]
            return z3.And(parts) if parts else None
        if not cur.concrete and not old.concrete:
            if cur.present.eq(old.present) and all(a.eq(b) for a, b in zip(cur.arrs, old.arrs)):
                return None
            return z3.And([cur.present == old.present] + [a == b for a, b in zip(cur.arrs, old.arrs)])
        return F()
    if isinstance(cur, VSet) and isinstance(old, VSet):
        if cur.arr is not None and old.arr is not None:
            return None if cur.arr.eq(old.arr) else cur.arr == old.arr
        if cur.items is not None and old.items is not None:
            return None if len(cur.items) == len(old.items) else F()
        return F()
    try:
        g = _ops.eq(cur, old)
    except Unsupported:
        return None
    g = z3.simplify(g)
    return None if z3.is_true(g) else g


def _with_closure(vals, closure_env):
    """arguments plus the variables of the enclosing scope (closures are verified against those too)"""
    if closure_env is None:
        return vals
    out = {k: v for k, v in closure_env.vars.items() if not k.startswith("__")}
    out.update(vals)
    return out


def frame_obligations(it, c, key, tag, vals, old, exceptional):
    """everything reachable from the arguments that the contract does not list as modified is unchanged"""
    from .callspec import reachable_lvalues
    from .values import VFunc, VBuiltin, VClass, VRegex, VModule
    if not c.modifies_declared:
        return
    allowed = c.raise_modifies if exceptional else c.modifies
    cur_l = dict(reachable_lvalues(vals))
    old_l = dict(reachable_lvalues(old))
    goals = []
    for path, ov in old_l.items():
        if any(path == m or path.startswith(m + ".") for m in allowed):
            continue
        if isinstance(ov, (VFunc, VBuiltin, VClass, VRegex, VModule)):
            continue
        cv = cur_l.get(path)
        if cv is None:
            goals.append((path, F()))
            continue
        g = _unchanged(cv, ov)
        if g is not None:
            goals.append((path, g))
    kind = "raise-frame" if exceptional else "frame"
    for path, g in goals:
        it.ctx.oblige("frame", f"{key}/{tag}{kind}[{path}]", g,
                      {"clause": f"{path} is not in {'raise_modifies' if exceptional else 'modifies'} {allowed}: unchanged"})


def _check_raise(it, sp, c, key, tag, pr, vals, closure_env):
    ctx = it.ctx
    frame_obligations(it, c, key, tag, _with_closure(vals, closure_env), it.old_env, True)
    chain = class_chain(getattr(pr.exc, "clsinfo", None) or pr.exc.cls)
    env1 = Env(closure_env or Env(None, {"__module__": it._target_mod}), dict(vals))
    env1.vars["exc"] = pr.exc
    for allowed, cond in c.raises.items():
        if allowed in chain or allowed.split(".")[-1] in chain:
            ctx.oblige("raises", f"{key}/{tag}raises[{allowed}]", truthy(sp.eval(cond, env1)),
                       {"clause": f"{allowed} only if {c.raises_src[allowed]}", "line": pr.line})
            for k, e in enumerate(c.raises_ensures.get(allowed, [])):
                ctx.oblige("raises-ensures", f"{key}/{tag}raises-ensures[{allowed}][{k}]",
                           truthy(sp.eval(e, env1)), {"clause": c.raises_ensures_src[allowed][k], "line": pr.line})
            ctx.oblige("canary", f"{key}/{tag}canary", F(), {"clause": "False (must be refuted)"})
            return
    if c.allow_any_raise:
        return
    ctx.oblige("raises", f"{key}/{tag}raises[unexpected]", F(),
               {"clause": f"no {pr.exc.cls} may escape (raised at line {pr.line})", "line": pr.line,
                "exc": pr.exc.cls})


# --------------------------------------------------------------------------
# discharge

def _smt2(pc, neg_goal):
    s = z3.Solver()
    for f in pc:
        s.add(f)
    s.add(neg_goal)
    return s.to_smt2()


def run_cvc5(smt2, timeout_s):
    txt = "(set-logic ALL)\n" + smt2
    with tempfile.NamedTemporaryFile("w", suffix=".smt2", delete=False) as f:
        f.write(txt)
        path = f.name
    try:
        p = subprocess.run([CVC5, "--strings-exp", f"--tlimit={int(timeout_s * 1000)}", path],
                           capture_output=True, text=True, timeout=timeout_s + 5)
        out = p.stdout.strip().splitlines()
        return out[0] if out else "unknown"
    except subprocess.TimeoutExpired:
        return "unknown"
    finally:
        os.unlink(path)


def _z3_try(ob, timeout_s, seed=0):
    s = z3.Solver()
    s.set("timeout", int(timeout_s * 1000))
    if seed:
        s.set("random_seed", seed)
    for f in ob.pc:
        s.add(f)
    s.add(z3.Not(ob.goal))
    r = timed_check(s, timeout_s + 0.5)
    return r, s


def _expand_quantifiers(f, K, ranges, env=None, depth=0):
    """replace every range quantifier built by the executor (bound-variable names are recorded in
    symex.QRANGES with their lo/hi) by the finite conjunction / disjunction of its body at 0..K-1.  The side
    conditions 0 <= lo and hi <= K under which this is an equivalence are collected in `ranges`."""
    from .symex import QRANGES
    env = env or []
    if depth > 8:
        return f
    if z3.is_quantifier(f):
        if f.num_vars() == 1 and f.var_sort(0) == z3.IntSort() and f.var_name(0) in QRANGES:
            name = f.var_name(0)
            lo, hi = QRANGES[name]
            insts = []
            for k in range(K):
                kv = z3.IntVal(k)
                env2 = env + [(z3.Int(name), kv)]
                inst = z3.substitute_vars(f.body(), kv)
                insts.append(_expand_quantifiers(inst, K, ranges, env2, depth + 1))
                glo = z3.substitute(lo, *env2) if env2 else lo
                ghi = z3.substitute(hi, *env2) if env2 else hi
                ranges.append(z3.And(glo >= 0, ghi <= K))
            return z3.And(*insts) if f.is_forall() else z3.Or(*insts)
        return f
    if z3.is_app(f) and f.num_args() > 0:
        args = [_expand_quantifiers(a, K, ranges, env, depth) for a in f.children()]
        try:
            return f.decl()(*args)
        except Exception:  # noqa: BLE001
            return f
    return f


def bounded_refute(ob, timeout_s, K=2):
    """An `unknown` obligation is re-asked on a bounded sub-domain: every integer range quantified over lies
    in [0, K) (in particular lists have at most K elements), where the quantifiers become finite conjunctions.
    A model found there is a genuine counterexample of the original VC; finding none proves nothing."""
    ranges = []
    try:
        pc = [_expand_quantifiers(f, K, ranges) for f in ob.pc]
        goal = _expand_quantifiers(ob.goal, K, ranges)
    except Exception:  # noqa: BLE001
        return None
    if not ranges:
        return None
    s = z3.Solver()
    s.set("timeout", int(timeout_s * 1000))
    for f in pc:
        s.add(f)
    for r in ranges:
        s.add(r)
    s.add(z3.Not(goal))
    r = timed_check(s, timeout_s)
    if r == z3.sat:
        # only a model that is consistent with CPython at its own strings counts
        rr, m = refine_model(ob, s, timeout_s=min(5.0, timeout_s), formulas=pc + [goal])
        return m if rr == "sat" else None
    return None


def _native_uf():
    """native meaning of the abstract stdlib functions of the encoding, where it is unambiguous"""
    import sys as _sys

    def int_ok(s, b):
        try:
            int(s, b)
            return len(s) <= _sys.get_int_max_str_digits() or b in (2, 4, 8, 16, 32)
        except ValueError:
            return False

    def float_ok(s):
        try:
            float(s)
            return True
        except ValueError:
            return False
    ascii_only = lambda s: all(ord(c) < 128 for c in s)      # noqa: E731 - str/bytes methods agree on ASCII

    def as_bytes(s):
        return s.encode("latin-1") if all(ord(c) < 256 for c in s) else None

    def dec_ok(b, codec):
        raw = as_bytes(b)
        if raw is None:
            return None
        try:
            raw.decode(codec)
            return True
        except UnicodeDecodeError:
            return False
        except LookupError:
            return None

    def dec(b, codec, errors):
        raw = as_bytes(b)
        if raw is None:
            return None
        try:
            return raw.decode(codec, errors)
        except (UnicodeDecodeError, LookupError):
            return None

    def enc_ok(t, codec):
        try:
            t.encode(codec)
            return True
        except UnicodeEncodeError:
            return False
        except (LookupError, UnicodeError):
            return None

    def enc(t, spec):
        codec, _, errors = spec.partition(":")
        try:
            return t.encode(codec, errors or "strict").decode("latin-1")
        except (UnicodeError, LookupError):
            return None
    return {
        "py_decode_ok": dec_ok, "py_decode": dec, "py_encode_ok": enc_ok, "py_encode": enc,
        "py_int_ok": (lambda s, b: int_ok(s, b) if 2 <= b <= 36 else None),
        "py_int_val": (lambda s, b: int(s, b) if 2 <= b <= 36 and int_ok(s, b) else None),
        "py_float_ok": lambda s: float_ok(s),
        # ASCII: str and bytes agree; a code point above 255 can only be in a str; 128..255 alone is ambiguous
        # (Latin-1 letters: str.lower() and bytes.lower() differ; taken as text -- such a fact only steers the search
        #  for a counterexample, it is never used to close a proof: see `steering` in refine_model)
        "py_lower": lambda s: s.lower(),
        "py_upper": lambda s: s.upper(),
    }


def _collect_apps(formulas, names):
    out, seen, stack = [], set(), list(formulas)
    while stack:
        x = stack.pop()
        i = x.get_id()
        if i in seen:
            continue
        seen.add(i)
        if z3.is_quantifier(x):
            continue        # applications under a binder are not ground
        if z3.is_app(x):
            if x.decl().name() in names and x.num_args() > 0:
                out.append(x)
            stack.extend(x.children())
    return out


def _collect_decls(formulas, names):
    out, seen, stack = {}, set(), list(formulas)
    while stack:
        x = stack.pop()
        i = x.get_id()
        if i in seen:
            continue
        seen.add(i)
        if z3.is_quantifier(x):
            stack.append(x.body())
            continue
        if z3.is_app(x):
            if x.decl().name() in names and x.num_args() > 0:
                out[x.decl().name()] = x.decl()
            stack.extend(x.children())
    return list(out.values())


def _string_consts(formulas):
    out, seen, stack = {}, set(), list(formulas)
    while stack:
        x = stack.pop()
        i = x.get_id()
        if i in seen:
            continue
        seen.add(i)
        if z3.is_quantifier(x):
            stack.append(x.body())
            continue
        if z3.is_const(x) and x.decl().kind() == z3.Z3_OP_UNINTERPRETED and x.sort() == z3.StringSort():
            out[x.decl().name()] = x
        elif z3.is_app(x):
            if x.decl().kind() == z3.Z3_OP_UNINTERPRETED and x.sort() == z3.StringSort() and not _has_var(x):
                out[x.sexpr()] = x       # the (ground) result of an abstract function: also text we may choose
            stack.extend(x.children())
    return list(out.values())


def _has_var(x):
    stack, seen = [x], set()
    while stack:
        y = stack.pop()
        if y.get_id() in seen:
            continue
        seen.add(y.get_id())
        if z3.is_var(y):
            return True
        stack.extend(y.children())
    return False


def refine_model(ob, s, rounds=8, timeout_s=5.0, formulas=None):
    """wrapper: the refinement first looks for a counterexample inside a restricted language (text without upper-case
    letters, then printable text).  `sat` found there is a genuine model; `unsat` found there says nothing about the VC
    (the restriction may have excluded every counterexample -- e.g. one that needs an upper-case letter), so an `unsat`
    answer is only returned when the UNRESTRICTED query is unsat as well.  (Until the fourth session the restricted
    `unsat` was returned as a proof: seed C17-6, whose counterexample needs `item` with an upper-case letter, verified.)"""
    fs = formulas if formulas is not None else list(ob.pc) + [ob.goal]
    try:
        consts = _string_consts(fs)
    except Exception:  # noqa: BLE001
        consts = []
    lowerp = z3.Star(z3.Union(z3.Range(" ", "@"), z3.Range("[", "~")))
    printable = z3.Star(z3.Range(" ", "~"))
    langs = ([lowerp, printable] if consts else []) + [None]
    base = list(s.assertions())
    last = "unknown"
    for lang in langs:
        s2 = z3.Solver()
        s2.set("timeout", int(timeout_s * 1000))
        for f in base:
            s2.add(f)
        if lang is not None:
            for c in consts:
                s2.add(z3.InRe(c, lang))
        r = timed_check(s2, timeout_s)
        if r == z3.unsat:
            if lang is None:
                return "unsat", None
            continue                      # no counterexample in this language: says nothing about the VC
        if r != z3.sat:
            continue
        verdict, m = _refine_model(ob, s2, rounds, timeout_s, formulas, restrict=False)
        if verdict == "sat":
            return verdict, m             # a model found under an extra restriction is still a model
        if verdict == "unsat" and lang is None:
            return "unsat", None
        last = "unknown"
    return last, None


def _refine_model(ob, s, rounds=8, timeout_s=5.0, formulas=None, restrict=True):
    """A model may give the abstract stdlib functions (int(), float(), lower() ...) values that CPython does not
    give them at the model's own strings.  Such a model is not a counterexample.  Add the true ground facts at those
    points and ask again (counterexample-guided refinement; every added fact is a fact about CPython).
    Returns ('sat', model) with a consistent model, ('unsat', None) if the facts close the goal, ('unknown', None)."""
    nat = _native_uf()
    formulas = formulas if formulas is not None else list(ob.pc) + [ob.goal]
    apps = _collect_apps(formulas, set(nat))
    decls = _collect_decls(formulas, set(nat))
    if not apps and not decls:
        return "sat", s.model()
    # search heuristic: look for a counterexample made of printable ASCII text first -- there the abstract functions are
    # pinned down by the general facts above and a few ground points, instead of an endless chase through exotic code
    # points (a model found under an extra restriction is still a model)
    try:
        consts = _string_consts(formulas) if restrict else []
        if consts:
            s2 = z3.Solver()
            s2.set("timeout", int(timeout_s * 1000))
            for f in s.assertions():
                s2.add(f)
            # ... first without upper-case letters (lower() is then the identity by the general fact), then any printable
            lowerp = z3.Star(z3.Union(z3.Range(" ", "@"), z3.Range("[", "~")))
            printable = z3.Star(z3.Range(" ", "~"))
            for lang in (lowerp, printable):
                s2 = z3.Solver()
                s2.set("timeout", int(timeout_s * 1000))
                for f in s.assertions():
                    s2.add(f)
                for c in consts:
                    s2.add(z3.InRe(c, lang))
                if timed_check(s2, timeout_s) == z3.sat:
                    s = s2
                    break
    except Exception:  # noqa: BLE001
        pass
    # general true facts first (they let the solver pick easy points): ASCII text without upper-case letters is its
    # own lower(), without lower-case letters its own upper()
    asc = z3.Range(chr(0), chr(127))
    no_up = z3.Star(z3.Intersect(asc, z3.Complement(z3.Range("A", "Z")))) if hasattr(z3, "Intersect") else None
    no_lo = z3.Star(z3.Intersect(asc, z3.Complement(z3.Range("a", "z")))) if hasattr(z3, "Intersect") else None
    pre = []
    for app in apps:
        nm = app.decl().name()
        if nm == "py_lower" and no_up is not None:
            pre.append(z3.Implies(z3.InRe(app.arg(0), no_up), app == app.arg(0)))
        elif nm == "py_upper" and no_lo is not None:
            pre.append(z3.Implies(z3.InRe(app.arg(0), no_lo), app == app.arg(0)))
    # ... and the single ASCII letters (true ground facts; they keep the search from walking through the alphabet one
    # wrong guess per round)
    seen_decl = set()
    for app in apps:
        d = app.decl()
        if d.name() in ("py_lower", "py_upper") and d.name() not in seen_decl and d.arity() == 1:
            seen_decl.add(d.name())
            for ch in "ABCDEFGHIJKLMNOPQRSTUVWXYZ":
                if d.name() == "py_lower":
                    pre.append(d(z3.StringVal(ch)) == z3.StringVal(ch.lower()))
                else:
                    pre.append(d(z3.StringVal(ch.lower())) == z3.StringVal(ch))
    if pre:
        m0 = s.model()
        if not all(z3.is_true(m0.eval(f, model_completion=True)) for f in pre):
            for f in pre:
                s.add(f)
            r = timed_check(s, timeout_s)
            if r == z3.unsat:
                return "unsat", None
            if r != z3.sat:
                return "unknown", None
    steering = [False]

    def _ambiguous(name, py):
        return name in ("py_lower", "py_upper") and any(128 <= ord(c) < 256 for c in py[0])
    for _ in range(rounds):
        m = s.model()
        facts = []
        for app in apps:
            args = [m.eval(a, model_completion=True) for a in app.children()]
            py = []
            for a in args:
                if z3.is_string_value(a):
                    py.append(ops._z3str(a))
                elif z3.is_int_value(a):
                    py.append(a.as_long())
                else:
                    py = None
                    break
            if py is None:
                continue
            try:
                real = nat[app.decl().name()](*py)
            except Exception:  # noqa: BLE001
                real = None
            if real is None:
                continue
            cur = m.eval(app, model_completion=True)
            if isinstance(real, bool):
                ok = z3.is_true(cur) == real
                tv = z3.BoolVal(real)
            elif isinstance(real, int):
                ok = z3.is_int_value(cur) and cur.as_long() == real
                tv = z3.IntVal(real)
            else:
                ok = z3.is_string_value(cur) and ops._z3str(cur) == real
                tv = z3.StringVal(real)
            if not ok:
                facts.append(app.decl()(*args) == tv)
                if _ambiguous(app.decl().name(), py):
                    steering[0] = True
        # applications under binders (quantified clauses over list elements): the points at which the model itself
        # interprets the function
        for d in decls:
            fi = m.get_interp(d)
            if fi is None or not hasattr(fi, "as_list"):
                continue
            for entry in fi.as_list()[:-1]:
                args, cur = entry[:-1], entry[-1]
                py = []
                for a in args:
                    if z3.is_string_value(a):
                        py.append(ops._z3str(a))
                    elif z3.is_int_value(a):
                        py.append(a.as_long())
                    else:
                        py = None
                        break
                if py is None:
                    continue
                try:
                    real = nat[d.name()](*py)
                except Exception:  # noqa: BLE001
                    real = None
                if real is None:
                    continue
                if isinstance(real, bool):
                    ok, tv = (z3.is_true(cur) == real), z3.BoolVal(real)
                elif isinstance(real, int):
                    ok, tv = (z3.is_int_value(cur) and cur.as_long() == real), z3.IntVal(real)
                else:
                    ok, tv = (z3.is_string_value(cur) and ops._z3str(cur) == real), z3.StringVal(real)
                if not ok:
                    facts.append(d(*args) == tv)
                    if _ambiguous(d.name(), py):
                        steering[0] = True
        if not facts:
            return "sat", m
        if os.environ.get("PYVC_DEBUG_REFINE"):
            print("REFINE round: adding", [str(f)[:120] for f in facts], flush=True)
        for f in facts:
            s.add(f)
        r = timed_check(s, timeout_s)
        if os.environ.get("PYVC_DEBUG_REFINE"):
            print("REFINE ->", r, flush=True)
        if r == z3.unsat:
            return ("unknown" if steering[0] else "unsat"), None
        if r != z3.sat:
            return "unknown", None
    return "unknown", None


def discharge_one(ob, timeout_s=10.0, use_cvc5=True, stage="all"):
    """returns dict(verdict, backend, time, model).  Strategy: z3 with a short budget (most
    VCs take milliseconds); if it gives up, cvc5 --strings-exp with the full budget; then z3
    again with the full budget and another seed (z3's sequence solver is unstable on
    identical input, cvc5 decides most of what it leaves open)."""
    t0 = time.time()
    goal = ob.goal
    if z3.is_true(goal):
        return {"verdict": "proved", "backend": "simplifier", "time": 0.0}
    if stage == "slow":
        # second pass: the fast stages have been tried (and gave up) already
        s = z3.Solver()
        for f in ob.pc:
            s.add(f)
        s.add(z3.Not(ob.goal))
        reason = "timeout"
        return _discharge_slow(ob, s, timeout_s, use_cvc5, t0, reason)
    r, s = _z3_try(ob, min(2.0, timeout_s))
    if r == z3.unsat:
        return {"verdict": "proved", "backend": "z3", "time": time.time() - t0}
    if r == z3.sat:
        s.set("timeout", int(min(5.0, timeout_s) * 1000))
        rr, m = refine_model(ob, s, timeout_s=min(5.0, timeout_s))
        if rr == "sat":
            return {"verdict": "refuted", "backend": "z3", "time": time.time() - t0, "model": m}
        if rr == "unsat":
            return {"verdict": "proved", "backend": "z3 + ground facts about int()/float()/lower() at the model's strings",
                    "time": time.time() - t0}
        return {"verdict": "unknown", "backend": "z3", "time": time.time() - t0,
                "reason": "the only models found give int()/float()/lower() values CPython does not give them"}
    reason = s.reason_unknown()
    smt2 = None
    if use_cvc5 and os.path.exists(CVC5):
        # cvc5 with a short budget first: it closes most of what z3's sequence solver leaves open within seconds
        try:
            smt2 = s.to_smt2()
            if run_cvc5(smt2, min(3.0, timeout_s)) == "unsat":
                return {"verdict": "proved", "backend": "cvc5", "time": time.time() - t0}
        except Exception:  # noqa: BLE001
            pass
    # then a cheap look for a small counterexample (genuine if found): broken code is reported in seconds instead of
    # after every prover has used up its budget
    m = bounded_refute(ob, min(5.0, timeout_s), 2)
    if m is not None:
        return {"verdict": "refuted", "backend": "z3 (quantifiers expanded on ranges within [0,2))",
                "time": time.time() - t0, "model": m}
    if stage == "fast":
        return {"verdict": "unknown", "backend": "z3+cvc5", "time": time.time() - t0, "reason": reason, "pending": True}
    return _discharge_slow(ob, s, timeout_s, use_cvc5, t0, reason)


def _discharge_slow(ob, s, timeout_s, use_cvc5, t0, reason):
    if use_cvc5 and os.path.exists(CVC5):
        try:
            r2 = run_cvc5(s.to_smt2(), timeout_s)
        except Exception:  # noqa: BLE001
            r2 = "unknown"
        if r2 == "unsat":
            return {"verdict": "proved", "backend": "cvc5", "time": time.time() - t0}
        if r2 == "sat":
            # get a model from z3 if it can find one, else report without inputs
            r3, s3 = _z3_try(ob, timeout_s, seed=7)
            m = s3.model() if r3 == z3.sat else None
            return {"verdict": "refuted", "backend": "cvc5", "time": time.time() - t0, "model": m}
    # the first attempt had a short budget (it may simply have been starved on a busy machine): the same query with
    # the full budget, then another seed
    # ... and once in a fresh z3 context built from the SMT-LIB text: z3's heuristics depend on the internal ids of
    # the terms, i.e. on everything this process has solved before; the verdict should depend on the VC only
    try:
        c2 = z3.Context()
        s2 = z3.Solver(ctx=c2)
        s2.set("timeout", int(timeout_s * 1000))
        s2.from_string(s.to_smt2())
        if timed_check(s2, timeout_s + 0.5) == z3.unsat:
            return {"verdict": "proved", "backend": "z3 (fresh context)", "time": time.time() - t0}
    except Exception:  # noqa: BLE001
        pass
    for seed in (0, 7):
        r, s = _z3_try(ob, timeout_s, seed=seed)
        if r == z3.unsat:
            return {"verdict": "proved", "backend": "z3", "time": time.time() - t0}
        if r == z3.sat:
            rr, m = refine_model(ob, s, timeout_s=min(5.0, timeout_s))
            if rr == "sat":
                return {"verdict": "refuted", "backend": "z3", "time": time.time() - t0, "model": m}
            if rr == "unsat":
                return {"verdict": "proved", "backend": "z3 + ground facts about int()/float()/lower() at the model's strings",
                        "time": time.time() - t0}
    for K in (2, 3):
        m = bounded_refute(ob, timeout_s, K)
        if m is not None:
            return {"verdict": "refuted", "backend": f"z3 (quantifiers expanded on ranges within [0,{K}))",
                    "time": time.time() - t0, "model": m}
    return {"verdict": "unknown", "backend": "z3+cvc5", "time": time.time() - t0, "reason": reason}


# --------------------------------------------------------------------------
# models -> python inputs

def _zstr(v):
    return ops._z3str(v)


def concretize(v, model):
    """python value of a symbolic value under a z3 model (model completion on)"""
    def ev(z):
        return model.eval(z, model_completion=True)

    if isinstance(v, VNone):
        return None
    if isinstance(v, VBool):
        return z3.is_true(ev(v.z))
    if isinstance(v, VInt):
        r = ev(v.z)
        return r.as_long() if z3.is_int_value(r) else 0
    if isinstance(v, VFloat):
        r = ev(v.z)
        try:
            return float(r.as_fraction())
        except Exception:  # noqa: BLE001
            return 0.0
    if isinstance(v, VStr):
        r = ev(v.z)
        s = _zstr(r) if z3.is_string_value(r) else ""
        if v.kind == "bytes":
            return s.encode("latin-1", "replace")
        return s
    if isinstance(v, VOpt):
        if z3.is_true(ev(v.isnone)):
            return None
        return concretize(v.val, model)
    if isinstance(v, VTuple):
        return tuple(concretize(x, model) for x in v.items)
    if isinstance(v, VByteArray):
        r = ev(v.z)
        s = _zstr(r) if z3.is_string_value(r) else ""
        return {"__kind__": "memoryview" if v.fixed else "bytearray", "data": s.encode("latin-1", "replace")}
    if isinstance(v, VList):
        if v.concrete:
            return [concretize(x, model) for x in v.items]
        n = ev(v.length)
        n = n.as_long() if z3.is_int_value(n) else 0
        n = max(0, min(n, 20000))
        if n <= 64:
            return [concretize(ops.list_get(v, z3.IntVal(i)), model) for i in range(n)]
        # a long list: the model defines a few positions explicitly, all the others share the arrays' default
        pts = set()
        for a in v.arrs:
            for kz in _array_points(model, a):
                if z3.is_int_value(kz) and 0 <= kz.as_long() < n:
                    pts.add(kz.as_long())
        free = next(i for i in range(n) if i not in pts)
        dflt = concretize(ops.list_get(v, z3.IntVal(free)), model)
        out = [dflt] * n
        for i in pts:
            out[i] = concretize(ops.list_get(v, z3.IntVal(i)), model)
        return out
    if isinstance(v, VObj):
        d = {"__class__": v.pytype}
        for k, x in v.fields.items():
            if k.startswith("__") and k not in ("__dict__", "__list__"):
                continue
            try:
                d[k] = concretize(x, model)
            except Exception:  # noqa: BLE001
                d[k] = "<?>"
        return d
    if isinstance(v, VOpaque):
        return f"<opaque {v.kind} {ev(v.z)}>"
    if isinstance(v, VSet):
        return "<set>"
    if isinstance(v, VDict):
        if v.concrete:
            return {str(k[1]): concretize(x, model) for k, x in v.items.items()}
        # symbolic dict: the keys at which the model's `present` array (and the value arrays) are defined explicitly
        from .values import unflatten as _unflatten
        keys = {}
        for arr in [v.present] + list(v.arrs):
            for kz in _array_points(model, arr):
                keys[kz.sexpr()] = kz
        # ... and every scalar of the key sort the model mentions (a constant `present` array names no key)
        ksort = v.present.sort().domain()
        try:
            for dcl in model.decls():
                if dcl.arity() == 0 and dcl.range() == ksort:
                    kz = model[dcl]
                    if z3.is_string_value(kz) or z3.is_int_value(kz):
                        keys[kz.sexpr()] = kz
        except Exception:  # noqa: BLE001
            pass
        if not keys:
            # nothing named: the model does not care which key; the empty string / zero is as good as any
            kz0 = z3.StringVal("") if ksort == z3.StringSort() else z3.IntVal(0)
            keys[kz0.sexpr()] = kz0
        out = {}
        for kz in keys.values():
            if z3.is_true(ev(z3.Select(v.present, kz))):
                kk = _zstr(kz) if z3.is_string_value(kz) else (kz.as_long() if z3.is_int_value(kz) else str(kz))
                out[kk] = concretize(_unflatten(v.shape, [z3.Select(a, kz) for a in v.arrs]), model)
        return out
    return f"<{type(v).__name__}>"


def _array_points(model, arr):
    """index values at which the model defines an array explicitly (Store chains, function interpretations)"""
    out, stack, seen = [], [model.eval(arr, model_completion=True)], set()
    while stack:
        x = stack.pop()
        if x.get_id() in seen:
            continue
        seen.add(x.get_id())
        if z3.is_app(x) and x.decl().kind() == z3.Z3_OP_STORE:
            out.append(x.arg(1))
            stack.append(x.arg(0))
        elif z3.is_app(x) and x.decl().kind() == z3.Z3_OP_AS_ARRAY:
            fi = model.get_interp(z3.get_as_array_func(x))
            if fi is not None and hasattr(fi, "as_list"):
                for entry in fi.as_list()[:-1]:
                    out.append(entry[0])
        elif z3.is_quantifier(x) and x.is_lambda():
            # lambda k. ite(k == c, ...): the constants compared with the bound variable
            for c in _eq_consts(x.body()):
                out.append(c)
    return [o for o in out if z3.is_string_value(o) or z3.is_int_value(o)]


def _eq_consts(body):
    out, stack, seen = [], [body], set()
    while stack:
        x = stack.pop()
        if x.get_id() in seen:
            continue
        seen.add(x.get_id())
        if z3.is_eq(x):
            a, b = x.arg(0), x.arg(1)
            if z3.is_var(a) and (z3.is_string_value(b) or z3.is_int_value(b)):
                out.append(b)
            elif z3.is_var(b) and (z3.is_string_value(a) or z3.is_int_value(a)):
                out.append(a)
        if z3.is_app(x):
            stack.extend(x.children())
    return out


def jsonable(x):
    if isinstance(x, bytes):
        return {"__bytes__": x.decode("latin-1")}
    if isinstance(x, tuple):
        return {"__tuple__": [jsonable(i) for i in x]}
    if isinstance(x, list):
        return [jsonable(i) for i in x]
    if isinstance(x, dict):
        return {str(k): jsonable(v) for k, v in x.items()}
    if isinstance(x, float):
        return x
    return x


def unjson(x):
    if isinstance(x, dict):
        if "__bytes__" in x:
            return x["__bytes__"].encode("latin-1")
        if "__tuple__" in x:
            return tuple(unjson(i) for i in x["__tuple__"])
        return {k: unjson(v) for k, v in x.items()}
    if isinstance(x, list):
        return [unjson(i) for i in x]
    return x


# --------------------------------------------------------------------------

def _discharge_payload(ob, timeout_s, stage="all"):
    res = discharge_one(ob, timeout_s, stage=stage)
    m = res.pop("model", None)
    if m is not None:
        res["model_str"] = str(m)[:4000]
        if ob.inputs:
            try:
                res["inputs"] = jsonable({k: concretize(v, m) for k, v in ob.inputs.items()})
            except Exception as e:  # noqa: BLE001
                res["inputs_error"] = repr(e)
    return res


def discharge_all(obs, timeout_s, deadline=None):
    """discharge a list of obligations in a forked child that streams results back; the parent
    enforces a hard per-obligation deadline (z3's soft timeout is not always honoured): a child
    that goes silent is killed, the obligation it was working on is `unknown`, and a new child
    continues with the rest.  Returns a list of result dicts aligned with obs."""
    import multiprocessing as mp
    results = [None] * len(obs)
    todo = []
    for i, ob in enumerate(obs):
        if z3.is_true(ob.goal):
            results[i] = {"verdict": "proved", "backend": "simplifier", "time": 0.0}
        else:
            todo.append(i)
    ctx = mp.get_context("fork")
    per_ob = 8 * timeout_s + 20     # z3, bounded look, cvc5, fresh context, two seeds, bounded refuter K=2,3
    slow_only = set()               # obligations whose fast stages are done (survives a restart of the child)
    while todo:
        if deadline is not None and time.time() > deadline and not any(i not in slow_only for i in todo):
            for i in todo:
                results[i] = {"verdict": "unknown", "backend": "z3+cvc5", "time": 0.0,
                              "reason": "the fast provers gave no answer and the function's time budget was used up"}
            break
        parent, child = ctx.Pipe(duplex=False)

        def work(conn, todo=list(todo)):
            try:
                # first pass: the fast stages on every obligation (proofs in milliseconds, refutations in seconds);
                # second pass: the expensive provers on what is left, so that one hard obligation cannot starve the others
                later = []
                for i in todo:
                    if i in slow_only:
                        later.append(i)
                        continue
                    conn.send(("working", i))
                    try:
                        res = _discharge_payload(obs[i], timeout_s, stage="fast")
                    except BaseException as e:  # noqa: BLE001
                        res = {"verdict": "unknown", "backend": "error", "time": 0.0, "reason": repr(e)}
                    if res.pop("pending", False):
                        conn.send(("fast-done", i))
                        later.append(i)
                    else:
                        conn.send((i, res))
                for i in later:
                    conn.send(("working", i))
                    try:
                        conn.send((i, _discharge_payload(obs[i], timeout_s, stage="slow")))
                    except BaseException as e:  # noqa: BLE001
                        conn.send((i, {"verdict": "unknown", "backend": "error", "time": 0.0, "reason": repr(e)}))
            finally:
                conn.close()
                os._exit(0)

        p = ctx.Process(target=work, args=(child,))
        p.start()
        child.close()
        current = None
        while todo:
            t0 = time.time()
            got = None
            if parent.poll(per_ob):
                try:
                    got = parent.recv()
                except EOFError:
                    got = None
            if got is None:
                # silent or dead child: the obligation it was working on is undecided; a new child continues
                i = current if current in todo else todo[0]
                todo.remove(i)
                slow_only.discard(i)
                results[i] = {"verdict": "unknown", "backend": "z3+cvc5", "time": time.time() - t0,
                              "reason": "hard deadline / worker died"}
                break
            tag, val = got
            if tag == "working":
                current = val
                if deadline is not None and time.time() > deadline and val in slow_only:
                    # the function's time is up: nothing expensive is started any more
                    break
                continue
            if tag == "fast-done":
                slow_only.add(val)
                continue
            results[tag] = val
            todo.remove(tag)
            slow_only.discard(tag)
        p.kill()
        p.join(2)
        parent.close()
        if deadline is not None and time.time() > deadline:
            for i in todo:
                results[i] = {"verdict": "unknown", "backend": "z3+cvc5", "time": 0.0,
                              "reason": "the fast provers gave no answer and the function's time budget was used up"
                              if i in slow_only else "not attempted: the function's time budget was used up"}
            todo = []
    return results


def verify_lemma(reg, lem, timeout_s=10.0):
    """discharge a spec-level lemma (reg.lemma_spec)"""
    import ast as _ast
    t0 = time.time()
    key = "lemma:" + lem["name"]
    out = {"key": key, "error": None, "paths": 1, "fingerprint": None, "obligations": [], "canary_refuted": 1}
    try:
        ex = Explorer()
        obs = []

        def run_one(ctx):
            it = Interp(ctx, reg, True, key)
            env = Env(None, {})
            for nm, sh in lem["vars"].items():
                env.vars[nm] = it.fresh(sh, "lem." + nm)
            for k, a in enumerate(lem["assumes"]):
                ctx.assume(truthy(it.eval(_ast.parse(a.strip(), mode="eval").body, env)), f"lemma-hyp:{lem['name']}[{k}]")
            for h in lem["hints"]:
                it.eval(_ast.parse(h.strip(), mode="eval").body, env)
            for k, g in enumerate(lem["goals"]):
                ctx.oblige("lemma", f"{key}/goal[{k}]", truthy(it.eval(_ast.parse(g.strip(), mode="eval").body, env)),
                           {"clause": g})
            return "lemma"

        obs = ex.explore(run_one)
        for ob, res in zip(obs, discharge_all(obs, timeout_s)):
            rec = {"name": ob.label, "kind": ob.kind, "clause": ob.info.get("clause", ""), "line": 0, "path": "",
                   "verdict": res["verdict"], "backend": res["backend"], "time": round(res["time"], 4)}
            if res.get("model_str"):
                rec["model"] = res["model_str"]
            out["obligations"].append(rec)
    except (Unsupported, Budget) as e:
        out["error"] = f"{type(e).__name__}: {e}"
    out["wall_s"] = round(time.time() - t0, 3)
    return out


def _records(obs, timeout_s, deadline):
    """canary count + discharge of a list of obligations -> JSON-able records"""
    canary_refuted = 0
    real = []
    for ob in obs:
        if ob.kind == "canary":
            # vacuity guard: `False` must not be provable on this path, i.e. the path is feasible
            s = z3.Solver()
            s.set("timeout", 3000)
            for f in ob.pc:
                if not _has_quantifier(f):
                    s.add(f)
            r = timed_check(s, 3.0)
            if r != z3.unsat:
                canary_refuted += 1
            continue
        real.append(ob)
    recs = []
    for ob, res in zip(real, discharge_all(real, timeout_s, deadline)):
        rec = {
            "name": ob.label, "kind": ob.kind, "clause": ob.info.get("clause", ""), "line": ob.line,
            "path": "".join(str(d) for d in ob.path), "verdict": res["verdict"], "backend": res["backend"],
            "time": round(res["time"], 4),
        }
        if res["verdict"] == "refuted":
            if res.get("model_str"):
                rec["model"] = res["model_str"]
            if "inputs" in res:
                rec["inputs"] = res["inputs"]
            if "inputs_error" in res:
                rec["inputs_error"] = res["inputs_error"]
        if res["verdict"] == "unknown":
            rec["reason"] = res.get("reason", "")
        recs.append(rec)
    return {"records": recs, "canary": canary_refuted}


def verify_function(reg, key, timeout_s=10.0, budget=None, wall_budget_s=None, workers=None):
    """generate + discharge; returns a JSON-able dict"""
    t0 = time.time()
    deadline = t0 + wall_budget_s if wall_budget_s else None
    if workers is None:
        workers = int(os.environ.get("PYVC_PATH_WORKERS", "4"))
    par = (workers, lambda obs: _records(obs, timeout_s, deadline)) if workers and workers > 1 else None
    try:
        run = generate(reg, key, budget, parallel=par)
    except Exception as e:  # noqa: BLE001
        return {"key": key, "error": "crash: " + "".join(traceback.format_exception_only(type(e), e)).strip(),
                "traceback": traceback.format_exc(), "obligations": [], "paths": 0, "crash": True,
                "fingerprint": None, "wall_s": time.time() - t0}
    out = {"key": key, "error": run.error, "paths": run.paths, "fingerprint": run.fingerprint,
           "obligations": [], "solver_calls": run.solver_calls, "gen_s": round(run.gen_s, 3),
           "assumption_origins": sorted(run.assumption_origins)}
    local = _records(run.obligations, timeout_s, deadline)
    out["obligations"] = local["records"]
    out["canary_refuted"] = local["canary"]
    origins = set(run.assumption_origins)
    if run.remote:
        for res in collect_children(run.remote, (deadline + 9 * timeout_s + 30) if deadline else None):
            out["obligations"] += res["records"]
            out["canary_refuted"] += res["canary"]
            out["paths"] += res["paths"]
            out["solver_calls"] += res["solver_calls"]
            origins |= set(res.get("origins", []))
            if res.get("error") and not out["error"]:
                out["error"] = res["error"]
                if res.get("traceback"):
                    out["traceback"] = res["traceback"]
                    out["crash"] = True
    out["assumption_origins"] = sorted(origins)
    out["wall_s"] = round(time.time() - t0, 3)
    return out
