"""Native (CPython) evaluation of the same contract text: used to replay
counterexamples against the real code and by the bounded tier."""
from __future__ import annotations

import ast
import copy
import importlib
import os
import sys


def repo_src():
    return os.path.join(os.environ.get("VERIF_REPO", "/repo"), "src")


def import_real(relpath):
    """import the real module from $VERIF_REPO/src (fresh if VERIF_REPO differs from the installed one)"""
    src = repo_src()
    if sys.path[0] != src:
        sys.path.insert(0, src)
    dotted = relpath[:-3].replace("/", ".")
    if dotted.endswith(".__init__"):
        dotted = dotted[:-9]
    return importlib.import_module(dotted)


def resolve_real(key):
    relpath, qual = key.split(":")
    obj = import_real(relpath)
    for part in qual.split("."):
        obj = getattr(obj, part)
    return obj


def implies(a, b):
    return (not a) or bool(b)


def forall(lo, hi, f):
    return all(f(i) for i in range(lo, hi))


def exists(lo, hi, f, witness=None):
    # the witness is a proof hint over ghost state; it does not change the meaning
    return any(f(i) for i in range(lo, hi))


def _snap(x):
    if isinstance(x, memoryview):
        return bytes(x)
    try:
        return copy.deepcopy(x)
    except Exception:  # noqa: BLE001
        return x


class _OldRewriter(ast.NodeTransformer):
    def __init__(self):
        self.olds = []

    def visit_Call(self, node):
        if isinstance(node.func, ast.Name) and node.func.id == "old" and len(node.args) == 1:
            idx = len(self.olds)
            self.olds.append(node.args[0])
            return ast.Subscript(value=ast.Name(id="__old__", ctx=ast.Load()),
                                 slice=ast.Constant(value=idx), ctx=ast.Load())
        return self.generic_visit(node)


def re_in(s, pattern):
    import re
    if isinstance(s, (bytes, bytearray)):
        return re.fullmatch(pattern.encode("latin-1"), bytes(s)) is not None
    return re.fullmatch(pattern, s, re.ASCII) is not None


def idna_ok(s):
    try:
        s.encode("idna")
        return True
    except UnicodeError:
        return False


def idna(s):
    return s.encode("idna").decode("ascii") if idna_ok(s) else ""


def spec_namespace(reg):
    ns = {"implies": implies, "forall": forall, "exists": exists, "re_in": re_in, "str_to_int": int, "idna_ok": idna_ok, "idna": idna,
          "int_max_digits": lambda: __import__("sys").get_int_max_str_digits()}
    ns.update(getattr(reg, "native_specs", {}))
    for name, (sig, body) in list(getattr(reg, "defn_src", {}).items()) + list(reg.spec_src.items()):
        params = sig[sig.index("(") + 1: sig.rindex(")")]
        ns[name] = eval(f"lambda {params}: ({body})", ns)  # noqa: S307 - our own contract text
    return ns


class NativeContract:
    """evaluate requires / ensures / raises of a contract on real values"""

    def __init__(self, reg, c):
        self.reg = reg
        self.c = c
        self.ns = spec_namespace(reg)
        self.rw = _OldRewriter()
        self.ens = [self._compile(e) for e in c.ensures_src]
        self.req = [compile(ast.Expression(ast.parse(r.strip(), mode="eval").body), "<requires>", "eval")
                    for r in c.requires_src]
        self.raises = {k: self._compile(v) for k, v in c.raises_src.items()}
        self.raises_ens = {k: [self._compile(e) for e in v] for k, v in c.raises_ensures_src.items()}
        self.old_code = [compile(ast.fix_missing_locations(ast.Expression(o)), "<old>", "eval") for o in self.rw.olds]

    def _compile(self, src):
        tree = ast.parse(src.strip(), mode="eval")
        tree = self.rw.visit(tree)
        ast.fix_missing_locations(tree)
        return compile(tree, "<clause>", "eval")

    def check_call(self, fn, args, kwargs, names):
        """names: dict of clause-visible names -> real values (params, self, ghosts).
        Returns list of failure strings (empty = contract satisfied); None if requires is false."""
        ns = dict(self.ns)
        ns.update(names)
        self.errors = []
        for code in self.req:
            if not eval(code, ns):  # noqa: S307
                return None
        olds = []
        for code in self.old_code:
            try:
                olds.append(_snap(eval(code, ns)))  # noqa: S307
            except Exception as e:  # noqa: BLE001
                olds.append(e)
        ns["__old__"] = olds
        failures = []
        try:
            result = fn(*args, **kwargs)
        except BaseException as e:  # noqa: BLE001
            ns["exc"] = e
            mro = [k.__name__ for k in type(e).__mro__]
            for allowed, code in self.raises.items():
                if allowed.split(".")[-1] in mro:
                    try:
                        ok = eval(code, ns)  # noqa: S307
                    except Exception as e2:  # noqa: BLE001
                        self.errors.append(f"raises[{allowed}] condition could not be evaluated natively ({e2!r})")
                        ok = True
                    if not ok:
                        failures.append(f"raised {type(e).__name__} although its condition is false: {self.c.raises_src[allowed]}")
                    for k, code2 in enumerate(self.raises_ens.get(allowed, [])):
                        if not eval(code2, ns):  # noqa: S307
                            failures.append(f"raises-ensures[{allowed}][{k}] false: {self.c.raises_ensures_src[allowed][k]}")
                    return failures
            if self.c.allow_any_raise:
                return failures
            failures.append(f"unexpected {type(e).__name__}: {e!r}")
            return failures
        ns["result"] = result
        for k, code in enumerate(self.ens):
            try:
                ok = eval(code, ns)  # noqa: S307
            except Exception as e:  # noqa: BLE001
                self.errors.append(f"ensures[{k}] could not be evaluated natively ({type(e).__name__}: {e})")
                continue
            if not ok:
                failures.append(f"ensures[{k}] false: {self.c.ensures_src[k]} (result={result!r})")
        return failures


def build_object(reg, model, inp):
    """generic native realiser of an object model: the real class without running __init__, modelled fields set as
    attributes (nested models recursively); list / dict subclasses get their content from __list__ / __dict__"""
    if model is None:
        raise ValueError("no model")
    if model.cls is None:
        # a pure environment model (no real class): a plain namespace with the modelled fields
        import types
        from .values import ObjModel as _OM
        ns = types.SimpleNamespace()
        for name, val in inp.items():
            if name.startswith("__"):
                continue
            sub = model.fields.get(name)
            setattr(ns, name, build_object(reg, sub, val) if isinstance(sub, _OM) and isinstance(val, dict) else to_native(val))
        return ns
    relpath, cname = model.cls.split(":")
    cls = getattr(import_real(relpath), cname)
    if issubclass(cls, list):
        obj = list.__new__(cls)
        list.extend(obj, [to_native(x) for x in inp.get("__list__", [])])
    elif issubclass(cls, dict):
        obj = dict.__new__(cls)
        content = to_native(inp.get("__dict__", {}))
        if isinstance(content, dict):
            dict.update(obj, content)
    else:
        obj = object.__new__(cls)
    for name, val in inp.items():
        if name.startswith("__"):
            continue
        sub = model.fields.get(name)
        from .values import ObjModel
        if isinstance(sub, ObjModel) and isinstance(val, dict):
            val = build_object(reg, sub, val)
        else:
            val = to_native(val)
        try:
            object.__setattr__(obj, name, val)
        except Exception:  # noqa: BLE001
            pass
    return obj


def to_native(x):
    """concretized model value -> real python value"""
    if isinstance(x, dict) and x.get("__kind__") == "bytearray":
        return bytearray(x["data"])
    if isinstance(x, dict) and x.get("__kind__") == "memoryview":
        return memoryview(bytearray(x["data"]))
    if isinstance(x, list):
        return [to_native(i) for i in x]
    if isinstance(x, tuple):
        return tuple(to_native(i) for i in x)
    return x
