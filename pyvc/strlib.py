"""str / bytes methods (trusted encoding of CPython's behaviour)."""
from __future__ import annotations

import z3

from . import ops
from .ops import Unsupported, truthy, as_int, concrete_int, concrete_str, T, F, str_slice
from .values import NONE, VBool, VByteArray, VInt, VFloat, VList, VNone, VStr, VTuple, VBuiltin, StrS, IntS, BoolS

LOWER = z3.Function("py_lower", StrS, StrS)
UPPER = z3.Function("py_upper", StrS, StrS)
TITLE = z3.Function("py_title", StrS, StrS)
INT_OK = z3.Function("py_int_ok", StrS, IntS, BoolS)      # int(s, base) accepts
INT_VAL = z3.Function("py_int_val", StrS, IntS, IntS)     # its value
FLOAT_OK = z3.Function("py_float_ok", StrS, BoolS)
FLOAT_VAL = z3.Function("py_float_val", StrS, z3.RealSort())
ENC_OK = z3.Function("py_encode_ok", StrS, StrS, BoolS)     # (text, codec)
ENC = z3.Function("py_encode", StrS, StrS, StrS)
DEC_OK = z3.Function("py_decode_ok", StrS, StrS, BoolS)
DEC = z3.Function("py_decode", StrS, StrS, StrS, StrS)      # (bytes, codec, errors)


def _chars(s):
    return z3.Union(*[z3.Re(z3.StringVal(c)) for c in s]) if len(s) > 1 else z3.Re(z3.StringVal(s))


def _range(a, b):
    return z3.Range(z3.StringVal(a), z3.StringVal(b))


STR_WS = z3.Union(
    _range("\t", "\r"), _range("\x1c", "\x1f"), z3.Re(z3.StringVal(" ")), z3.Re(z3.StringVal("\x85")),
    z3.Re(z3.StringVal("\xa0")), z3.Re(z3.StringVal("\u1680")), _range("\u2000", "\u200a"),
    z3.Re(z3.StringVal("\u2028")), z3.Re(z3.StringVal("\u2029")), z3.Re(z3.StringVal("\u202f")),
    z3.Re(z3.StringVal("\u205f")), z3.Re(z3.StringVal("\u3000")),
)
BYTES_WS = z3.Union(_range("\t", "\r"), z3.Re(z3.StringVal(" ")))
ANY = z3.Full(z3.ReSort(StrS))
DIGIT = _range("0", "9")


def sv(s, kind):
    return VStr(z3.StringVal(s), kind)


def method(interp, s, name):
    fn = _METHODS.get(name)
    if fn is None:
        return None
    return VBuiltin(f"{s.kind}.{name}", fn, s)


def _other(it, s, v, n):
    v = it.need(v)
    if isinstance(v, VByteArray):
        v = VStr(v.z, "bytes")
    if not isinstance(v, VStr) or v.kind != s.kind:
        it.raise_("TypeError", node=n)
    return v


def _prefix_suffix(is_prefix):
    def f(it, a, k, n):
        s = a[0]
        p = it.need(a[1])
        if len(a) > 2:
            raise Unsupported("startswith with start/end")
        ps = p.items if isinstance(p, VTuple) else [p]
        zs = []
        for x in ps:
            x = _other(it, s, x, n)
            zs.append(z3.PrefixOf(x.z, s.z) if is_prefix else z3.SuffixOf(x.z, s.z))
        return VBool(z3.Or(zs) if len(zs) != 1 else zs[0])
    return f


def _remove_affix(is_prefix):
    def f(it, a, k, n):
        s = a[0]
        x = _other(it, s, a[1], n)
        ls, lx = z3.Length(s.z), z3.Length(x.z)
        if is_prefix:
            return VStr(z3.If(z3.PrefixOf(x.z, s.z), z3.SubString(s.z, lx, ls - lx), s.z), s.kind)
        return VStr(z3.If(z3.SuffixOf(x.z, s.z), z3.SubString(s.z, 0, ls - lx), s.z), s.kind)
    return f


def _find(it, a, k, n):
    s = a[0]
    sub = _other(it, s, a[1], n)
    start = as_int(it.need(a[2])) if len(a) > 2 else z3.IntVal(0)
    if len(a) > 3:
        raise Unsupported("find with end")
    start = ops.norm_index(start, z3.Length(s.z)) if len(a) > 2 else start
    return VInt(z3.IndexOf(s.z, sub.z, start))


def _rfind(it, a, k, n):
    s = a[0]
    sub = _other(it, s, a[1], n)
    if len(a) > 3:
        raise Unsupported("rfind with end")
    if len(a) > 2:
        # s.rfind(sub, start): the last occurrence that begins at or after the (normalised, clamped) start
        ln = z3.Length(s.z)
        st = ops.norm_index(as_int(it.need(a[2])), ln)
        st = z3.If(st > ln, ln, st)
        r = z3.LastIndexOf(z3.SubString(s.z, st, ln - st), sub.z)
        return VInt(z3.If(r < 0, z3.IntVal(-1), r + st))
    return VInt(z3.LastIndexOf(s.z, sub.z))


def _index(it, a, k, n):
    r = _find(it, a, k, n)
    if it.spec:
        return r
    if it.branch(r.z < 0, "str.index"):
        it.raise_("ValueError", node=n)
    return r


def _rindex(it, a, k, n):
    r = _rfind(it, a, k, n)
    if it.spec:
        return r
    if it.branch(r.z < 0, "str.rindex"):
        it.raise_("ValueError", node=n)
    return r


def _partition(it, a, k, n):
    s = a[0]
    sep = _other(it, s, a[1], n)
    if not it.spec and it.branch(z3.Length(sep.z) == 0, "partition-empty-sep"):
        it.raise_("ValueError", node=n)
    i = z3.IndexOf(s.z, sep.z, 0)
    found = i >= 0
    ln = z3.Length(s.z)
    head = z3.If(found, z3.SubString(s.z, 0, i), s.z)
    mid = z3.If(found, sep.z, z3.StringVal(""))
    tail = z3.If(found, z3.SubString(s.z, i + z3.Length(sep.z), ln), z3.StringVal(""))
    return VTuple([VStr(head, s.kind), VStr(mid, s.kind), VStr(tail, s.kind)])


def _rpartition(it, a, k, n):
    s = a[0]
    sep = _other(it, s, a[1], n)
    if not it.spec and it.branch(z3.Length(sep.z) == 0, "partition-empty-sep"):
        it.raise_("ValueError", node=n)
    i = z3.LastIndexOf(s.z, sep.z)
    found = i >= 0
    ln = z3.Length(s.z)
    head = z3.If(found, z3.SubString(s.z, 0, i), z3.StringVal(""))
    mid = z3.If(found, sep.z, z3.StringVal(""))
    tail = z3.If(found, z3.SubString(s.z, i + z3.Length(sep.z), ln), s.z)
    return VTuple([VStr(head, s.kind), VStr(mid, s.kind), VStr(tail, s.kind)])


def _strip_impl(it, s, chars, left, right, n):
    cs = concrete_str(s.z)
    if chars is None:
        ws = STR_WS if s.kind == "str" else BYTES_WS
        pychars = None
    else:
        pc = concrete_str(chars.z)
        if pc is None:
            raise Unsupported("strip with symbolic chars")
        if pc == "":
            return s
        ws = _chars(pc)
        pychars = pc
    if cs is not None:
        if s.kind == "bytes":
            b = cs.encode("latin-1")
            pcb = pychars.encode("latin-1") if pychars is not None else None
            r = b.strip(pcb) if left and right else b.lstrip(pcb) if left else b.rstrip(pcb)
            return VStr(r, "bytes")
        r = cs.strip(pychars) if left and right else cs.lstrip(pychars) if left else cs.rstrip(pychars)
        return VStr(r, "str")
    # strip is a function of its input: one uninterpreted function per (kind, chars, side), its
    # defining facts (unique decomposition) instantiated once per argument term and path
    tag = f"{s.kind}_{'L' if left else ''}{'R' if right else ''}_{'ws' if pychars is None else pychars.encode('unicode_escape').decode()}"
    fn = _strip_fn("py_strip_" + tag)
    fpre = _strip_fn("py_strip_pre_" + tag)
    fpost = _strip_fn("py_strip_post_" + tag)
    r = fn(s.z)
    pre = fpre(s.z) if left else z3.StringVal("")
    post = fpost(s.z) if right else z3.StringVal("")
    seen = it.ctx.__dict__.setdefault("_strip_seen", set())
    key = (tag, s.z.get_id())
    if key not in seen:
        seen.add(key)
        it.ctx.assume(s.z == z3.Concat(pre, r, post), "str.strip:decomposition")
        if left:
            it.ctx.assume(z3.InRe(pre, z3.Star(ws)), "str.strip:left-ws")
            it.ctx.assume(z3.Not(z3.InRe(r, z3.Concat(ws, ANY))), "str.strip:left-maximal")
        if right:
            it.ctx.assume(z3.InRe(post, z3.Star(ws)), "str.strip:right-ws")
            it.ctx.assume(z3.Not(z3.InRe(r, z3.Concat(ANY, ws))), "str.strip:right-maximal")
    return VStr(r, s.kind)


_strip_fns = {}


def _strip_fn(name):
    if name not in _strip_fns:
        _strip_fns[name] = z3.Function(name, StrS, StrS)
    return _strip_fns[name]


def _strip(left, right):
    def f(it, a, k, n):
        s = a[0]
        chars = None
        if len(a) > 1:
            c = it.need(a[1])
            if not isinstance(c, VNone):
                chars = _other(it, s, c, n)
        return _strip_impl(it, s, chars, left, right, n)
    return f


def _fold(fn_z3, pyfn):
    def f(it, a, k, n):
        s = a[0]
        cs = concrete_str(s.z)
        if cs is not None:
            if s.kind == "bytes":
                return VStr(pyfn(cs.encode("latin-1")), "bytes")
            return VStr(pyfn(cs), "str")
        r = fn_z3(s.z)
        # ground-instantiated laws: idempotence
        it.ctx.assume(fn_z3(r) == r, f"{fn_z3.name()}:idempotent")
        return VStr(r, s.kind)
    return f


def _ws_class(kind):
    """the characters str.split() / bytes.split() treat as white space"""
    def ch(c):
        return z3.Re(z3.StringVal(chr(c)))
    def rng(a, b):
        return z3.Range(z3.StringVal(chr(a)), z3.StringVal(chr(b)))
    parts = [rng(9, 13), ch(32)]
    if kind == "str":
        parts += [rng(0x1c, 0x1f), ch(0x85), ch(0xa0), ch(0x1680), rng(0x2000, 0x200a), ch(0x2028), ch(0x2029), ch(0x202f),
                  ch(0x205f), ch(0x3000)]
    return z3.Union(*parts)


def _splitlines(it, a, k, n):
    """s.splitlines(): concrete text exactly; otherwise an unknown number of unknown pieces of the same kind
    (over-approximation: nothing is said about the pieces -- a bytes piece has no CR / LF, but str.splitlines also splits
    at VT, FF, FS, GS, RS, NEL, LS, PS, which is why the two are NOT interchangeable; neither fact is used)"""
    s = a[0]
    if len(a) > 1 or k:
        raise Unsupported("splitlines(keepends)")
    cs = concrete_str(s.z)
    if cs is not None:
        if s.kind == "bytes":
            return VList([VStr(x.decode("latin-1"), "bytes") for x in cs.encode("latin-1").splitlines()])
        return VList([VStr(x) for x in cs.splitlines()])
    if it.spec:
        raise Unsupported("splitlines in spec")
    from .fresh import fresh_value
    return fresh_value(it, ("list", s.kind), it.ctx.fresh_name("splitlines"))


def _split(it, a, k, n):
    s = a[0]
    sep = it.need(a[1]) if len(a) > 1 else it.need(k.get("sep", NONE))
    maxsplit = a[2] if len(a) > 2 else k.get("maxsplit")
    cs = concrete_str(s.z)
    if isinstance(sep, VNone):
        if cs is not None and maxsplit is None:
            if s.kind == "bytes":
                return VList([VStr(x, "bytes") for x in cs.encode("latin-1").split()])
            return VList([VStr(x) for x in cs.split()])
        ms = concrete_int(as_int(it.need(maxsplit))) if maxsplit is not None else None
        if ms == 1 and not it.spec:
            # s.split(None, 1): [] | [word] | [word, rest] -- exact: leading white space is skipped, the word is the run
            # of non-white-space characters, the rest starts at the next non-white-space character and keeps its tail
            ws = _ws_class(s.kind)
            nonws = z3.Complement(ws) if False else None
            anych = z3.AllChar(z3.ReSort(StrS))
            non_ws_char = z3.Diff(anych, ws) if hasattr(z3, "Diff") else z3.Intersect(anych, z3.Complement(ws))
            lead = z3.String(it.ctx.fresh_name("split_l"))
            word = z3.String(it.ctx.fresh_name("split_w"))
            it.ctx.assume(z3.InRe(lead, z3.Star(ws)), "split(None,1):leading-white-space")
            k = it.ctx.choose([T(), T(), T()], "split-shape")
            if k == 0:
                it.ctx.assume(z3.InRe(s.z, z3.Star(ws)), "split(None,1):only-white-space")
                return VList([])
            it.ctx.assume(z3.InRe(word, z3.Plus(non_ws_char)), "split(None,1):word")
            if k == 1:
                trail = z3.String(it.ctx.fresh_name("split_t"))
                it.ctx.assume(z3.InRe(trail, z3.Star(ws)), "split(None,1):trailing-white-space")
                it.ctx.assume(s.z == z3.Concat(lead, word, trail), "split(None,1):one-word")
                return VList([VStr(word, s.kind)])
            sep = z3.String(it.ctx.fresh_name("split_s"))
            rest = z3.String(it.ctx.fresh_name("split_r"))
            it.ctx.assume(z3.InRe(sep, z3.Plus(ws)), "split(None,1):separator")
            it.ctx.assume(z3.InRe(rest, z3.Concat(non_ws_char, z3.Star(anych))), "split(None,1):rest-starts-with-text")
            it.ctx.assume(s.z == z3.Concat(lead, word, sep, rest), "split(None,1):two-pieces")
            return VList([VStr(word, s.kind), VStr(rest, s.kind)])
        if maxsplit is None and not it.spec:
            # s.split(): an unknown number of unknown white-space-free words (over-approximation, sound)
            from .fresh import fresh_value
            return fresh_value(it, ("list", s.kind), it.ctx.fresh_name("ws_split"))
        raise Unsupported("split() on whitespace of symbolic string")
    sep = _other(it, s, sep, n)
    csep = concrete_str(sep.z)
    if cs is not None and csep is not None:
        ms = -1 if maxsplit is None else concrete_int(as_int(maxsplit))
        if ms is not None:
            return VList([VStr(x, "str") if s.kind == "str" else VStr(x.encode("latin-1"), "bytes")
                          for x in cs.split(csep, ms)])
    if maxsplit is not None:
        ms = concrete_int(as_int(it.need(maxsplit)))
        if ms == 1:
            i = z3.IndexOf(s.z, sep.z, 0)
            if it.branch(i >= 0, "split1"):
                return VList([VStr(z3.SubString(s.z, 0, i), s.kind),
                              VStr(z3.SubString(s.z, i + z3.Length(sep.z), z3.Length(s.z)), s.kind)])
            return VList([s])
    # general split: symbolic list of pieces with the join law
    h = it.reg.overrides.get("str.split")
    if h is not None:
        return h(it, s, sep, n)
    if maxsplit is None and not it.spec:
        # s.split(sep): an unknown number (at least one) of unknown pieces -- over-approximation (sound): neither the
        # join law nor "no piece contains sep" is kept
        from .fresh import fresh_value
        r = fresh_value(it, ("list", s.kind), it.ctx.fresh_name("split"))
        it.ctx.assume(r.length >= 1, "split(sep):at-least-one-piece")
        return r
    raise Unsupported("general split on symbolic string")


def _rsplit(it, a, k, n):
    s = a[0]
    sep = it.need(a[1]) if len(a) > 1 else NONE
    maxsplit = a[2] if len(a) > 2 else k.get("maxsplit")
    if isinstance(sep, VNone) or maxsplit is None:
        raise Unsupported("rsplit general")
    sep = _other(it, s, sep, n)
    ms = concrete_int(as_int(it.need(maxsplit)))
    if ms == 1:
        # s.rsplit(sep, 1): if sep occurs, s == head + sep + tail with no sep in tail (unique decomposition;
        # stated with fresh strings instead of last_indexof, which neither solver handles well)
        if it.branch(z3.Contains(s.z, sep.z), "rsplit1"):
            head = z3.String(it.ctx.fresh_name("rsplit_h"))
            tail = z3.String(it.ctx.fresh_name("rsplit_t"))
            it.ctx.assume(s.z == z3.Concat(head, sep.z, tail), "rsplit(sep,1):decomposition")
            it.ctx.assume(z3.Not(z3.Contains(tail, sep.z)), "rsplit(sep,1):no-sep-in-tail")
            return VList([VStr(head, s.kind), VStr(tail, s.kind)])
        return VList([s])
    raise Unsupported("rsplit with maxsplit != 1")


def _join(it, a, k, n):
    s = a[0]
    seq = it.need(a[1])
    if isinstance(seq, VList) and not seq.concrete:
        # join of a list of unknown length: an unconstrained string (over-approximation, sound)
        return VStr(z3.String(it.ctx.fresh_name("joined")), s.kind)
    items = it.concrete_items(seq, n)
    if not items:
        return VStr(z3.StringVal(""), s.kind)
    out = None
    for x in items:
        x = _other(it, s, x, n)
        out = x.z if out is None else z3.Concat(out, s.z, x.z)
    return VStr(out, s.kind)


def _replace(it, a, k, n):
    s = a[0]
    old = _other(it, s, a[1], n)
    new = _other(it, s, a[2], n)
    cs, co, cn = concrete_str(s.z), concrete_str(old.z), concrete_str(new.z)
    if cs is not None and co is not None and cn is not None:
        return VStr(cs.replace(co, cn) if s.kind == "str" else cs.replace(co, cn).encode("latin-1"), s.kind)
    if len(a) > 3:
        cnt = concrete_int(as_int(it.need(a[3])))
        if cnt == 1:
            return VStr(z3.Replace(s.z, old.z, new.z), s.kind)
        raise Unsupported("replace with count")
    # replace-all: z3 has no native total replace_all in this API; use the seq.replace_all builtin
    return VStr(_replace_all(s.z, old.z, new.z), s.kind)


_REPLACE_ALL = None


def _replace_all(s, old, new):
    # z3 exposes str.replace_all through the SMT-LIB parser only; build it via a declared macro term
    global _REPLACE_ALL
    if _REPLACE_ALL is None:
        _REPLACE_ALL = z3.Function("py_replace_all", StrS, StrS, StrS, StrS)
    return _REPLACE_ALL(s, old, new)


def _encode(it, a, k, n):
    s = a[0]
    if s.kind != "str":
        it.raise_("AttributeError", node=n)
    codec = a[1] if len(a) > 1 else k.get("encoding", VStr("utf-8"))
    errors = a[2] if len(a) > 2 else k.get("errors", VStr("strict"))
    cc = concrete_str(it.need(codec).z)
    ce = concrete_str(it.need(errors).z)
    if cc is None or ce is None:
        raise Unsupported("encode with symbolic codec")
    cc = cc.lower().replace("_", "-")
    cs = concrete_str(s.z)
    if cs is not None:
        try:
            return VStr(cs.encode(cc, ce), "bytes")
        except UnicodeEncodeError:
            it.raise_("UnicodeEncodeError", node=n)
        except UnicodeError:
            it.raise_("UnicodeError", node=n)
    if cc in ("latin1", "latin-1", "iso-8859-1"):
        ok = z3.InRe(s.z, z3.Star(_range("\x00", "\xff")))
        if ce == "strict":
            if not it.spec and not it.branch(ok, "encode-latin1"):
                it.raise_("UnicodeEncodeError", node=n)
            return VStr(s.z, "bytes")
    if cc == "ascii":
        ok = z3.InRe(s.z, z3.Star(_range("\x00", "\x7f")))
        if ce == "strict":
            if not it.spec and not it.branch(ok, "encode-ascii"):
                it.raise_("UnicodeEncodeError", node=n)
            return VStr(s.z, "bytes")
        if ce == "ignore":
            r = ENC(s.z, z3.StringVal("ascii:ignore"))
            it.ctx.assume(z3.InRe(r, z3.Star(_range("\x00", "\x7f"))), "encode(ascii, ignore):ascii-output")
            return VStr(r, "bytes")
    codec_z = z3.StringVal(cc)
    if cc in ("utf-8", "utf8"):
        # ASCII text is its own UTF-8 encoding (ground fact)
        asc = z3.InRe(s.z, z3.Star(_range("\x00", "\x7f")))
        it.ctx.assume(z3.Implies(asc, z3.And(ENC_OK(s.z, z3.StringVal(cc)), ENC(s.z, z3.StringVal(cc + ":" + ce)) == s.z)),
                      "utf8-encode:ascii-identity")
    if ce == "strict" and not it.spec:
        exc = "UnicodeError" if cc == "idna" else "UnicodeEncodeError"
        if not it.branch(ENC_OK(s.z, codec_z), "encode-ok"):
            it.raise_(exc, node=n)
    r = ENC(s.z, z3.StringVal(cc + ":" + ce))
    if cc == "idna":
        it.ctx.assume(z3.InRe(r, z3.Star(_range("\x00", "\x7f"))), "idna-encode:ascii-output")
    if cc in ("utf-8", "utf8"):
        it.ctx.assume(z3.InRe(r, z3.Star(_range("\x00", "\xff"))), "encode:result-is-bytes")
        it.ctx.assume(z3.Length(r) >= z3.Length(s.z), "utf8-encode:len>=")
        it.ctx.assume((z3.Length(r) == 0) == (z3.Length(s.z) == 0), "utf8-encode:empty-iff-empty")
        # UTF-8 is a character-wise code: a constant ASCII tail (head) of the text is the same tail (head) of its encoding
        parts = list(s.z.children()) if z3.is_app(s.z) and s.z.decl().kind() == z3.Z3_OP_SEQ_CONCAT else []
        if parts:
            tail = concrete_str(parts[-1])
            if tail and all(ord(c) < 128 for c in tail):
                it.ctx.assume(z3.SuffixOf(z3.StringVal(tail), r), "utf8-encode:ascii-tail-kept")
            head = concrete_str(parts[0])
            if head and all(ord(c) < 128 for c in head):
                it.ctx.assume(z3.PrefixOf(z3.StringVal(head), r), "utf8-encode:ascii-head-kept")
    return VStr(r, "bytes")


def _decode(it, a, k, n):
    s = a[0]
    codec = a[1] if len(a) > 1 else k.get("encoding", VStr("utf-8"))
    errors = a[2] if len(a) > 2 else k.get("errors", VStr("strict"))
    cc = concrete_str(it.need(codec).z)
    ce = concrete_str(it.need(errors).z)
    if cc is None or ce is None:
        raise Unsupported("decode with symbolic codec")
    cc = cc.lower().replace("_", "-")
    cs = concrete_str(s.z)
    if cs is not None:
        try:
            return VStr(cs.encode("latin-1").decode(cc, ce), "str")
        except UnicodeDecodeError:
            it.raise_("UnicodeDecodeError", node=n)
        except LookupError:
            pass
    if cc in ("latin1", "latin-1", "iso-8859-1"):
        return VStr(s.z, "str")
    if cc == "ascii" and ce == "strict":
        ok = z3.InRe(s.z, z3.Star(_range("\x00", "\x7f")))
        if not it.spec and not it.branch(ok, "decode-ascii"):
            it.raise_("UnicodeDecodeError", node=n)
        return VStr(s.z, "str")
    if cc in ("utf-8", "utf8"):
        # ASCII bytes are their own UTF-8 decoding (ground fact)
        asc = z3.InRe(s.z, z3.Star(_range("\x00", "\x7f")))
        it.ctx.assume(z3.Implies(asc, z3.And(DEC_OK(s.z, z3.StringVal(cc)),
                                             DEC(s.z, z3.StringVal(cc), z3.StringVal(ce)) == s.z)), "utf8-decode:ascii-identity")
    if cc in ("utf-8", "utf8") and z3.is_app(s.z) and s.z.decl().name() == "py_encode" and s.z.num_args() == 2:
        # decoding what encode() of the same codec produced gives the text back (trusted fact about the codec),
        # whatever the error handler
        enc_codec = concrete_str(s.z.arg(1)) or ""
        if enc_codec.split(":")[0] in ("utf-8", "utf8") and enc_codec.endswith(":strict"):
            it.ctx.assume(z3.And(DEC_OK(s.z, z3.StringVal(cc)),
                                 DEC(s.z, z3.StringVal(cc), z3.StringVal(ce)) == s.z.arg(0)), "utf8:decode-inverts-encode")
    if ce == "strict" and not it.spec:
        if not it.branch(DEC_OK(s.z, z3.StringVal(cc)), "decode-ok"):
            it.raise_("UnicodeDecodeError", node=n)
    return VStr(DEC(s.z, z3.StringVal(cc), z3.StringVal(ce)), "str")


def _isdigit(it, a, k, n):
    s = a[0]
    cs = concrete_str(s.z)
    if cs is not None:
        return VBool(cs.isdigit())
    if s.kind == "bytes":
        return VBool(z3.InRe(s.z, z3.Plus(DIGIT)))
    raise Unsupported("str.isdigit on symbolic str (unicode digit classes)")


def _zfill(it, a, k, n):
    s = a[0]
    w = as_int(it.need(a[1]))
    cs, cw = concrete_str(s.z), concrete_int(w)
    if cs is not None and cw is not None:
        return VStr(cs.zfill(cw), s.kind)
    # symbolic: the result is an unknown string characterised by what str.zfill guarantees
    z = z3.String(it.ctx.fresh_name("zfill"))
    ls = z3.Length(s.z)
    it.ctx.assume(z3.Length(z) == z3.If(ls >= w, ls, w), "zfill:length")
    it.ctx.assume(z3.Implies(ls >= w, z == s.z), "zfill:no-padding-needed")
    ten = z3.IntVal(10)
    # padding with zeros (after a sign) does not change which number a decimal literal denotes (trusted fact)
    it.ctx.assume(z3.Implies(INT_OK(s.z, ten), z3.And(INT_OK(z, ten), INT_VAL(z, ten) == INT_VAL(s.z, ten))),
                  "zfill:int-value-preserved")
    it.ctx.assume(z3.Implies(z3.InRe(s.z, PLAIN_INT), z3.InRe(z, PLAIN_INT)), "zfill:stays-a-decimal-literal")
    return VStr(z, s.kind)


def _count(it, a, k, n):
    s = a[0]
    sub = _other(it, s, a[1], n)
    cs, cb = concrete_str(s.z), concrete_str(sub.z)
    if cs is not None and cb is not None:
        return VInt(cs.count(cb))
    raise Unsupported("count symbolic")


def _format(it, a, k, n):
    raise Unsupported("str.format")


_METHODS = {
    "startswith": _prefix_suffix(True), "endswith": _prefix_suffix(False), "find": _find, "rfind": _rfind,
    "removeprefix": _remove_affix(True), "removesuffix": _remove_affix(False),
    "index": _index, "rindex": _rindex, "partition": _partition, "rpartition": _rpartition,
    "strip": _strip(True, True), "lstrip": _strip(True, False), "rstrip": _strip(False, True),
    "lower": _fold(LOWER, lambda s: s.lower()), "upper": _fold(UPPER, lambda s: s.upper()),
    "title": _fold(TITLE, lambda s: s.title()),
    "split": _split, "rsplit": _rsplit, "splitlines": _splitlines, "join": _join, "replace": _replace, "encode": _encode,
    "decode": _decode, "isdigit": _isdigit, "zfill": _zfill, "count": _count, "format": _format,
}


# --------------------------------------------------------------------------
# int(s) / float(s)

MAX_DIGITS = z3.Int("py_int_max_str_digits")
PLAIN_INT = z3.Concat(z3.Option(z3.Re(z3.StringVal("-"))), z3.Plus(DIGIT))
HEXDIGIT = z3.Union(DIGIT, _range("a", "f"), _range("A", "F"))


def parse_int(it, s, base, n):
    """int(s, base).  Trusted spec: for s in -?[0-9]+ (ASCII) of at most 4300
    digits int() succeeds with the positional value; for every other string the
    outcome (ValueError or some value) is left unconstrained, so obligations
    must hold either way."""
    cs = concrete_str(s.z)
    if cs is not None:
        try:
            txt = cs if s.kind == "str" else cs.encode("latin-1")
            return VInt(int(txt, base))
        except ValueError:
            it.raise_("ValueError", node=n)
    bz = z3.IntVal(base)
    if base == 10:
        # CPython limits int() to sys.get_int_max_str_digits() digits (4300 by default).  The
        # limit is kept symbolic (>= 1): obligations hold for every limit (sound generalisation;
        # a literal 4300 would force 4301-character models, which z3 cannot build in time)
        it.ctx.assume(MAX_DIGITS >= 1, "int():max-str-digits>=1")
        plain = z3.And(z3.InRe(s.z, PLAIN_INT), z3.Length(s.z) <= MAX_DIGITS)
        neg = z3.PrefixOf(z3.StringVal("-"), s.z)
        it.ctx.assume(z3.Implies(plain, INT_OK(s.z, bz)), "int():plain-decimal-accepted")
        it.ctx.assume(z3.Implies(z3.And(plain, z3.Not(neg)), INT_VAL(s.z, bz) >= 0), "int():unsigned>=0")
        it.ctx.assume(z3.Implies(z3.And(plain, neg), INT_VAL(s.z, bz) <= 0), "int():negative<=0")
        # strings without any digit are never accepted
        it.ctx.assume(z3.Implies(z3.Not(z3.InRe(s.z, z3.Concat(ANY, _nonascii_or_digit(), ANY))), z3.Not(INT_OK(s.z, bz))),
                      "int():needs-a-digit")
    elif base == 16:
        it.ctx.assume(z3.Implies(z3.Length(s.z) == 0, z3.Not(INT_OK(s.z, bz))), "int(,16):empty-rejected")
        hexplain = z3.And(z3.InRe(s.z, z3.Plus(HEXDIGIT)), z3.Length(s.z) <= 4000)
        it.ctx.assume(z3.Implies(hexplain, z3.And(INT_OK(s.z, bz), INT_VAL(s.z, bz) >= 0)), "int(,16):plain-hex")
    if it.spec:
        return VInt(INT_VAL(s.z, bz))
    if not it.branch(INT_OK(s.z, bz), "int-ok"):
        it.raise_("ValueError", node=n)
    return VInt(INT_VAL(s.z, bz))


def _nonascii_or_digit():
    # a character that could be a (unicode) digit: ASCII digit or any non-ASCII char
    return z3.Union(DIGIT, z3.Range(z3.StringVal("\x80"), z3.StringVal("\U0002ffff")))


def parse_float(it, s, n):
    cs = concrete_str(s.z)
    if cs is not None:
        try:
            return VFloat(float(cs))
        except ValueError:
            it.raise_("ValueError", node=n)
    if it.spec:
        return VFloat(FLOAT_VAL(s.z))
    # trusted fact about float(): a plain decimal literal (optional sign, digits, optional fraction) always parses
    d = z3.Range("0", "9")
    lit = z3.Concat(z3.Option(z3.Union(z3.Re("-"), z3.Re("+"))), z3.Plus(d), z3.Option(z3.Concat(z3.Re("."), z3.Plus(d))))
    it.ctx.assume(z3.Implies(z3.InRe(s.z, lit), FLOAT_OK(s.z)), "float:decimal-literals-parse")
    if not it.branch(FLOAT_OK(s.z), "float-ok"):
        it.raise_("ValueError", node=n)
    return VFloat(FLOAT_VAL(s.z))
