"""Loops: iteration views and invariant cuts."""
from __future__ import annotations

import ast
import z3

from . import ops
from .ops import Unsupported, truthy, concrete_int
from .values import NONE, VBool, VByteArray, VDict, VInt, VList, VObj, VSet, VStr, VTuple
from .paths import PathEnd
from .symex import BreakSig, ContinueSig, Env


class View:
    def __init__(self, length, get, consume=None, shape=None):
        self.length = length
        self.get = get
        # consume(k): the first k elements of the view have been taken (views over iterator objects)
        self.consume = consume
        # element shape when the view ranges over a symbolic list (needed to build result lists)
        self.shape = shape


def _stores_below(interp, live, snap, pos):
    """the live array is the snapshot array with stores at indices that are all provably < pos"""
    a = live
    while not a.eq(snap):
        if z3.is_app(a) and a.decl().kind() == z3.Z3_OP_STORE and interp.ctx.implied(a.arg(1) < pos, 2000):
            a = a.arg(0)
            continue
        return False
    return True


def iterator_view(interp, o, node=None):
    """remaining elements of an iterator object created by iter(); taking elements advances it.
    A list iterator reads the LIVE list: the snapshot taken at iter() time may only be used if the list was not
    changed since, except at positions the iterator has already passed."""
    base = o.fields["__view__"]
    pos = o.fields["__pos__"].z
    live, snap = o.fields.get("__live__"), o.fields.get("__snap__")
    if live is not None and not live.concrete:
        same_len = live.length is snap.length or interp.ctx.implied(live.length == snap.length, 2000)
        if not (same_len and all(_stores_below(interp, x, y, pos) for x, y in zip(live.arrs, snap.arrs))):
            raise Unsupported(f"list changed ahead of a live iterator (line {getattr(node, 'lineno', '?')})")
    elif live is not None and live.concrete and len(live.items) != concrete_int(base.length):
        raise Unsupported("list resized under a live iterator")

    def consume(k):
        o.fields["__pos__"] = VInt(z3.simplify(pos + k))
    rem = z3.simplify(z3.If(base.length - pos > 0, base.length - pos, z3.IntVal(0)))
    return View(rem, lambda i: base.get(z3.simplify(pos + i)), consume, base.shape)


def iter_view(interp, v, node=None):
    if isinstance(v, View):
        return v
    if isinstance(v, VTuple):
        items = v.items
        return View(z3.IntVal(len(items)), lambda i: items[_ci(i)])
    if isinstance(v, VList):
        if v.concrete:
            items = list(v.items)
            return View(z3.IntVal(len(items)), lambda i: items[_ci(i)])
        snap = ops.snapshot(v)
        return View(snap.length, lambda i: ops.list_get(snap, i), shape=v.shape)
    if isinstance(v, VSet) and v.items is not None:
        items = list(v.items)
        return View(z3.IntVal(len(items)), lambda i: items[_ci(i)])
    if isinstance(v, VDict) and v.concrete:
        keys = [_unhash(k) for k in v.items]
        return View(z3.IntVal(len(keys)), lambda i: keys[_ci(i)])
    if isinstance(v, VStr):
        n = concrete_int(z3.Length(v.z))
        z = v.z
        if v.kind == "str":
            return View(z3.Length(z), lambda i: VStr(z3.SubString(z, i, 1), "str"))
        return View(z3.Length(z), lambda i: VInt(z3.StrToCode(z3.SubString(z, i, 1))))
    if isinstance(v, VObj) and "__view__" in v.fields and "__pos__" in v.fields:
        return iterator_view(interp, v, node)
    if isinstance(v, VObj) and "__view__" in v.fields:
        return v.fields["__view__"]
    if isinstance(v, VObj) and "__list__" in v.fields:
        return iter_view(interp, v.fields["__list__"], node)
    from .extract import ClassInfo as _CI
    if isinstance(v, VObj) and isinstance(v.cls, _CI) and isinstance(v.cls.find_method("__iter__")[1], list):
        from .lib import _dunder
        return iter_view(interp, interp.need(_dunder(interp, v, "__iter__", [], node)), node)
    raise Unsupported(f"iteration over {v!r} (line {getattr(node, 'lineno', '?')})")


def _ci(i):
    c = concrete_int(i) if z3.is_expr(i) else i
    if c is None:
        raise Unsupported("symbolic index into concrete sequence")
    return c


def _unhash(k):
    kind, val = k
    if kind in ("str", "bytes"):
        return VStr(val if kind == "str" else val.encode("latin-1"), kind)
    if kind == "int":
        return VInt(val)
    if kind == "none":
        return NONE
    if kind == "tuple":
        return VTuple([_unhash(x) for x in val])
    raise Unsupported(f"key {k!r}")


def assigned_names(stmts):
    out = []

    def tg(t):
        if isinstance(t, ast.Name):
            if t.id not in out:
                out.append(t.id)
        elif isinstance(t, (ast.Tuple, ast.List)):
            for e in t.elts:
                tg(e)
        elif isinstance(t, ast.Starred):
            tg(t.value)

    for st in stmts:
        for n in ast.walk(st):
            if isinstance(n, (ast.FunctionDef, ast.Lambda)):
                continue
            if isinstance(n, ast.Assign):
                for t in n.targets:
                    tg(t)
            elif isinstance(n, (ast.AugAssign, ast.AnnAssign)):
                tg(n.target)
            elif isinstance(n, ast.For):
                tg(n.target)
            elif isinstance(n, ast.NamedExpr):
                tg(n.target)
            elif isinstance(n, ast.ExceptHandler) and n.name:
                if n.name not in out:
                    out.append(n.name)
    return out


def _havoc_for_loop(interp, st, env, spec):
    from .callspec import havoc_lvalue
    names = assigned_names(st.body)
    explicit = list(spec.get("modifies", []))
    # variables whose type changes inside the loop get a declared shape
    for nm, sh in (spec.get("types") or {}).items():
        env.assign(nm, interp.fresh(sh, "loop_" + nm))
        if nm in names:
            names.remove(nm)
    for nm in names:
        if nm in explicit:
            continue
        if env.has(nm):
            try:
                havoc_lvalue(interp, nm, env, tag="loop")
            except (ValueError, Unsupported) as e:
                raise Unsupported(f"loop at line {st.lineno}: cannot havoc {nm}: {e}")
    for lv in explicit:
        havoc_lvalue(interp, lv, env, tag="loop")


def _label(spec, kind, k):
    return f"{spec['key']}/loop[{spec['ordinal']}]/{kind}[{k}]"


def _hints(interp, sp, spec, env):
    """ghost terms evaluated at the head of the loop body: their only effect is to instantiate
    the definitions of ghost functions at the current index (ground instantiation)"""
    import ast as _ast
    for h in spec.get("hints", []):
        sp.eval(_ast.parse(h, mode="eval").body, env)


def cut_while(interp, st, env, spec):
    ctx = interp.ctx
    sp = interp.sub(True)
    for k, inv in enumerate(spec["inv"]):
        ctx.oblige("inv-init", _label(spec, "inv-init", k), truthy(sp.eval(inv, env)),
                   {"clause": spec["inv_src"][k]})
    _havoc_for_loop(interp, st, env, spec)
    for k, inv in enumerate(spec["inv"]):
        ctx.assume(truthy(sp.eval(inv, env)), f"loop-inv:{spec['key']}[{spec['ordinal']}][{k}]")
    c = interp.eval(st.test, env)
    if interp.truth(c):
        _hints(interp, sp, spec, env)
        dec0 = None
        if spec.get("decreases") is not None:
            dec0 = ops.as_int(sp.eval(spec["decreases"], env))
        try:
            interp.exec_block(st.body, env)
        except BreakSig:
            return
        except ContinueSig:
            pass
        for k, inv in enumerate(spec["inv"]):
            ctx.oblige("inv-preserved", _label(spec, "inv-preserved", k), truthy(sp.eval(inv, env)),
                       {"clause": spec["inv_src"][k]})
        if dec0 is not None:
            dec1 = ops.as_int(sp.eval(spec["decreases"], env))
            ctx.oblige("decreases", _label(spec, "decreases", 0), z3.And(dec0 >= 0, dec1 < dec0),
                       {"clause": spec["decreases_src"]})
        raise PathEnd()
    interp.exec_block(st.orelse, env)


def cut_for(interp, st, env, spec, view):
    ctx = interp.ctx
    sp = interp.sub(True)
    iname = spec.get("index", "_i")
    env.assign(iname, VInt(0))
    for k, inv in enumerate(spec["inv"]):
        ctx.oblige("inv-init", _label(spec, "inv-init", k), truthy(sp.eval(inv, env)),
                   {"clause": spec["inv_src"][k]})
    _havoc_for_loop(interp, st, env, spec)
    i = z3.Int(ctx.fresh_name("iter_" + iname))
    ctx.assume(z3.And(i >= 0, i <= view.length), "loop-index-range")
    env.assign(iname, VInt(i))
    for k, inv in enumerate(spec["inv"]):
        ctx.assume(truthy(sp.eval(inv, env)), f"loop-inv:{spec['key']}[{spec['ordinal']}][{k}]")
    if ctx.branch(i < view.length, "for"):
        interp.assign(st.target, view.get(i), env)
        _hints(interp, sp, spec, env)
        try:
            interp.exec_block(st.body, env)
        except BreakSig:
            if view.consume:
                view.consume(i + 1)
            return
        except ContinueSig:
            pass
        env.assign(iname, VInt(i + 1))
        for k, inv in enumerate(spec["inv"]):
            ctx.oblige("inv-preserved", _label(spec, "inv-preserved", k), truthy(sp.eval(inv, env)),
                       {"clause": spec["inv_src"][k]})
        # a for loop over a finite sequence terminates: variant len - i (implicit)
        raise PathEnd()
    if view.consume:
        view.consume(view.length)
    interp.exec_block(st.orelse, env)
