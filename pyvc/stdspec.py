"""Trusted specifications of stdlib functions used by the code under contract.

Every entry here is an ASSUMPTION about CPython / the standard library; the
names used by a run are recorded in the evidence (`trusted_base`).
"""
from __future__ import annotations

import z3

from . import ops
from .ops import Unsupported, as_int, concrete_int, concrete_str, T, F, truthy
from .values import (
    NONE, VBool, VBuiltin, VByteArray, VClass, VFloat, VInt, VList, VModule, VNone, VObj, VOpaque,
    VRegex, VStr, VTuple, opaque_sort, StrS, IntS, BoolS,
)

USED = set()


def _b(name, fn):
    def wrapped(it, a, k, n):
        USED.add(name)
        return fn(it, a, k, n)
    return VBuiltin(name, wrapped)


def _re_compile(it, a, k, n):
    p = it.need(a[0])
    pat = concrete_str(p.z)
    if pat is None:
        raise Unsupported("re.compile of symbolic pattern")
    flags = 0
    if len(a) > 1:
        flags = concrete_int(as_int(it.need(a[1])))
    elif "flags" in k:
        flags = concrete_int(as_int(it.need(k["flags"])))
    return VRegex(pat, flags or 0, p.kind == "bytes")


def _re_flag(val):
    return VInt(val)


def _partial(it, a, k, n):
    fn = a[0]
    pre = list(a[1:])
    prek = dict(k)

    def impl(it2, a2, k2, n2):
        kk = dict(prek)
        kk.update(k2)
        return it2.call(fn, pre + list(a2), kk, n2)
    return VBuiltin("partial", impl)


def _time_time(it, a, k, n):
    return VFloat(z3.Real(it.ctx.fresh_name("time")))


def _noop(it, a, k, n):
    return NONE


def _update_wrapper(it, a, k, n):
    return a[0]


_TABLE = {
    ("functools", "update_wrapper"): lambda it: _b("functools.update_wrapper", _update_wrapper),
    ("time", "sleep"): lambda it: _b("time.sleep", _noop),
    ("re", "compile"): lambda it: _b("re.compile", _re_compile),
    ("re", "ASCII"): lambda it: _re_flag(256),
    ("re", "A"): lambda it: _re_flag(256),
    ("re", "IGNORECASE"): lambda it: _re_flag(2),
    ("re", "I"): lambda it: _re_flag(2),
    ("re", "VERBOSE"): lambda it: _re_flag(64),
    ("re", "X"): lambda it: _re_flag(64),
    ("re", "MULTILINE"): lambda it: _re_flag(8),
    ("re", "M"): lambda it: _re_flag(8),
    ("re", "DOTALL"): lambda it: _re_flag(16),
    ("re", "S"): lambda it: _re_flag(16),
    ("functools", "partial"): lambda it: _b("functools.partial", _partial),
    ("time", "time"): lambda it: _b("time.time", _time_time),
    ("typing", "TYPE_CHECKING"): lambda it: VBool(False),
    ("t", "TYPE_CHECKING"): lambda it: VBool(False),
}


def register(mod, name, factory):
    _TABLE[(mod, name)] = factory


def lookup(interp, modname, name):
    f = _TABLE.get((modname, name))
    if f is not None:
        return f(interp)
    h = interp.reg.overrides.get(f"std:{modname}.{name}")
    if h is not None:
        USED.add(f"{modname}.{name}")
        return h(interp) if callable(h) else h
    return None
