"""C06 / C16 -- serialisers whose output is a function of integers and Optionals (proved part)."""


def register(reg):
    P = "C06,C16"
    CR = reg.model("ContentRange", cls="werkzeug/datastructures/range.py:ContentRange",
                   fields={"_units": "Optional[str]", "_start": "Optional[int]", "_stop": "Optional[int]",
                           "_length": "Optional[int]", "on_update": "Optional[opaque:callback]"})
    reg.spec("cr_len_text(length)", "'*' if length is None else str(length)")
    reg.contract(
        "werkzeug/datastructures/range.py:ContentRange.to_header", prop=P, self_model=CR, replay="method", returns="str",
        assumes=["(self._start is None) == (self._stop is None)"],
        ensures=[
            "implies(self._units is None, result == '')",
            # unsatisfied-range form: bytes */<complete length> -- a known length of 0 is written as 0
            "implies(self._units is not None and self._start is None, "
            "        result == self._units + ' */' + cr_len_text(self._length))",
            "implies(self._units is not None and self._start is not None, "
            "        result == self._units + ' ' + str(self._start) + '-' + str(self._stop - 1) + '/' + cr_len_text(self._length))",
        ],
    )
    reg.contract(
        "werkzeug/datastructures/range.py:ContentRange.__bool__", prop=P, self_model=CR, returns="bool",
        ensures=["result == (self._units is not None)"],
    )

    # ---- cache-control typed accessors at dict level -------------------------------------------------------
    P2 = "C06,C16"
    CC = reg.model("CacheControl", cls="werkzeug/datastructures/cache_control.py:_CacheControl",
                   fields={"__dict__": "Dict[str, Optional[str]]", "on_update": "Optional[opaque:callback]", "provided": "bool"})
    reg.spec("CD(self)", "self.__dict__")
    reg.spec("others_kept(self, key)", "forall_s(lambda k: implies(k != key, (k in CD(self)) == (k in old(CD(self)))))")
    reg.contract(
        "werkzeug/datastructures/cache_control.py:_CacheControl._set_cache_value#bool", prop=P2, self_model=CC,
        params={"key": "str", "value": "bool", "type": ("builtin", "bool")},
        ensures=["(key in CD(self)) == value", "implies(value, CD(self)[key] is None)", "others_kept(self, key)"],
    )
    reg.contract(
        "werkzeug/datastructures/cache_control.py:_CacheControl._get_cache_value#bool", prop=P2, self_model=CC,
        params={"key": "str", "empty": "Optional[str]", "type": ("builtin", "bool")},
        ensures=["result == (key in CD(self))"],
    )
    reg.contract(
        "werkzeug/datastructures/cache_control.py:_CacheControl._set_cache_value#int", prop=P2, self_model=CC,
        params={"key": "str", "value": "Optional[int]", "type": ("builtin", "int")},
        ensures=["(key in CD(self)) == (value is not None)",
                 "implies(value is not None, CD(self)[key] == str(value))", "others_kept(self, key)"],
    )
    reg.contract(
        "werkzeug/datastructures/cache_control.py:_CacheControl._get_cache_value#int", prop=P2, self_model=CC,
        params={"key": "str", "empty": "Optional[int]", "type": ("builtin", "int")},
        ensures=["implies(not (key in CD(self)), result is None)",
                 "implies(key in CD(self) and CD(self)[key] is None, result == empty)",
                 # what was stored by the int setter reads back as that int
                 "implies(key in CD(self) and CD(self)[key] is not None and re_in(CD(self)[key], '-?[0-9]+') "
                 "        and len(CD(self)[key]) <= int_max_digits(), result == str_to_int(CD(self)[key]))"],
        raises={},
    )
    reg.contract(
        "werkzeug/datastructures/cache_control.py:_CacheControl._del_cache_value", prop=P2, self_model=CC,
        params={"key": "str"},
        ensures=["not (key in CD(self))", "others_kept(self, key)"],
    )
    _register_auth(reg)
    _register_content_range_parse(reg)


def _register_auth(reg):
    """Authorization.from_header (Basic): the credentials are split at the FIRST colon of the decoded text (a
    password may contain colons, a user name cannot -- RFC 7617), and nothing escapes on any header text"""
    import z3
    from pyvc.values import VBuiltin, VStr, StrS, BoolS
    B64_OK = z3.Function("b64decode_ok", StrS, BoolS)
    B64 = z3.Function("b64decode", StrS, StrS)

    def _b64decode(it, a, k, n):
        s = it.need(a[0])
        if not it.branch(B64_OK(s.z), "b64decode-ok"):
            it.raise_("binascii.Error", node=n)
        return VStr(B64(s.z), "bytes")
    reg.overrides["std:base64.b64decode"] = lambda interp: VBuiltin("base64.b64decode", _b64decode)
    reg.ufunc("uf_b64", ["str"], "bytes")
    reg.spec_names["uf_b64"] = VBuiltin("spec:uf_b64", lambda it, a, k, n: VStr(B64(a[0].z), "bytes"))
    reg.spec_names["uf_b64_ok"] = VBuiltin("spec:uf_b64_ok", lambda it, a, k, n: __import__("pyvc.values", fromlist=["VBool"]).VBool(B64_OK(a[0].z)))
    import base64 as _b64, binascii as _ba

    def _nat_ok(s):
        try:
            _b64.b64decode(s)
            return True
        except (_ba.Error, ValueError):
            return False
    reg.native_specs["uf_b64"] = lambda s: _b64.b64decode(s)
    reg.native_specs["uf_b64_ok"] = _nat_ok
    def _param_of(it, a, k, n):
        from pyvc.values import VObj, VDict, VOpt
        o = a[0].val if isinstance(a[0], VOpt) else a[0]
        key = ("str", a[1].z.as_string()) if hasattr(a[1].z, "as_string") else None
        if isinstance(o, VObj) and isinstance(o.fields.get("parameters"), VDict) and o.fields["parameters"].concrete:
            for kk, vv in o.fields["parameters"].items.items():
                if kk[1] == a[1].z.as_string():
                    return vv
        return VStr(z3.StringVal(""), "str")
    reg.builtin_spec("param_of", _param_of, lambda o, key: ((o.parameters.get(key) if o is not None else None) or ""))
    reg.spec("basic_text(value)", "uf_b64(value.partition(' ')[2].strip()).decode()")
    reg.contract(
        "werkzeug/datastructures/auth.py:Authorization.from_header", prop="C06,C07",
        params={"cls": ("const_class", "werkzeug/datastructures/auth.py:Authorization"), "value": "Optional[str]"}, modifies=[],
        replay=_replay_auth,
        ensures=[
            "implies(value is None or value == '', result is None)",
            # Basic: user name = text before the first colon, password = everything after it
            "implies(result is not None and result.type == 'basic', "
            "        not (':' in param_of(result, 'username')) and "
            "        (basic_text(value) == param_of(result, 'username') + ':' + param_of(result, 'password') or "
            "         (basic_text(value) == param_of(result, 'username') and param_of(result, 'password') == '')))",
        ],
        raises={},
    )


def _replay_auth(reg, c, inputs):
    from pyvc import runtime
    import base64
    mod = runtime.import_real("werkzeug/datastructures/auth.py")
    nc = runtime.NativeContract(reg, c)
    texts = ["a:b", "a:b:c", "a", ":", "a:", ":b", "ué:p:q:", ""]
    corpus = [inputs.get("value"), None, "", "Basic", "Basic !!!", "Bearer abc", 'Digest a=b, c="d"', "Basic " + "=" * 3]
    corpus += ["Basic " + base64.b64encode(t.encode()).decode() for t in texts]
    corpus += ["basic  " + base64.b64encode(b"x:y:z").decode() + "  ", "Basic " + base64.b64encode(b"\xff:\xfe").decode()]
    for v in corpus:
        fails = nc.check_call(mod.Authorization.from_header, [v], {}, {"value": v, "cls": mod.Authorization})
        if fails:
            return [f"(header text {v!r}) " + f for f in fails]
    return []


def _register_content_range_parse(reg):
    """parse_content_range_header: total, yields only valid ranges, and inverts ContentRange.to_header"""
    CR = reg.models["ContentRange"]
    reg.spec("tokenish(u)", "len(u) > 0 and re_in(u, '[A-Za-z0-9_.-]+')")
    reg.contract(
        "werkzeug/http.py:parse_content_range_header", prop="C06,C07,C16", params={"value": "Optional[str]", "on_update": "Optional[opaque:callback]"},
        modifies=[], returns="Optional[ContentRange]",
        inline_callees=["werkzeug/datastructures/range.py:ContentRange.set"],
        ensures=[
            "implies(value is None, result is None)",
            # only satisfiable, well-ordered ranges come out
            "result is None or valid_range(result._start, result._stop, result._length)",
            # C16: every view handed out is live -- it carries the caller's write-back callback, in the `*/N` form too
            "result is None or result.on_update == on_update",
            # (the inverse law against ContentRange.to_header -- str(int) round trips inside split / partition pieces --
            #  was tried as a clause with ghost parameters: both solvers need more than 20 minutes; bounded tier)
        ],
        raises={},
    )
