"""C06 / C16 -- serialisers whose output is a function of integers and Optionals (proved part)."""


def register(reg):
    P = "C06,C16"
    CR = reg.model("ContentRange", cls="werkzeug/datastructures/range.py:ContentRange",
                   fields={"_units": "Optional[str]", "_start": "Optional[int]", "_stop": "Optional[int]",
                           "_length": "Optional[int]", "on_update": "Optional[opaque:callback]"})
    reg.spec("cr_len_text(length)", "'*' if length is None else str(length)")
    reg.contract(
        "werkzeug/datastructures/range.py:ContentRange.to_header", prop=P, self_model=CR, returns="str",
        assumes=["(self._start is None) == (self._stop is None)"],
        ensures=[
            "implies(self._units is None, result == '')",
            # unsatisfied-range form: bytes */<complete length> -- a known length of 0 is written as 0
            "implies(self._units is not None and self._start is None, "
            "        result == self._units + ' */' + cr_len_text(self._length))",
            "implies(self._units is not None and self._start is not None, "
            "        result == self._units + ' ' + str(self._start) + '-' + str(self._stop - 1) + '/' + cr_len_text(self._length))",
        ],
    )
    reg.contract(
        "werkzeug/datastructures/range.py:ContentRange.__bool__", prop=P, self_model=CR, returns="bool",
        ensures=["result == (self._units is not None)"],
    )
