"""C06 / C16 -- serialisers whose output is a function of integers and Optionals (proved part)."""


def register(reg):
    P = "C06,C16"
    CR = reg.model("ContentRange", cls="werkzeug/datastructures/range.py:ContentRange",
                   fields={"_units": "Optional[str]", "_start": "Optional[int]", "_stop": "Optional[int]",
                           "_length": "Optional[int]", "on_update": "Optional[opaque:callback]"})
    reg.spec("cr_len_text(length)", "'*' if length is None else str(length)")
    reg.contract(
        "werkzeug/datastructures/range.py:ContentRange.to_header", prop=P, self_model=CR, replay="method", returns="str",
        assumes=["(self._start is None) == (self._stop is None)"],
        ensures=[
            "implies(self._units is None, result == '')",
            # unsatisfied-range form: bytes */<complete length> -- a known length of 0 is written as 0
            "implies(self._units is not None and self._start is None, "
            "        result == self._units + ' */' + cr_len_text(self._length))",
            "implies(self._units is not None and self._start is not None, "
            "        result == self._units + ' ' + str(self._start) + '-' + str(self._stop - 1) + '/' + cr_len_text(self._length))",
        ],
    )
    reg.contract(
        "werkzeug/datastructures/range.py:ContentRange.__bool__", prop=P, self_model=CR, returns="bool",
        ensures=["result == (self._units is not None)"],
    )

    # ---- cache-control typed accessors at dict level -------------------------------------------------------
    P2 = "C06,C16"
    CC = reg.model("CacheControl", cls="werkzeug/datastructures/cache_control.py:_CacheControl",
                   fields={"__dict__": "Dict[str, Optional[str]]", "on_update": "Optional[opaque:callback]", "provided": "bool"})
    reg.spec("CD(self)", "self.__dict__")
    reg.spec("others_kept(self, key)", "forall_s(lambda k: implies(k != key, (k in CD(self)) == (k in old(CD(self)))))")
    reg.contract(
        "werkzeug/datastructures/cache_control.py:_CacheControl._set_cache_value#bool", prop=P2, self_model=CC,
        params={"key": "str", "value": "bool", "type": ("builtin", "bool")},
        ensures=["(key in CD(self)) == value", "implies(value, CD(self)[key] is None)", "others_kept(self, key)"],
    )
    reg.contract(
        "werkzeug/datastructures/cache_control.py:_CacheControl._get_cache_value#bool", prop=P2, self_model=CC,
        params={"key": "str", "empty": "Optional[str]", "type": ("builtin", "bool")},
        ensures=["result == (key in CD(self))"],
    )
    reg.contract(
        "werkzeug/datastructures/cache_control.py:_CacheControl._set_cache_value#int", prop=P2, self_model=CC,
        params={"key": "str", "value": "Optional[int]", "type": ("builtin", "int")},
        ensures=["(key in CD(self)) == (value is not None)",
                 "implies(value is not None, CD(self)[key] == str(value))", "others_kept(self, key)"],
    )
    reg.contract(
        "werkzeug/datastructures/cache_control.py:_CacheControl._get_cache_value#int", prop=P2, self_model=CC,
        params={"key": "str", "empty": "Optional[int]", "type": ("builtin", "int")},
        ensures=["implies(not (key in CD(self)), result is None)",
                 "implies(key in CD(self) and CD(self)[key] is None, result == empty)",
                 # what was stored by the int setter reads back as that int
                 "implies(key in CD(self) and CD(self)[key] is not None and re_in(CD(self)[key], '-?[0-9]+') "
                 "        and len(CD(self)[key]) <= int_max_digits(), result == str_to_int(CD(self)[key]))"],
        raises={},
    )
    reg.contract(
        "werkzeug/datastructures/cache_control.py:_CacheControl._del_cache_value", prop=P2, self_model=CC,
        params={"key": "str"},
        ensures=["not (key in CD(self))", "others_kept(self, key)"],
    )
