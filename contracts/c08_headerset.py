"""C08 / C16 -- HeaderSet: a case-insensitive ordered set (parallel list + lower-cased set)."""


def register(reg):
    P = "C08,C16"
    HS = reg.model("HeaderSet", cls="werkzeug/datastructures/structures.py:HeaderSet",
                   fields={"_headers": "List[str]", "_set": "Set[str]", "on_update": "Optional[opaque:callback]",
                           "_pos": "Dict[str, int]"})       # _pos: ghost witness (lower-cased key -> index)
    # representation invariant: the set is exactly the lower-cased list, without duplicates
    reg.spec("I_hs(self)",
             "forall(0, len(self._headers), lambda i: self._headers[i].lower() in self._set "
             "       and self._pos[self._headers[i].lower()] == i) and "
             "forall_s(lambda x: implies(x in self._set, 0 <= self._pos[x] and self._pos[x] < len(self._headers) "
             "       and self._headers[self._pos[x]].lower() == x))")
    reg.spec("I_hs_a(self)",
             "forall(0, len(self._headers), lambda i: self._headers[i].lower() in self._set "
             "       and self._pos[self._headers[i].lower()] == i)")
    reg.spec("I_hs_b(self)",
             "forall_s(lambda x: implies(x in self._set, 0 <= self._pos[x] and self._pos[x] < len(self._headers) "
             "       and self._headers[self._pos[x]].lower() == x))")
    reg.spec("member(self, header)", "exists(0, len(self._headers), lambda i: self._headers[i].lower() == header.lower())")

    reg.contract(
        "werkzeug/datastructures/structures.py:HeaderSet.__contains__", prop=P, self_model=HS,
        params={"header": "str"}, returns="bool", requires=["I_hs(self)"],
        ensures=["result == member(self, header)"],
    )
    reg.contract(
        "werkzeug/datastructures/structures.py:HeaderSet.find", modifies=[], prop=P, self_model=HS,
        params={"header": "str"}, returns="int", requires=["I_hs(self)"],
        ensures=["implies(result < 0, result == -1 and not member(self, header))",
                 "implies(result >= 0, result < len(self._headers) and self._headers[result].lower() == header.lower() "
                 "        and forall(0, result, lambda k: self._headers[k].lower() != header.lower()))"],
        loops={0: {"inv": ["forall(0, _i, lambda k: self._headers[k].lower() != header)"]}},
    )
    reg.contract(
        "werkzeug/datastructures/structures.py:HeaderSet.index", prop=P, self_model=HS,
        params={"header": "str"}, returns="int", requires=["I_hs(self)"],
        ensures=["0 <= result and result < len(self._headers) and self._headers[result].lower() == header.lower()"],
        raises={"IndexError": "not member(self, header)"},
    )
    reg.contract(
        "werkzeug/datastructures/structures.py:HeaderSet.__getitem__", prop=P, self_model=HS,
        params={"idx": "int"}, returns="str",
        ensures=["result == self._headers[idx if idx >= 0 else idx + len(self._headers)]"],
        raises={"IndexError": "not (-len(self._headers) <= idx and idx < len(self._headers))"},
    )
    reg.contract(
        "werkzeug/datastructures/structures.py:HeaderSet.add", prop=P, self_model=HS,
        params={"header": "str"}, requires=["I_hs(self)"],
        ensures=[
            "I_hs_a(self)", "I_hs_b(self)",
            # already present (under lower()): nothing changes, nobody is notified
            "implies(old(member(self, header)), self._headers == old(self._headers) and self._set == old(self._set) "
            "        and ncalls() == 0)",
            # new: appended at the end, everything else untouched, one notification with the final state
            "implies(not old(member(self, header)), len(self._headers) == len(old(self._headers)) + 1 "
            "        and self._headers[len(self._headers) - 1] == header "
            "        and forall(0, len(old(self._headers)), lambda i: self._headers[i] == old(self._headers)[i]) "
            "        and forall_s(lambda x: (x in self._set) == (x in old(self._set) or x == header.lower())))",
            "implies(not old(member(self, header)), (self.on_update is None and ncalls() == 0) or "
            "        (self.on_update is not None and ncalls() == 1 and notified_final(self)))",
        ],
    )
    reg.contract("werkzeug/datastructures/structures.py:HeaderSet.update", prop=P, inline=True,
                 ghost_after={"self._set.add(key)": ["self._pos[key] = len(self._headers) - 1"]})
    # update() with an arbitrary list of names (add() above covers the one-element case through the same body): the
    # invariant survives names repeated -- in any letter case -- inside one call, the old entries stay where they are, and
    # the owner is told exactly when something was inserted
    reg.contract(
        "werkzeug/datastructures/structures.py:HeaderSet.update#list", prop=P, self_model=HS,
        params={"iterable": "List[str]"}, requires=["I_hs(self)"],
        ghost_after={"self._set.add(key)": ["self._pos[key] = len(self._headers) - 1"]},
        ensures=["I_hs_a(self)", "I_hs_b(self)",
                 "forall(0, len(iterable), lambda j: member(self, iterable[j]))",
                 "len(old(self._headers)) <= len(self._headers) and len(self._headers) <= len(old(self._headers)) + len(iterable)",
                 "forall(0, len(old(self._headers)), lambda i: self._headers[i] == old(self._headers)[i])",
                 "implies(len(self._headers) == len(old(self._headers)), ncalls() == 0)",
                 "implies(len(self._headers) > len(old(self._headers)), notified_once(self))"],
        raises={},
        loops={0: {"inv": ["I_hs_a(self)", "I_hs_b(self)", "forall(0, _i, lambda j: member(self, iterable[j]))",
                           "len(old(self._headers)) <= len(self._headers) and len(self._headers) <= len(old(self._headers)) + _i",
                           "forall(0, len(old(self._headers)), lambda i: self._headers[i] == old(self._headers)[i])",
                           "inserted_any == (len(self._headers) > len(old(self._headers)))", "ncalls() == 0"],
                   "modifies": ["self._headers", "self._set", "self._pos", "inserted_any"]}},
    )
    reg.contract(
        "werkzeug/datastructures/structures.py:HeaderSet.remove", prop=P, self_model=HS,
        params={"header": "str"}, requires=["I_hs(self)"],
        modifies=["self._headers", "self._set", "self._pos"],
        ghost_after={"del self._headers[idx]": ["ghost_shift_down(self._pos, idx)"]},
        ensures=[
            "I_hs_a(self)", "I_hs_b(self)",
            "old(member(self, header))",
            "len(self._headers) == len(old(self._headers)) - 1",
            # exactly the entry that equals header under lower() is gone; order of the rest preserved
            "forall(0, len(self._headers), lambda k: self._headers[k] == "
            "       (old(self._headers)[k] if k < old(self._pos)[header.lower()] else old(self._headers)[k + 1]))",
            "forall_s(lambda x: (x in self._set) == (x in old(self._set) and x != header.lower()))",
            "(self.on_update is None and ncalls() == 0) or (self.on_update is not None and ncalls() == 1 and notified_final(self))",
        ],
        raises={"KeyError": "not old(member(self, header))"},
        raises_ensures={"KeyError": ["self._headers == old(self._headers) and self._set == old(self._set) and ncalls() == 0"]},
        loops={0: {"inv": ["forall(0, _i, lambda k: self._headers[k].lower() != key)",
                           "self._headers == old(self._headers)", "key == old(header).lower()",
                           "not (key in self._set) and forall_s(lambda x: (x in self._set) == (x in old(self._set) and x != key))"],
                   "modifies": []}},
    )

    reg.spec("nidx(self, idx)", "idx if idx >= 0 else idx + len(self._headers)")
    reg.spec("notified_once(self)",
             "(self.on_update is None and ncalls() == 0) or (self.on_update is not None and ncalls() == 1 and notified_final(self))")
    reg.contract(
        "werkzeug/datastructures/structures.py:HeaderSet.discard", prop=P, self_model=HS,
        params={"header": "str"}, requires=["I_hs(self)"],
        inline_callees=["werkzeug/datastructures/structures.py:HeaderSet.remove"],
        ensures=["I_hs_a(self)", "I_hs_b(self)",
                 "implies(not old(member(self, header)), self._headers == old(self._headers) and self._set == old(self._set) and ncalls() == 0)",
                 "implies(old(member(self, header)), len(self._headers) == len(old(self._headers)) - 1 and not member(self, header) "
                 "        and notified_once(self))"],
    )
    reg.contract(
        "werkzeug/datastructures/structures.py:HeaderSet.clear", prop=P, self_model=HS, requires=["I_hs(self)"],
        ensures=["I_hs_a(self)", "I_hs_b(self)", "len(self._headers) == 0", "forall_s(lambda x: not (x in self._set))", "notified_once(self)"],
    )
    reg.contract(
        "werkzeug/datastructures/structures.py:HeaderSet.__delitem__", prop=P, self_model=HS, params={"idx": "int"},
        requires=["I_hs(self)"],
        ghost_after={"rv = self._headers.pop(idx)": ["ghost_shift_down(self._pos, idx if idx >= 0 else idx + len(self._headers) + 1)"]},
        ensures=["I_hs_a(self)", "I_hs_b(self)", "len(self._headers) == len(old(self._headers)) - 1",
                 "forall(0, len(self._headers), lambda k: self._headers[k] == "
                 "       (old(self._headers)[k] if k < old(nidx(self, idx)) else old(self._headers)[k + 1]))",
                 "notified_once(self)"],
        raises={"IndexError": "not (-len(old(self._headers)) <= idx and idx < len(old(self._headers)))"},
    )
    reg.contract(
        "werkzeug/datastructures/structures.py:HeaderSet.__setitem__", prop=P, self_model=HS,
        params={"idx": "int", "value": "str"},
        # set semantics: the new value must not collide with ANOTHER entry (the code does not check this)
        requires=["I_hs(self)"],
        assumes=["implies(-len(self._headers) <= idx and idx < len(self._headers), "
                 "  not (value.lower() in self._set) or value.lower() == self._headers[nidx(self, idx)].lower())"],
        ghost_after={"self._set.add(value.lower())": ["self._pos[value.lower()] = idx if idx >= 0 else idx + len(self._headers)"]},
        ensures=["I_hs_a(self)", "I_hs_b(self)", "len(self._headers) == len(old(self._headers))",
                 "forall(0, len(self._headers), lambda k: self._headers[k] == (value if k == nidx(self, idx) else old(self._headers)[k]))",
                 "notified_once(self)"],
        raises={"IndexError": "not (-len(old(self._headers)) <= idx and idx < len(old(self._headers)))"},
    )

    # ---- the constructor establishes the invariant (base case of the induction over histories)
    reg.contract(
        "werkzeug/datastructures/structures.py:HeaderSet.__init__", prop=P, self_model=HS,
        params={"headers": "Optional[List[str]]", "on_update": "Optional[opaque:callback]"},
        ghost_after={"self._set.add(header.lower())": ["self._pos[header.lower()] = len(self._headers) - 1"]},
        ensures=["I_hs(self)",
                 "implies(headers is not None, forall(0, len(headers), lambda j: member(self, headers[j])))",
                 "implies(headers is None, len(self._headers) == 0)",
                 "implies(headers is not None, len(self._headers) <= len(headers))",
                 "self.on_update == on_update"],
        raises={},
        loops={0: {"inv": ["I_hs_a(self)", "I_hs_b(self)", "forall(0, _i, lambda j: member(self, headers[j]))",
                           "len(self._headers) <= _i"],
                   "modifies": ["self._headers", "self._set", "self._pos"]}},
    )
    _register_parse_set_header(reg)


def _register_parse_set_header(reg):
    """parse_set_header: the HeaderSet handed out (response.vary / allow / content_language ...) is live -- it carries the
    caller's write-back callback, for an absent / empty header too -- satisfies the set's invariant and holds every item of
    the header (HeaderSet.__init__'s contract; parse_list_header's own contract: C06 / C07)"""
    HS = reg.models["HeaderSet"]
    reg.contract(
        "werkzeug/http.py:parse_set_header", prop="C16,C08",
        params={"value": "Optional[str]", "on_update": "Optional[opaque:callback]"}, returns=HS,
        ensures=["result.on_update == on_update", "I_hs(result)",
                 "implies(value is None or len(value) == 0, len(result._headers) == 0)"],
        raises={},
    )
