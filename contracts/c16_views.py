"""C16 -- live views notify after every mutation (so the response header is rewritten from the final state)."""


def register(reg):
    P = "C16"
    UD = reg.model("UpdateDict", cls="werkzeug/datastructures/mixins.py:UpdateDictMixin",
                   fields={"__dict__": "Dict[str, opaque:any]", "on_update": "Optional[opaque:callback]"})
    reg.spec("ud_notified(self)",
             "(self.on_update is None and ncalls() == 0) or (self.on_update is not None and ncalls() == 1 and notified_final(self))")
    reg.spec("DD(self)", "self.__dict__")
    reg.contract(
        "werkzeug/datastructures/mixins.py:UpdateDictMixin.__setitem__", prop=P, self_model=UD,
        params={"key": "str", "value": "opaque:any"},
        ensures=["key in DD(self) and DD(self)[key] == value",
                 "forall_s(lambda k: implies(k != key, (k in DD(self)) == (k in old(DD(self)))))",
                 "ud_notified(self)"],
    )
    reg.contract(
        "werkzeug/datastructures/mixins.py:UpdateDictMixin.__delitem__", prop=P, self_model=UD, params={"key": "str"},
        ensures=["old(key in DD(self)) and not (key in DD(self))",
                 "forall_s(lambda k: implies(k != key, (k in DD(self)) == (k in old(DD(self)))))",
                 "ud_notified(self)"],
        raises={"KeyError": "not old(key in DD(self))"},
        raises_ensures={"KeyError": ["ncalls() == 0"]},
    )
    reg.contract(
        "werkzeug/datastructures/mixins.py:UpdateDictMixin.clear", prop=P, self_model=UD,
        ensures=["forall_s(lambda k: not (k in DD(self)))", "ud_notified(self)"],
    )
    reg.contract(
        "werkzeug/datastructures/mixins.py:UpdateDictMixin.setdefault", prop=P, self_model=UD,
        params={"key": "str", "default": "opaque:any"},
        ensures=["key in DD(self)",
                 "implies(old(key in DD(self)), ncalls() == 0 and DD(self)[key] == old(DD(self))[key])",
                 "implies(not old(key in DD(self)), DD(self)[key] == default and ud_notified(self))",
                 "forall_s(lambda k: implies(k != key, (k in DD(self)) == (k in old(DD(self)))))"],
    )
    reg.contract(
        "werkzeug/datastructures/mixins.py:UpdateDictMixin.pop", prop=P, self_model=UD,
        params={"key": "str", "default": "opaque:any"},
        ensures=["not (key in DD(self))",
                 "implies(old(key in DD(self)), ud_notified(self))",
                 "implies(not old(key in DD(self)), ncalls() == 0 and result == default)",
                 "forall_s(lambda k: implies(k != key, (k in DD(self)) == (k in old(DD(self)))))"],
    )

    # ContentRange: set / unset / attribute assignment notify with the final state
    CR = reg.models["ContentRange"] if "ContentRange" in reg.models else None
