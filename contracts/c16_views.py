"""C16 -- live views notify after every mutation (so the response header is rewritten from the final state)."""


def register(reg):
    P = "C16"
    UD = reg.model("UpdateDict", cls="werkzeug/datastructures/mixins.py:UpdateDictMixin",
                   fields={"__dict__": "Dict[str, opaque:any]", "on_update": "Optional[opaque:callback]"})
    reg.spec("ud_notified(self)",
             "(self.on_update is None and ncalls() == 0) or (self.on_update is not None and ncalls() == 1 and notified_final(self))")
    reg.spec("DD(self)", "self.__dict__")
    reg.contract(
        "werkzeug/datastructures/mixins.py:UpdateDictMixin.__setitem__", prop=P, self_model=UD, call_inline=True,
        params={"key": "str", "value": "opaque:any"},
        ensures=["key in DD(self) and DD(self)[key] == value",
                 "forall_s(lambda k: implies(k != key, (k in DD(self)) == (k in old(DD(self)))))",
                 "ud_notified(self)"],
    )
    reg.contract(
        "werkzeug/datastructures/mixins.py:UpdateDictMixin.__delitem__", prop=P, self_model=UD, call_inline=True, params={"key": "str"},
        ensures=["old(key in DD(self)) and not (key in DD(self))",
                 "forall_s(lambda k: implies(k != key, (k in DD(self)) == (k in old(DD(self)))))",
                 "ud_notified(self)"],
        raises={"KeyError": "not old(key in DD(self))"},
        raises_ensures={"KeyError": ["ncalls() == 0"]},
    )
    reg.contract(
        "werkzeug/datastructures/mixins.py:UpdateDictMixin.clear", prop=P, self_model=UD, call_inline=True,
        ensures=["forall_s(lambda k: not (k in DD(self)))", "ud_notified(self)"],
    )
    reg.contract(
        "werkzeug/datastructures/mixins.py:UpdateDictMixin.setdefault", prop=P, self_model=UD, call_inline=True,
        params={"key": "str", "default": "opaque:any"},
        ensures=["key in DD(self)",
                 "implies(old(key in DD(self)), ncalls() == 0 and DD(self)[key] == old(DD(self))[key])",
                 "implies(not old(key in DD(self)), DD(self)[key] == default and ud_notified(self))",
                 "forall_s(lambda k: implies(k != key, (k in DD(self)) == (k in old(DD(self)))))"],
    )
    reg.contract(
        "werkzeug/datastructures/mixins.py:UpdateDictMixin.pop", prop=P, self_model=UD, call_inline=True,
        params={"key": "str", "default": "opaque:any"},
        ensures=["not (key in DD(self))",
                 "implies(old(key in DD(self)), ud_notified(self))",
                 "implies(not old(key in DD(self)), ncalls() == 0 and result == default)",
                 "forall_s(lambda k: implies(k != key, (k in DD(self)) == (k in old(DD(self)))))"],
    )

    # ContentRange: set / unset / attribute assignment notify with the final state
    CR = reg.models["ContentRange"] if "ContentRange" in reg.models else None
    CRm = reg.models["ContentRange"]
    reg.contract(
        "werkzeug/datastructures/range.py:ContentRange.set", prop=P, self_model=CRm,
        params={"start": "Optional[int]", "stop": "Optional[int]", "length": "Optional[int]", "units": "Optional[str]"},
        ensures=["self._units == units and self._start == start and self._stop == stop and self._length == length",
                 "valid_range(start, stop, length)", "ud_notified(self)"],
        raises={"AssertionError": "not valid_range(start, stop, length)"},
        raises_ensures={"AssertionError": ["ncalls() == 0", "self._units == old(self._units) and self._start == old(self._start)"]},
    )
    reg.contract(
        "werkzeug/datastructures/range.py:ContentRange.unset", prop=P, self_model=CRm,
        inline_callees=["werkzeug/datastructures/range.py:ContentRange.set"],
        ensures=["self._units is None and self._start is None and self._stop is None and self._length is None",
                 "ud_notified(self)"],
    )

    # ---- WWWAuthenticate: attribute assignment reaches the scheme / token, everything else is a parameter ----
    WA = reg.model("WWWAuthenticate", cls="werkzeug/datastructures/auth.py:WWWAuthenticate",
                   fields={"_type": "str", "_token": "Optional[str]", "_parameters": "Dict[str, str]",
                           "_on_update": "Optional[opaque:callback]"})
    reg.spec("wa_notified(self)",
             "(self._on_update is None and ncalls() == 0) or (self._on_update is not None and ncalls() >= 1 and notified_final(self))")
    reg.contract(
        "werkzeug/datastructures/auth.py:WWWAuthenticate.__setattr__#type", prop=P, self_model=WA,
        params={"name": ("const", "type"), "value": "str"},
        ensures=["self._type == value", "self._token == old(self._token)", "wa_notified(self)"],
    )
    reg.contract(
        "werkzeug/datastructures/auth.py:WWWAuthenticate.__setattr__#token", prop=P, self_model=WA,
        params={"name": ("const", "token"), "value": "Optional[str]"},
        ensures=["self._token == value", "self._type == old(self._type)", "wa_notified(self)"],
    )
    reg.contract(
        "werkzeug/datastructures/auth.py:WWWAuthenticate.__setattr__#param", prop=P, self_model=WA,
        params={"name": "str", "value": "str"},
        assumes=["name != 'type' and name != 'token' and name != 'parameters' and name != '_type' and name != '_token' "
                 "and name != '_parameters' and name != '_on_update'"],
        ensures=["name in self._parameters and self._parameters[name] == value",
                 "self._type == old(self._type) and self._token == old(self._token)", "wa_notified(self)"],
    )
    reg.contract(
        "werkzeug/datastructures/auth.py:WWWAuthenticate.__delitem__", prop=P, self_model=WA, params={"key": "str"},
        ensures=["not (key in self._parameters)",
                 "implies(old(key in self._parameters), wa_notified(self))",
                 "implies(not old(key in self._parameters), ncalls() == 0)"],
    )
