"""C03 / C12 -- MapAdapter.match: how the matcher's verdict is translated (404 / 405 / websocket mismatch / redirects)."""


def register(reg):
    P = "C03,C12"
    # the state-machine matcher itself is out of reach (recursive backtracking over run-time compiled regexes):
    # its verdict is abstract -- 0 match, 1 RequestPath (slash / merged-slash redirect), 2 alias redirect, 3 no match
    reg.ufunc("m_outcome", ["str", "str", "str", "bool"], "int")
    reg.ufunc("m_methods", ["str", "str", "str", "bool"], "Set[str]")
    reg.ufunc("m_wsmis", ["str", "str", "str", "bool"], "bool")
    reg.ufunc("m_path", ["str", "str", "str", "bool"], "str")
    RuleM = reg.model("RuleM", fields={"endpoint": "str", "redirect_to": "none"})
    Mt = reg.model("MatcherM", fields={})
    reg.contract(
        "model:MatcherM.match", prop=P, trusted=True, param_names=["self", "domain", "path", "method", "websocket"],
        returns=("tuple", [("obj", RuleM), ("opaque", "values")]),
        # leading-slash normalisation is demanded of the caller: a request path can never smuggle an authority
        requires=["path == '' or (path.startswith('/') and not path.startswith('//'))"],
        ensures=["m_outcome(domain, path, method, websocket) == 0"],
        raises={"RequestPath": "m_outcome(domain, path, method, websocket) == 1",
                "RequestAliasRedirect": "m_outcome(domain, path, method, websocket) == 2",
                "NoMatch": "m_outcome(domain, path, method, websocket) == 3"},
        raises_fields={"RequestPath": {"path_info": "str"},
                       "RequestAliasRedirect": {"endpoint": "str", "matched_values": "opaque:values"},
                       "NoMatch": {"have_match_for": "Set[str]", "websocket_mismatch": "bool"}},
        raises_ensures={"RequestPath": ["exc.path_info == m_path(domain, path, method, websocket)"],
                        "NoMatch": ["exc.have_match_for == m_methods(domain, path, method, websocket)",
                                    "exc.websocket_mismatch == m_wsmis(domain, path, method, websocket)"]},
    )
    MapMM = reg.model("MapMM", fields={"host_matching": "bool", "redirect_defaults": "bool", "_matcher": Mt})
    reg.contract("model:MapMM.update", prop=P, trusted=True, param_names=["self"])
    AdM = reg.model("MapAdapterM", cls="werkzeug/routing/map.py:MapAdapter",
                    fields={"map": MapMM, "server_name": "str", "script_name": "str", "subdomain": "Optional[str]",
                            "url_scheme": "str", "query_args": "Optional[str]", "path_info": "str",
                            "default_method": "str", "websocket": "bool"})
    reg.contract("werkzeug/routing/map.py:MapAdapter.get_default_redirect", prop=P, trusted=True,
                 params={"rule": RuleM, "method": "str", "values": "opaque:values", "query_args": "str"},
                 returns="Optional[str]", note="defaults canonicalisation: bounded tier + static query-args provenance")
    reg.contract("werkzeug/routing/map.py:MapAdapter.make_alias_redirect_url", prop=P, trusted=True,
                 params={"path": "str", "endpoint": "str", "values": "opaque:values", "method": "str", "query_args": "str"},
                 returns="str", note="goes through build(force_external=True): bounded tier")
    reg.spec("dom(self)", "self.subdomain if (not self.map.host_matching and self.subdomain is not None) else self.server_name")
    reg.spec("ppart(p)", "('/' + p.lstrip('/')) if len(p) > 0 else ''")
    reg.spec("oc(self, path_info, method, websocket)", "m_outcome(dom(self), ppart(path_info), method.upper(), websocket)")
    reg.contract(
        "werkzeug/routing/map.py:MapAdapter.match", prop=P, self_model=AdM,
        params={"path_info": "str", "method": "str", "return_rule": "bool", "query_args": "str", "websocket": "bool"},
        assumes=["len(self.server_name) > 0", "len(method) > 0"],
        ensures=["oc(self, path_info, method, websocket) == 0"],
        raises={
            # NotFound only when no rule admits the path; MethodNotAllowed exactly when rules admit it for other methods
            "NotFound": "oc(self, path_info, method, websocket) == 3 and "
                        "not bool(m_methods(dom(self), ppart(path_info), method.upper(), websocket)) and "
                        "not m_wsmis(dom(self), ppart(path_info), method.upper(), websocket)",
            "MethodNotAllowed": "oc(self, path_info, method, websocket) == 3 and "
                                "bool(m_methods(dom(self), ppart(path_info), method.upper(), websocket))",
            "WebsocketMismatch": "oc(self, path_info, method, websocket) == 3 and "
                                 "not bool(m_methods(dom(self), ppart(path_info), method.upper(), websocket)) and "
                                 "m_wsmis(dom(self), ppart(path_info), method.upper(), websocket)",
            # router redirects
            "RequestRedirect": "oc(self, path_info, method, websocket) != 3",
        },
        raises_ensures={"RequestRedirect": [
            # the slash / merged-slash redirect points at the bound scheme, host and script root, carries the
            # caller's query string, and the matcher's corrected path only ever lands in the path component
            "implies(oc(self, path_info, method, websocket) == 1, exc.args[0] == "
            "  (self.url_scheme if len(self.url_scheme) > 0 else 'http') + '://' + host_of(self, None) + "
            "  redirect_path(self.script_name, quote(m_path(dom(self), ppart(path_info), method.upper(), websocket), \"!$&'()*+,/:;=@\")) + "
            "  (('?' + query_args) if len(query_args) > 0 else ''))",
        ]},
    )

    # ---- the method / websocket gate of the recursive matcher (base cases of _match) -------------------------
    import z3
    from pyvc.values import VOpt, VSet, VBool, opaque_sort, StrS, BoolS
    RS = opaque_sort("rule")
    R_MNONE = z3.Function("rule_methods_none", RS, BoolS)
    R_METH = z3.Function("rule_methods", RS, z3.ArraySort(StrS, BoolS))
    R_WS = z3.Function("rule_websocket", RS, BoolS)
    R_STRICT = z3.Function("rule_strict_slashes", RS, BoolS)
    reg.overrides["opaque:rule.methods"] = lambda it, o, n: VOpt(R_MNONE(o.z), VSet(R_METH(o.z), "str"))
    reg.overrides["opaque:rule.websocket"] = lambda it, o, n: VBool(R_WS(o.z))
    reg.overrides["opaque:rule.strict_slashes"] = lambda it, o, n: VBool(R_STRICT(o.z))
    reg.overrides["opaque:state.rules"] = lambda it, o, n: it.fresh("List[opaque:rule]", "state_rules")
    reg.spec_names["rule_ok"] = __import__("pyvc.values", fromlist=["VBuiltin"]).VBuiltin(
        "spec:rule_ok", lambda it, a, k, n: VBool(z3.And(z3.Or(R_MNONE(a[0].z), z3.Select(R_METH(a[0].z), a[1].z)),
                                                         R_WS(a[0].z) == a[2].z)))
    StateLeaf = reg.model("StateLeaf", fields={"rules": "List[opaque:rule]"})
    StateM = reg.model("StateM", fields={"rules": "List[opaque:rule]", "static": "Dict[str, opaque:state]",
                                         "dynamic": "List[opaque:transition]"})
    reg.contract(
        "werkzeug/routing/matcher.py:StateMachineMatcher.match._match", prop="C03",
        params={"state": StateM, "parts": "List[str]", "values": "List[str]"},
        closure={"method": "str", "websocket": "bool", "have_match_for": "Set[str]", "websocket_mismatch": "bool"},
        # base cases: every part consumed, or only the trailing-slash part left and no dynamic transition to try
        assumes=["len(parts) == 0 or (len(parts) == 1 and parts[0] == '' and len(state.dynamic) == 0 and not ('' in state.static))"],
        ensures=[
            # a rule is only ever returned if it allows the request method and has the right websocket flag
            "result is None or rule_ok(result[0], method, websocket)",
        ],
        raises={"SlashRequired": "True"},
        loops={0: {"inv": ["True"], "modifies": ["have_match_for"]},
               1: {"inv": ["True"]}, 2: {"inv": ["True"]}, 3: {"inv": ["True"], "modifies": ["have_match_for"]}},
    )
    _register_weight_table(reg)
    _register_unicode_converter(reg)


def _register_weight_table(reg):
    """table (finite, exhaustive): the priority classes the property names -- int / float before string before path -- as the
    converter classes' own `weight` attributes, resolved through the MRO of the classes DEFAULT_CONVERTERS maps to; the
    matcher sorts dynamic transitions by that weight (StateMachineMatcher.update: `state.dynamic.sort(key=... .weight)`)"""
    import ast
    from pyvc.extract import ModuleInfo, ClassInfo

    @reg.table("C03", "converter-weights-order-int-float-string-path")
    def _weights():
        mod = ModuleInfo.get("werkzeug/routing/converters.py")
        table = None
        for st in mod.tree.body:
            tgt = st.target if isinstance(st, ast.AnnAssign) else (st.targets[0] if isinstance(st, ast.Assign) else None)
            if isinstance(tgt, ast.Name) and tgt.id == "DEFAULT_CONVERTERS" and isinstance(st.value, ast.Dict):
                table = {k.value: v.id for k, v in zip(st.value.keys, st.value.values)
                         if isinstance(k, ast.Constant) and isinstance(v, ast.Name)}
        if not table:
            return [("DEFAULT_CONVERTERS-found", False, "the name -> class table was not found as a dict literal")]

        def weight(cname):
            for k in mod.classes[cname].mro():
                if isinstance(k, ClassInfo) and "weight" in k.attrs:
                    return ast.literal_eval(k.attrs["weight"])
            return None
        w = {name: weight(cls) for name, cls in table.items()}
        res = [("all-seven-names", set(w) >= {"default", "string", "any", "path", "int", "float", "uuid"}, str(w))]
        res.append(("int-and-float-before-string", w.get("int") == w.get("float") and w["int"] is not None
                    and w["int"] < w["string"] and w["string"] == w["default"], str(w)))
        res.append(("string-before-path", w["string"] is not None and w["path"] is not None and w["string"] < w["path"]
                    and w["int"] < w["path"], str(w)))
        res.append(("no-converter-outranks-the-numbers-or-trails-path",
                    all(v is not None and w["int"] <= v <= w["path"] for v in w.values()), str(w)))
        # and the matcher really sorts the dynamic transitions by that attribute
        upd = ModuleInfo.get("werkzeug/routing/matcher.py").classes["StateMachineMatcher"].methods["update"][-1]
        sorts = [ast.unparse(n) for n in ast.walk(upd) if isinstance(n, ast.Call) and isinstance(n.func, ast.Attribute) and n.func.attr == "sort"]
        res.append(("dynamic-transitions-sorted-by-weight", sorts == ["state.dynamic.sort(key=lambda entry: entry[0].weight)"], str(sorts)))
        return res


def _register_unicode_converter(reg):
    """UnicodeConverter.__init__: the part regex carries the configured length bounds -- `string(minlength=a)`,
    `string(minlength=a, maxlength=b)` and `string(length=n)` admit exactly the segments of those lengths (the regex is
    what the state machine compiles; the declarative meaning of the rule is the one the arguments state)"""
    UC = reg.model("UnicodeConverterM", cls="werkzeug/routing/converters.py:UnicodeConverter",
                   fields={"regex": "str", "map": "opaque:map"})
    reg.contract(
        "werkzeug/routing/converters.py:UnicodeConverter.__init__", prop="C03,C04", self_model=UC,
        params={"map": "opaque:map", "minlength": "int", "maxlength": "Optional[int]", "length": "Optional[int]"},
        inline_callees=["werkzeug/routing/converters.py:BaseConverter.__init__"],
        ensures=[
            "implies(length is not None, self.regex == '[^/]{' + str(length) + '}')",
            "implies(length is None and maxlength is None, self.regex == '[^/]{' + str(minlength) + ',}')",
            "implies(length is None and maxlength is not None, self.regex == '[^/]{' + str(minlength) + ',' + str(maxlength) + '}')",
        ],
        raises={},
    )
