"""C08 -- MultiDict: a dict of value lists; the single-value view is the first element of each list."""


def register(reg):
    P = "C08"
    MD = reg.model("MultiDict", cls="werkzeug/datastructures/structures.py:MultiDict",
                   fields={"__dict__": "Dict[str, List[str]]"})
    # MDD(self): the dict content of the dict subclass (symbolically the modelled field, natively dict(self))
    reg.builtin_spec("MDD", lambda it, a, k, n: (a[0].val if hasattr(a[0], "isnone") else a[0]).fields["__dict__"], lambda o: dict(dict.items(o)))
    reg.spec("L(self, key)", "MDD(self)[key]")
    reg.spec("others_same(self, key)", "forall_s(lambda k: implies(k != key, (k in MDD(self)) == (k in old(MDD(self)))))")
    reg.contract(
        "werkzeug/datastructures/structures.py:MultiDict.__getitem__", prop=P, self_model=MD, replay="method", params={"key": "str"},
        returns="str", modifies=[],
        ensures=["key in MDD(self) and len(L(self, key)) > 0 and result == L(self, key)[0]"],
        raises={"BadRequestKeyError": "not (key in MDD(self)) or len(L(self, key)) == 0"},
    )
    reg.contract(
        "werkzeug/datastructures/structures.py:MultiDict.__setitem__", prop=P, self_model=MD, replay="method", params={"key": "str", "value": "str"},
        modifies=["self.__dict__"],
        ensures=["key in MDD(self) and len(L(self, key)) == 1 and L(self, key)[0] == value", "others_same(self, key)"],
        raises={},
    )
    reg.contract(
        "werkzeug/datastructures/structures.py:MultiDict.add", prop=P, self_model=MD, replay="method", params={"key": "str", "value": "str"},
        modifies=["self.__dict__"],
        ensures=[
            "key in MDD(self)",
            # appended to the key's list (a new list if the key was absent); the earlier values keep their places
            "len(L(self, key)) == (len(old(MDD(self))[key]) + 1 if old(key in MDD(self)) else 1)",
            "L(self, key)[len(L(self, key)) - 1] == value",
            "implies(old(key in MDD(self)), forall(0, len(old(MDD(self))[key]), lambda i: L(self, key)[i] == old(MDD(self))[key][i]))",
            "others_same(self, key)",
        ],
        raises={},
    )
    reg.contract(
        "werkzeug/datastructures/structures.py:MultiDict.getlist", prop=P, self_model=MD, replay="method", params={"key": "str", "type": "none"},
        returns="List[str]", modifies=[],
        ensures=["implies(key in MDD(self), result == L(self, key))",
                 "implies(not (key in MDD(self)), len(result) == 0)"],
        raises={},
    )
    reg.contract(
        "werkzeug/datastructures/structures.py:MultiDict.setlist", prop=P, self_model=MD, replay="method",
        params={"key": "str", "new_list": "List[str]"}, modifies=["self.__dict__"],
        ensures=["key in MDD(self) and L(self, key) == new_list", "others_same(self, key)"],
        raises={},
    )
    reg.contract(
        "werkzeug/datastructures/structures.py:MultiDict.setdefault", prop=P, self_model=MD, replay="method",
        params={"key": "str", "default": "str"}, returns="str", modifies=["self.__dict__"],
        ensures=[
            "key in MDD(self) and len(L(self, key)) > 0 and result == L(self, key)[0]",
            "implies(old(key in MDD(self)), L(self, key) == old(MDD(self))[key])",
            "implies(not old(key in MDD(self)), len(L(self, key)) == 1 and result == default)",
            "others_same(self, key)",
        ],
        # a key that is present with an empty list of values (after setlist(k, [])) has no first value
        raises={"BadRequestKeyError": "old(key in MDD(self)) and len(old(MDD(self))[key]) == 0"},
    )
    reg.contract(
        "werkzeug/datastructures/structures.py:MultiDict.setlistdefault", prop=P, self_model=MD, replay="method",
        params={"key": "str", "default_list": "Optional[List[str]]"}, returns="List[str]", modifies=["self.__dict__"],
        ensures=[
            "key in MDD(self) and result == L(self, key)",
            "implies(old(key in MDD(self)), L(self, key) == old(MDD(self))[key])",
            "implies(not old(key in MDD(self)) and default_list is not None, L(self, key) == default_list)",
            "implies(not old(key in MDD(self)) and default_list is None, len(L(self, key)) == 0)",
            "others_same(self, key)",
        ],
        raises={},
    )
    reg.contract(
        "werkzeug/datastructures/structures.py:MultiDict.pop#nodefault", prop=P, self_model=MD, replay="method",
        params={"key": "str"}, returns="str", modifies=["self.__dict__"],
        ensures=["old(key in MDD(self)) and len(old(MDD(self))[key]) > 0 and result == old(MDD(self))[key][0]",
                 "not (key in MDD(self))", "others_same(self, key)"],
        raises={"BadRequestKeyError": "not old(key in MDD(self)) or len(old(MDD(self))[key]) == 0"},
    )
    reg.contract(
        "werkzeug/datastructures/structures.py:MultiDict.poplist", prop=P, self_model=MD, replay="method",
        params={"key": "str"}, returns="List[str]", modifies=["self.__dict__"],
        ensures=["implies(old(key in MDD(self)), result == old(MDD(self))[key])",
                 "implies(not old(key in MDD(self)), len(result) == 0)",
                 "not (key in MDD(self))", "others_same(self, key)"],
        raises={},
    )
