"""C11 -- conditional and range responses: integer/Optional arithmetic core."""


class FakeChunks:
    """native realiser of the ChunkIter model: fixed block size k, optionally seekable"""

    def __init__(self, whole, pos, k, seekable):
        self.whole, self.pos, self.k, self.seekable_ = whole, pos, k, seekable

    def __iter__(self):
        return self

    def __next__(self):
        if self.pos >= len(self.whole):
            raise StopIteration
        out = self.whole[self.pos:self.pos + self.k]
        self.pos += len(out)
        return out

    def seek(self, n):
        self.pos = n

    def tell(self):
        return self.pos

    def seekable(self):
        return self.seekable_


def replay_rw(reg, c, inputs):
    """bounded native search around the solver's model: block sizes 1..len(whole)+1"""
    from pyvc import runtime
    wsgi = runtime.import_real("werkzeug/wsgi.py")
    nc = runtime.NativeContract(reg, c)
    s = inputs["self"]
    it = s["iterable"]
    res = None
    for k in range(1, len(it["whole"]) + 2):
        rw = object.__new__(wsgi._RangeWrapper)
        rw.iterable = FakeChunks(it["whole"], it["pos"], k, s["seekable"])
        for f in ("byte_range", "start_byte", "end_byte", "read_length", "seekable", "end_reached"):
            setattr(rw, f, s[f])
        fails = nc.check_call(rw.__next__, [], {}, {"self": rw})
        if fails:
            return [f"block size {k}: " + "; ".join(fails)]
        if fails is not None:
            res = []
    return res


def register(reg):
    P = "C11"
    # what "a valid byte range" means (RFC 7233 / the property): both bounds or none;
    # with bounds 0 <= start < stop and, when the length is known, start < length.
    reg.spec("valid_range(start, stop, length)",
             "((length is None or length >= 0) if (start is None and stop is None) "
             "else (False if (start is None or stop is None) "
             "else (0 <= start < stop) if length is None "
             "else (0 <= start < stop and start < length)))")
    reg.contract(
        "werkzeug/http.py:is_byte_range_valid", modifies=[], prop=P,
        params={"start": "Optional[int]", "stop": "Optional[int]", "length": "Optional[int]"},
        returns="bool",
        ensures=["result == valid_range(start, stop, length)"],
        replay="pure",
    )

    RangeM = reg.model("Range", cls="werkzeug/datastructures/range.py:Range",
                       fields={"units": "str", "ranges": "List[Tuple[int, Optional[int]]]"})
    # representation invariant established by Range.__init__
    reg.spec("range_ok(b, e)", "e is None or (0 <= b and b < e)")
    reg.spec("I_range(self)", "forall(0, len(self.ranges), lambda i: range_ok(self.ranges[i][0], self.ranges[i][1]))")
    # the byte interval a single (b, e) asks for, against a resource of `length` bytes
    reg.spec("want_lo(b, e, length)", "b if e is not None or b >= 0 else length + b")
    reg.spec("want_hi(b, e, length)", "length if e is None else (e if e < length else length)")
    reg.spec("satisfiable(b, e, length)",
             "0 <= want_lo(b, e, length) and want_lo(b, e, length) < want_hi(b, e, length)")

    reg.contract(
        "werkzeug/datastructures/range.py:Range.__init__", prop=P,
        self_model=reg.model("RangeRaw", cls="werkzeug/datastructures/range.py:Range", fields={}),
        params={"units": "str", "ranges": "List[Tuple[Optional[int], Optional[int]]]"},
        ensures=["self.units == units",
                 "forall(0, len(ranges), lambda i: ranges[i][0] is not None and range_ok(ranges[i][0], ranges[i][1]))"],
        raises={"ValueError": "exists(0, len(ranges), lambda i: ranges[i][0] is None or not range_ok(ranges[i][0], ranges[i][1]))"},
        loops={0: {"inv": ["forall(0, _i, lambda i: ranges[i][0] is not None and range_ok(ranges[i][0], ranges[i][1]))"]}},
    )

    reg.contract(
        "werkzeug/datastructures/range.py:Range.range_for_length", prop=P, replay="method", modifies=[],
        self_model=RangeM, params={"length": "Optional[int]"}, returns="Optional[Tuple[int, int]]",
        requires=["I_range(self)", "length is None or length >= 0"],
        ensures=[
            # soundness: inside the resource, non-empty
            "result is None or (0 <= result[0] and result[0] < result[1] and result[1] <= length)",
            # inside what was asked for, and exactly that
            "result is None or (self.units == 'bytes' and len(self.ranges) == 1 and "
            " result[0] == want_lo(self.ranges[0][0], self.ranges[0][1], length) and "
            " result[1] == want_hi(self.ranges[0][0], self.ranges[0][1], length))",
            # completeness: None exactly for other units / unknown length / multi-range / unsatisfiable
            "(result is None) == (self.units != 'bytes' or length is None or len(self.ranges) != 1 or "
            " not satisfiable(self.ranges[0][0], self.ranges[0][1], length))",
        ],
    )

    # the Content-Range that is announced names exactly the slice range_for_length selects (first-last/length, inclusive)
    reg.contract(
        "werkzeug/datastructures/range.py:Range.to_content_range_header", prop=P, replay="method", modifies=[],
        self_model=RangeM, params={"length": "Optional[int]"}, returns="Optional[str]",
        requires=["I_range(self)", "length is None or length >= 0"],
        ensures=[
            "(result is None) == (self.units != 'bytes' or length is None or len(self.ranges) != 1 or "
            " not satisfiable(self.ranges[0][0], self.ranges[0][1], length))",
            "implies(result is not None, result == self.units + ' ' + str(want_lo(self.ranges[0][0], self.ranges[0][1], length)) + '-' + "
            "        str(want_hi(self.ranges[0][0], self.ranges[0][1], length) - 1) + '/' + str(length))",
        ],
        raises={},
    )

    # ---- _RangeWrapper: the body of a 206 is exactly whole[start : start + byte_range] ----------
    Chunks = reg.model("ChunkIter", fields={"whole": "bytes", "pos": "int", "seekable_": "bool", "has_seekable": "bool"},
                       hasattr={"seekable": "has_seekable"})
    reg.contract("model:ChunkIter.seekable", prop=P, trusted=True, param_names=["self"], returns="bool", modifies=[],
                 ensures=["result == self.seekable_"])
    reg.contract(
        "model:ChunkIter.__next__", prop=P, trusted=True, param_names=["self"], returns="bytes",
        modifies=["self.pos"],
        ensures=["len(result) >= 1", "old(self.pos) + len(result) <= len(self.whole)",
                 "result == self.whole[old(self.pos):old(self.pos) + len(result)]",
                 "self.pos == old(self.pos) + len(result)"],
        raises={"StopIteration": "self.pos >= len(self.whole)"},
        note="an iterator over non-empty chunks that concatenate to `whole` (block size arbitrary)",
    )
    reg.contract("model:ChunkIter.seek", prop=P, trusted=True, param_names=["self", "n"], requires=["n >= 0"],
                 modifies=["self.pos"], ensures=["self.pos == n"])
    reg.contract("model:ChunkIter.tell", prop=P, trusted=True, param_names=["self"], returns="int",
                 ensures=["result == self.pos"])
    RW = reg.model("_RangeWrapper", cls="werkzeug/wsgi.py:_RangeWrapper",
                   fields={"iterable": Chunks, "byte_range": "Optional[int]", "start_byte": "int",
                           "end_byte": "Optional[int]", "read_length": "int", "seekable": "bool", "end_reached": "bool"})
    reg.spec("J_rw(self)",
             "0 <= self.start_byte and (self.byte_range is None) == (self.end_byte is None) "
             "and (self.byte_range is None or (self.byte_range >= 0 and self.end_byte == self.start_byte + self.byte_range)) "
             "and self.read_length == self.iterable.pos and 0 <= self.iterable.pos "
             "and (self.iterable.pos <= len(self.iterable.whole) or (self.seekable and self.read_length == self.start_byte)) "
             "and (self.read_length == 0 or self.read_length >= self.start_byte) "
             "and (self.end_reached or self.read_length == 0 or self.end_byte is None or self.read_length < self.end_byte)")
    reg.spec("cursor(self)", "self.start_byte if self.read_length == 0 else self.read_length")
    reg.contract(
        "werkzeug/wsgi.py:_RangeWrapper._first_iteration", prop=P, inline=True,
        loops={0: {
            "types": {"chunk": "Optional[bytes]"},
            "modifies": ["self.read_length", "self.iterable.pos"],
            "inv": ["self.read_length == self.iterable.pos", "self.iterable.pos <= len(self.iterable.whole)",
                    "0 <= self.read_length",
                    "(chunk is None) == (self.read_length == 0)",
                    "chunk is None or (len(chunk) >= 1 and len(chunk) <= self.read_length and "
                    " chunk == self.iterable.whole[self.read_length - len(chunk):self.read_length] and "
                    " self.read_length - len(chunk) <= self.start_byte)",
                    "not self.end_reached"],
            "decreases": "len(self.iterable.whole) - self.read_length",
        }},
    )
    reg.contract(
        "werkzeug/wsgi.py:_RangeWrapper.__next__", prop=P, self_model=RW, returns="bytes", replay=replay_rw,
        requires=["J_rw(self)"],
        ensures=[
            "len(result) >= 1",
            "result == self.iterable.whole[old(cursor(self)):old(cursor(self)) + len(result)]",
            "old(cursor(self)) + len(result) <= len(self.iterable.whole)",
            "self.end_byte is None or old(cursor(self)) + len(result) <= self.end_byte",
            # nothing skipped, nothing repeated: the next call continues where this one stopped
            "self.end_reached or self.read_length == old(cursor(self)) + len(result)",
            # a chunk is cut short only at the end of the requested range
            "implies(self.end_reached, self.end_byte is not None and (old(cursor(self)) + len(result) == self.end_byte "
            "        or self.iterable.pos == len(self.iterable.whole) and self.read_length < old(cursor(self)) + len(result) + 1))",
            "J_rw(self)",
            "self.start_byte == old(self.start_byte) and self.end_byte == old(self.end_byte) and self.byte_range == old(self.byte_range)",
        ],
        raises={"StopIteration": "old(self.end_reached) or (self.end_byte is not None and old(cursor(self)) >= self.end_byte) "
                                 "or self.iterable.pos >= len(self.iterable.whole)"},
        raises_ensures={"StopIteration": ["self.end_reached"]},
    )

    # the constructor establishes the wrapper's invariant for a fresh body iterator (base case: __next__ requires and keeps J_rw)
    reg.contract(
        "werkzeug/wsgi.py:_RangeWrapper.__init__", prop=P, self_model=RW,
        params={"iterable": Chunks, "start_byte": "int", "byte_range": "Optional[int]"},
        requires=["iterable.pos == 0", "start_byte >= 0", "byte_range is None or byte_range >= 0"],
        ensures=["J_rw(self)", "self.iterable is iterable", "self.start_byte == start_byte", "self.byte_range == byte_range",
                 "self.read_length == 0 and not self.end_reached",
                 "(self.end_byte is None) == (byte_range is None)",
                 "byte_range is None or self.end_byte == start_byte + byte_range",
                 "self.seekable == (iterable.has_seekable and iterable.seekable_)"],
        raises={},
    )

    # ---- validators: is_resource_modified ----------------------------------------------------
    # datetimes: `ts` = the instant in whole POSIX seconds (naive values read as UTC), `us` = microseconds
    DT = reg.model("DT", fields={"ts": "int", "us": "int"}, order_key=["ts", "us"])
    reg.contract("model:DT.replace", prop=P, trusted=True, param_names=["self", "microsecond"], returns=DT,
                 ensures=["result.ts == self.ts", "result.us == microsecond"],
                 note="datetime.replace(microsecond=0)")
    reg.contract("werkzeug/_internal.py:_dt_as_utc", prop=P, trusted=True, params={"dt": DT}, returns=DT,
                 ensures=["result.ts == dt.ts", "result.us == dt.us"],
                 note="same instant, expressed in UTC (naive datetimes are read as UTC): trusted datetime arithmetic")
    # abstract results of the header parsers (their own contracts: C06/C07 and the bounded tier)
    reg.ufunc("date_none", ["Optional[str]"], "bool")
    reg.ufunc("date_ts", ["Optional[str]"], "int")
    reg.ufunc("etags_star", ["Optional[str]"], "bool")
    reg.ufunc("etags_strong", ["Optional[str]"], "Set[str]")
    reg.ufunc("etags_weak", ["Optional[str]"], "Set[str]")
    reg.ufunc("unq_etag", ["str"], "str")
    reg.ufunc("gen_etag", ["bytes"], "str")
    reg.contract("werkzeug/http.py:parse_date", prop=P, trusted=True, params={"value": "Optional[str]"},
                 returns=("opt", ("obj", DT)),
                 ensures=["(result is None) == (value is None or date_none(value))",
                          "result is None or (result.ts == date_ts(value) and result.us == 0)"],
                 note="HTTP dates have one-second resolution; text -> instant is email.utils' job")
    ET = reg.model("ETags", cls="werkzeug/datastructures/etag.py:ETags",
                   fields={"_strong": "Set[str]", "_weak": "Set[str]", "star_tag": "bool"})
    reg.contract("werkzeug/http.py:parse_etags", prop=P, trusted=True, params={"value": "Optional[str]"}, returns=ET,
                 ensures=["result.star_tag == etags_star(value)", "result._strong == etags_strong(value)",
                          "result._weak == etags_weak(value)",
                          "implies(value is None, not result.star_tag and not bool(result._strong) and not bool(result._weak))"],
                 note="regex scanner; text-level contract is C06/C07 + bounded tier")
    reg.contract("werkzeug/http.py:unquote_etag", prop=P, trusted=True, params={"etag": "Optional[str]"},
                 returns="Tuple[Optional[str], Optional[bool]]",
                 ensures=["implies(etag is not None and len(etag) > 0, result[0] is not None and result[0] == unq_etag(etag))",
                          "implies(etag is None or len(etag) == 0, result[0] is None)"])
    reg.contract("werkzeug/http.py:generate_etag", prop=P, trusted=True, params={"data": "bytes"}, returns="str",
                 ensures=["result == gen_etag(data)"])
    reg.spec("nonempty(v)", "etags_star(v) or bool(etags_strong(v)) or bool(etags_weak(v))")
    reg.spec("eff_etag(etag, data)", "etag if etag is not None else (gen_etag(data) if data is not None else None)")
    reg.spec("has_etag(etag, data)", "eff_etag(etag, data) is not None and len(eff_etag(etag, data)) > 0")
    reg.spec("cur(etag, data)", "unq_etag(eff_etag(etag, data))")
    reg.spec("date_unmodified(ims, lm)",
             "ims is not None and not date_none(ims) and lm is not None and lm.ts <= date_ts(ims)")
    reg.contract(
        "werkzeug/sansio/http.py:is_resource_modified", prop=P,
        params={"http_range": "Optional[str]", "http_if_range": "Optional[str]", "http_if_modified_since": "Optional[str]",
                "http_if_none_match": "Optional[str]", "http_if_match": "Optional[str]", "etag": "Optional[str]",
                "data": "Optional[bytes]", "last_modified": ("opt", ("obj", DT)), "ignore_if_range": ("const", True)},
        returns="bool",
        requires=["last_modified is None or (0 <= last_modified.us and last_modified.us < 1000000)"],
        ensures=[
            # If-Match: "unmodified" (-> 412) exactly when the header does not admit the current tag
            "implies(has_etag(etag, data) and nonempty(http_if_match), "
            "  (not result) == (not (etags_star(http_if_match) or cur(etag, data) in etags_strong(http_if_match))))",
            # If-None-Match: weak comparison, takes precedence over the date when the response has an ETag
            "implies(has_etag(etag, data) and not nonempty(http_if_match) and nonempty(http_if_none_match), "
            "  (not result) == (etags_star(http_if_none_match) or cur(etag, data) in etags_strong(http_if_none_match) "
            "                   or cur(etag, data) in etags_weak(http_if_none_match)))",
            # otherwise the date decides, at one-second resolution
            "implies(not (has_etag(etag, data) and (nonempty(http_if_match) or nonempty(http_if_none_match))), "
            "  (not result) == date_unmodified(http_if_modified_since, last_modified))",
        ],
        raises={"TypeError": "etag is not None and data is not None"},
    )
    _register_parse_range(reg)
    _register_process_range(reg)
    _register_parse_etags(reg)


def _replay_parse_range(reg, c, inputs):
    """the pieces of str.split are abstract in the model: replay on the model's text and on a corpus of Range headers"""
    from pyvc import runtime
    fn = runtime.resolve_real("werkzeug/http.py:parse_range_header")
    nc = runtime.NativeContract(reg, c)
    corpus = [inputs.get("value"), None, "", "bytes", "bytes=", "bytes=0-0", "bytes=5-4", "bytes=5-5", "bytes=-0", "bytes=-5", "bytes=0-",
              "bytes=1-2,0-1", "bytes=0-1,1-2", "bytes=0-1, 5-", "bytes=0-,5-6", "bytes=-5,0-1", "bytes=a-b", "bytes=-", "bytes=--1",
              "bytes= 1 - 2 ", "x=1-1", "=0-0", "bytes=1-1,1-1", "bytes=00-01"]
    for v in corpus:
        fails = nc.check_call(fn, [v], {}, {"value": v})
        if fails:
            return [f"(header text {v!r}) " + f for f in fails]
    return []


def _register_parse_range(reg):
    """parse_range_header: total, and what it hands to Range() is always a valid, ascending, non-overlapping list"""
    reg.contract(
        "werkzeug/http.py:parse_range_header", prop="C11,C07", params={"value": "Optional[str]"}, modifies=[],
        returns="Optional[Range]",
        inline_callees=["werkzeug/datastructures/range.py:Range.__init__"], replay=_replay_parse_range,
        ensures=["result is None or I_range(result)", "implies(value is None, result is None)"],
        raises={},        # in particular: the ValueError of Range.__init__ (invalid range) never escapes
        loops={0: {"types": {"ranges": "List[Tuple[int, Optional[int]]]", "item": "str", "begin": "int", "end": "Optional[int]"},
                   "inv": ["forall(0, len(ranges), lambda i: range_ok(ranges[i][0], ranges[i][1]))",
                           "last_end >= -1"],
                   "modifies": ["last_end"]}},
    )


def _register_process_range(reg):
    """Response._process_range_request: the decision (ignore / 416 / 206) and, for a 206, that status, Content-Length,
    Content-Range and the wrapped body all describe the one slice range_for_length selected"""
    H = reg.models["Headers"]
    RR = reg.model("RangeResponse", cls="werkzeug/wrappers/response.py:Response",
                   fields={"headers": H, "_status_code": "int", "_status": "str",
                           # ghost: what _wrap_range_response was asked to serve
                           "g_wrapped": "bool", "g_start": "int", "g_len": "int",
                           # ghost: the verdict of _is_range_request_processable, None while it has not been asked
                           "g_proc": "Optional[bool]"})
    reg.ufunc("uf_processable", ["Optional[str]"], "bool")
    reg.contract("werkzeug/wrappers/response.py:Response._is_range_request_processable", prop="C11", trusted=True,
                 params={"environ": "Dict[str, str]"}, returns="bool", modifies=["self.g_proc"],
                 ensures=["implies(result, environ.get('HTTP_RANGE') is not None)",
                          "self.g_proc is not None and (self.g_proc is True) == result"],
                 note="If-Range evaluation (is_resource_modified, its own contract) and presence of a Range header")
    reg.contract("werkzeug/wrappers/response.py:Response._wrap_range_response", prop="C11", trusted=True,
                 params={"start": "int", "length": "int"}, modifies=["self.g_wrapped", "self.g_start", "self.g_len"],
                 requires=["start >= 0", "length >= 0"],     # what _RangeWrapper.__init__ needs (its own contract); body: #verify below
                 ensures=["self.g_wrapped == (self._status_code == 206)", "self.g_start == start and self.g_len == length"],
                 note="wraps the body in _RangeWrapper(start, length) when the status is 206 (the wrapper's own contract: __next__)")
    # ---- _is_range_request_processable: the body (second contract; callers use the summary above).  A Range is honoured only
    # if the request has one and the If-Range validator, when present, still describes the representation: a date is compared
    # with Last-Modified at one-second resolution, an entity tag strongly with the response's ETag.  The sans-io evaluation
    # (is_resource_modified with ignore_if_range=False, parse_if_range_header, IfRange) is executed in place.
    HL = reg.model("HdrLookup", fields={"etag": "Optional[str]", "lm": "Optional[str]"})
    reg.contract("model:HdrLookup.get", prop="C11", trusted=True, param_names=["self", "key"], returns="Optional[str]", modifies=[],
                 ensures=["implies(key == 'etag', result == self.etag)", "implies(key == 'last-modified', result == self.lm)"],
                 note="the two header lookups of the response (Headers.get: C08)")
    RP = reg.model("RangeProcessable", cls="werkzeug/wrappers/response.py:Response", fields={"headers": HL})
    reg.spec("no_other_validator(environ)",
             "environ.get('HTTP_IF_NONE_MATCH') is None and environ.get('HTTP_IF_MATCH') is None and "
             "environ.get('HTTP_IF_MODIFIED_SINCE') is None")
    reg.contract(
        "werkzeug/wrappers/response.py:Response._is_range_request_processable#verify", prop="C11", self_model=RP,
        params={"environ": "Dict[str, str]"}, returns="bool", modifies=[],
        inline_callees=["werkzeug/http.py:is_resource_modified", "werkzeug/sansio/http.py:is_resource_modified",
                        "werkzeug/http.py:parse_if_range_header", "werkzeug/datastructures/range.py:IfRange.__init__"],
        # quick tier: requests whose only validator is If-Range (the other conditional headers multiply the paths by about
        # 40: 6585 paths / 170 s, all proved -- run without this restriction in the thorough tier under the key ...#verify-all)
        assumes=["no_other_validator(environ)"],
        ensures=[
            "implies(result, environ.get('HTTP_RANGE') is not None)",
            "implies(environ.get('HTTP_RANGE') is not None and environ.get('HTTP_IF_RANGE') is None, result)",
            # If-Range: <date>
            "implies(environ.get('HTTP_RANGE') is not None and environ.get('HTTP_IF_RANGE') is not None and "
            "        len(environ.get('HTTP_IF_RANGE')) > 0 and not date_none(environ.get('HTTP_IF_RANGE')) and no_other_validator(environ), "
            "        result == (self.headers.lm is not None and not date_none(self.headers.lm) and "
            "                   date_ts(self.headers.lm) <= date_ts(environ.get('HTTP_IF_RANGE'))))",
            # If-Range: <entity tag> -- strong comparison with the response's ETag; no ETag, no partial content
            "implies(environ.get('HTTP_RANGE') is not None and environ.get('HTTP_IF_RANGE') is not None and "
            "        len(environ.get('HTTP_IF_RANGE')) > 0 and date_none(environ.get('HTTP_IF_RANGE')) and no_other_validator(environ), "
            "        result == (self.headers.etag is not None and len(self.headers.etag) > 0 and "
            "                   (etags_star(unq_etag(environ.get('HTTP_IF_RANGE'))) or "
            "                    unq_etag(self.headers.etag) in etags_strong(unq_etag(environ.get('HTTP_IF_RANGE'))))))",
        ],
        raises={},
    )
    reg.contract(
        "werkzeug/wrappers/response.py:Response._is_range_request_processable#verify-all", prop="C11", self_model=RP,
        params={"environ": "Dict[str, str]"}, returns="bool", modifies=[],
        inline_callees=["werkzeug/http.py:is_resource_modified", "werkzeug/sansio/http.py:is_resource_modified",
                        "werkzeug/http.py:parse_if_range_header", "werkzeug/datastructures/range.py:IfRange.__init__"],
        # quick tier: requests whose only validator is If-Range (the other conditional headers multiply the paths by about
        # 40: 6585 paths / 170 s, all proved -- run without this restriction in the thorough tier under the key ...#verify-all)
        tier="thorough",
        ensures=[
            "implies(result, environ.get('HTTP_RANGE') is not None)",
            "implies(environ.get('HTTP_RANGE') is not None and environ.get('HTTP_IF_RANGE') is None, result)",
            # If-Range: <date>
            "implies(environ.get('HTTP_RANGE') is not None and environ.get('HTTP_IF_RANGE') is not None and "
            "        len(environ.get('HTTP_IF_RANGE')) > 0 and not date_none(environ.get('HTTP_IF_RANGE')) and no_other_validator(environ), "
            "        result == (self.headers.lm is not None and not date_none(self.headers.lm) and "
            "                   date_ts(self.headers.lm) <= date_ts(environ.get('HTTP_IF_RANGE'))))",
            # If-Range: <entity tag> -- strong comparison with the response's ETag; no ETag, no partial content
            "implies(environ.get('HTTP_RANGE') is not None and environ.get('HTTP_IF_RANGE') is not None and "
            "        len(environ.get('HTTP_IF_RANGE')) > 0 and date_none(environ.get('HTTP_IF_RANGE')) and no_other_validator(environ), "
            "        result == (self.headers.etag is not None and len(self.headers.etag) > 0 and "
            "                   (etags_star(unq_etag(environ.get('HTTP_IF_RANGE'))) or "
            "                    unq_etag(self.headers.etag) in etags_strong(unq_etag(environ.get('HTTP_IF_RANGE'))))))",
        ],
        raises={},
    )
    RW = reg.models["_RangeWrapper"]
    RB = reg.model("RangeResponseBody", cls="werkzeug/wrappers/response.py:Response",
                   fields={"_status_code": "int", "response": reg.models["ChunkIter"]})
    reg.contract(
        "werkzeug/wrappers/response.py:Response._wrap_range_response#verify", prop="C11", self_model=RB,
        params={"start": "int", "length": "int"},
        # the wrapper's constructor is executed in place (its own contract, above, proves the same facts for every caller):
        # a postcondition about object identity (`self.iterable is iterable`) cannot be assumed onto a fresh object
        inline_callees=["werkzeug/sansio/response.py:Response.status_code", "werkzeug/wsgi.py:_RangeWrapper.__init__"],
        requires=["start >= 0", "length >= 0", "self.response.pos == 0"],
        ensures=[
            # a 206 serves the body through a wrapper over the same iterator, set to exactly the announced slice and
            # satisfying the wrapper's invariant (what _RangeWrapper.__next__ requires)
            "implies(self._status_code == 206, isinstance(self.response, _RangeWrapper) and self.response.iterable is old(self.response) "
            "        and self.response.start_byte == start and self.response.byte_range == length and J_rw(self.response))",
            # any other status leaves the body alone
            "implies(self._status_code != 206, self.response is old(self.response))",
            "self._status_code == old(self._status_code)",
        ],
        raises={},
    )
    reg.spec("lo1(r, n)", "want_lo(r.ranges[0][0], r.ranges[0][1], n)")
    reg.spec("hi1(r, n)", "want_hi(r.ranges[0][0], r.ranges[0][1], n)")
    reg.contract(
        "werkzeug/wrappers/response.py:Response._process_range_request", prop="C11", self_model=RR,
        # the environ is an arbitrary str -> str map (a fixed-key record would make every other key read as absent)
        params={"environ": "Dict[str, str]", "complete_length": "Optional[int]", "accept_ranges": "bool"},
        returns="bool",
        inline_callees=["werkzeug/sansio/response.py:Response.content_range"],
        assumes=["complete_length is None or complete_length >= 0", "not self.g_wrapped", "I_h(self.headers)", "self.g_proc is None"],
        ensures=[
            # not a range request we serve: nothing is touched
            "implies(not result, self._status_code == old(self._status_code) and self.headers._list == old(self.headers._list) "
            "        and not self.g_wrapped)",
            "implies(not accept_ranges or complete_length is None or complete_length == 0, not result)",
            # 206: one slice, described consistently by status, Content-Length, Content-Range and the wrapped body
            "implies(result, self._status_code == 206 and self.g_wrapped and self.g_proc is True)",
            "implies(result, 0 <= self.g_start and 0 < self.g_len)",
            "implies(result, self.g_start + self.g_len <= complete_length)",
            "implies(result, first_is(self.headers, 'Content-Range', 'bytes ' + str(self.g_start) + '-' + "
            "        str(self.g_start + self.g_len - 1) + '/' + str(complete_length)))",
        ],
        # each header is checked where it is written (that a later write of ANOTHER key leaves it in place is a fact about
        # Headers.set that is not in its contract: bounded tier)
        ghost_after={
            "content_length = range_tuple[1] - range_tuple[0]": [
                "assert 0 <= range_tuple[0] and 0 < content_length and range_tuple[0] + content_length <= complete_length",
                "assert content_range_header == 'bytes ' + str(range_tuple[0]) + '-' + str(range_tuple[0] + content_length - 1) + '/' + str(complete_length)"],
            "self.headers['Content-Length'] = str(content_length)": [
                "assert first_is(self.headers, 'Content-Length', str(content_length))"],
            "self.headers['Accept-Ranges'] = accept_ranges": [
                "assert first_is(self.headers, 'Accept-Ranges', 'bytes')"],
        },
        # 416 only for an unparsable or unsatisfiable Range of a request whose Range is to be honoured at all: an absent Range
        # or a failed If-Range means "ignore the Range header" (complete 200 body), whatever the Range header says
        raises={"RequestedRangeNotSatisfiable": "accept_ranges and complete_length is not None and complete_length > 0 "
                                                "and self.g_proc is True"},
        raises_ensures={"RequestedRangeNotSatisfiable": ["self._status_code == old(self._status_code)", "not self.g_wrapped"]},
    )


def _register_parse_etags(reg):
    """parse_etags (body; the validators above use its trusted summary): the wildcard is recognised only for a BARE `*` -- a
    quoted tag "*" is an ordinary entity tag (a client that sends `If-None-Match: "x", "*"` has not said "anything") --, a tag
    is weak exactly when its match carries the W/ prefix, and the scan terminates.  The compiled pattern `_etag_re` is an
    environment model (one of the two alternatives matched: quoted or raw; the match ends behind its start)."""
    from pyvc.values import VObj, VBool, VList, NONE, VNone
    EM = reg.model("EtagMatch", fields={"weak": "Optional[str]", "quoted": "Optional[str]", "raw": "Optional[str]", "e": "int"})
    reg.contract("model:EtagMatch.groups", prop="C11", trusted=True, param_names=["self"], modifies=[],
                 returns="Tuple[Optional[str], Optional[str], Optional[str]]",
                 ensures=["result[0] == self.weak", "result[1] == self.quoted", "result[2] == self.raw"])
    reg.contract("model:EtagMatch.end", prop="C11", trusted=True, param_names=["self"], returns="int", modifies=[],
                 ensures=["result == self.e"])
    EP = reg.model("EtagPattern", fields={})
    reg.contract(
        "model:EtagPattern.match", prop="C11", trusted=True, param_names=["self", "value", "pos"], modifies=[],
        returns=("opt", ("obj", EM)),
        ensures=["implies(result is not None, pos <= result.e and result.e <= len(value))",
                 "implies(result is not None and not ('\\n' in value), pos < result.e)",
                 "implies(result is not None, (result.quoted is None) != (result.raw is None))",
                 "implies(result is not None and result.weak is not None, result.weak == 'W/' or result.weak == 'w/')",
                 "implies(result is not None and result.quoted is not None, "
                 "        value[pos:result.e].startswith((result.weak if result.weak is not None else '') + '\"' + result.quoted + '\"'))",
                 "implies(result is not None and result.raw is not None, "
                 "        value[pos:result.e].startswith((result.weak if result.weak is not None else '') + result.raw))"],
        note="re.Pattern.match of  ([Ww]/)?(?:\"(.*?)\"|(.*?))(?:\\s*,\\s*|$)  at pos < len(value): exactly one alternative "
             "takes part; on text without a line feed the match consumes at least one character (a separator, or the rest "
             "of the text) -- with a trailing line feed `$` matches in front of it and the match can be empty",
    )
    reg.overrides["werkzeug/http.py:_etag_re"] = lambda interp: interp.fresh(("obj", EP), "_etag_re")
    ER = reg.model("ETagsRec", fields={"star_tag": "bool", "strong": "List[Optional[str]]", "weak": "List[Optional[str]]"})

    def _mk_etags(interp, cv, args, kwargs, node):
        o = interp.fresh(("obj", ER), "etags")
        star = kwargs.get("star_tag", args[2] if len(args) > 2 else VBool(False))
        o.fields["star_tag"] = star
        o.fields["strong"] = args[0] if len(args) > 0 and not isinstance(args[0], VNone) else VList([])
        o.fields["weak"] = args[1] if len(args) > 1 and not isinstance(args[1], VNone) else VList([])
        return o
    reg.constructors["werkzeug/datastructures/etag.py:ETags"] = _mk_etags
    reg.contract(
        "werkzeug/http.py:parse_etags#verify", prop="C11", params={"value": "Optional[str]"}, returns=ER, modifies=[],
        # header text as a WSGI server delivers it (and as C07 quantifies): no line feed.  Not a formality: `$` also matches
        # in front of a trailing "\n", so for 'a\n' the pattern matches the empty string at the last position and the real
        # loop never advances (observed natively: parse_etags('a\n') does not return).  Outside the properties' domains.
        assumes=["value is None or not ('\\n' in value)"],
        ghost_after={
            "is_weak, quoted, raw = match.groups()": ["ghost_q = quoted", "ghost_r = raw"],
            "weak.append(raw)": ["assert is_weak is not None and raw == (quoted if (quoted is not None and len(quoted) > 0) else ghost_r)"],
            "strong.append(raw)": ["assert is_weak is None and raw == (quoted if (quoted is not None and len(quoted) > 0) else ghost_r)"],
        },
        ensures=[
            # the wildcard: only a bare, unquoted `*`
            "implies(result.star_tag, ghost_q is None and ghost_r == '*')",
            "implies(value is None or len(value) == 0, not result.star_tag and len(result.strong) == 0 and len(result.weak) == 0)",
        ],
        raises={},
        loops={0: {"types": {"strong": "List[Optional[str]]", "weak": "List[Optional[str]]", "ghost_q": "Optional[str]", "ghost_r": "Optional[str]",
                             "pos": "int"},
                   "inv": ["0 <= pos", "end == len(value)"],
                   "decreases": "end - pos"}},
    )
