"""C11 -- conditional and range responses: integer/Optional arithmetic core."""


def register(reg):
    P = "C11"
    # what "a valid byte range" means (RFC 7233 / the property): both bounds or none;
    # with bounds 0 <= start < stop and, when the length is known, start < length.
    reg.spec("valid_range(start, stop, length)",
             "((length is None or length >= 0) if (start is None and stop is None) "
             "else (False if (start is None or stop is None) "
             "else (0 <= start < stop) if length is None "
             "else (0 <= start < stop and start < length)))")
    reg.contract(
        "werkzeug/http.py:is_byte_range_valid", prop=P,
        params={"start": "Optional[int]", "stop": "Optional[int]", "length": "Optional[int]"},
        returns="bool",
        ensures=["result == valid_range(start, stop, length)"],
        replay="pure",
    )

    RangeM = reg.model("Range", cls="werkzeug/datastructures/range.py:Range",
                       fields={"units": "str", "ranges": "List[Tuple[int, Optional[int]]]"})
    # representation invariant established by Range.__init__
    reg.spec("range_ok(b, e)", "e is None or (0 <= b and b < e)")
    reg.spec("I_range(self)", "forall(0, len(self.ranges), lambda i: range_ok(self.ranges[i][0], self.ranges[i][1]))")
    # the byte interval a single (b, e) asks for, against a resource of `length` bytes
    reg.spec("want_lo(b, e, length)", "b if e is not None or b >= 0 else length + b")
    reg.spec("want_hi(b, e, length)", "length if e is None else (e if e < length else length)")
    reg.spec("satisfiable(b, e, length)",
             "0 <= want_lo(b, e, length) and want_lo(b, e, length) < want_hi(b, e, length)")

    reg.contract(
        "werkzeug/datastructures/range.py:Range.__init__", prop=P,
        self_model=reg.model("RangeRaw", cls="werkzeug/datastructures/range.py:Range", fields={}),
        params={"units": "str", "ranges": "List[Tuple[Optional[int], Optional[int]]]"},
        ensures=["self.units == units",
                 "forall(0, len(ranges), lambda i: ranges[i][0] is not None and range_ok(ranges[i][0], ranges[i][1]))"],
        raises={"ValueError": "exists(0, len(ranges), lambda i: ranges[i][0] is None or not range_ok(ranges[i][0], ranges[i][1]))"},
        loops={0: {"inv": ["forall(0, _i, lambda i: ranges[i][0] is not None and range_ok(ranges[i][0], ranges[i][1]))"]}},
    )

    reg.contract(
        "werkzeug/datastructures/range.py:Range.range_for_length", prop=P,
        self_model=RangeM, params={"length": "Optional[int]"},
        requires=["I_range(self)", "length is None or length >= 0"],
        ensures=[
            # soundness: inside the resource, non-empty
            "result is None or (0 <= result[0] and result[0] < result[1] and result[1] <= length)",
            # inside what was asked for, and exactly that
            "result is None or (self.units == 'bytes' and len(self.ranges) == 1 and "
            " result[0] == want_lo(self.ranges[0][0], self.ranges[0][1], length) and "
            " result[1] == want_hi(self.ranges[0][0], self.ranges[0][1], length))",
            # completeness: None exactly for other units / unknown length / multi-range / unsatisfiable
            "(result is None) == (self.units != 'bytes' or length is None or len(self.ranges) != 1 or "
            " not satisfiable(self.ranges[0][0], self.ranges[0][1], length))",
        ],
    )
