"""C09 -- the request body stream never over-reads, truncates or hangs."""


import itertools


class FakeRawNoInto:
    """native realiser of the RawSource model: hands out at most k bytes per call,
    fails (OSError) at call number fail_at"""

    def __init__(self, data, pos, k, fail_at=None):
        self.data, self.pos, self.k, self.fail_at = data, pos, k, fail_at
        self.calls = self.nerr = self.nzero = 0

    def _take(self, n):
        self.calls += 1
        if self.fail_at == self.calls:
            self.nerr += 1
            raise OSError("fake failure")
        out = self.data[self.pos:self.pos + max(0, min(n, self.k))]
        self.pos += len(out)
        if not out:
            self.nzero += 1
        return out

    def read(self, n=-1):
        return self._take(n if n >= 0 else len(self.data))


class FakeRaw(FakeRawNoInto):
    def readinto(self, b):
        out = self._take(len(b))
        b[:len(out)] = out
        return len(out)


def build_ls(inp, k, fail_at):
    from pyvc import runtime
    wsgi = runtime.import_real("werkzeug/wsgi.py")
    st = inp["_stream"]
    cls = FakeRaw if st["has_readinto"] else FakeRawNoInto
    data = st["data"]
    pos = max(0, min(st["pos"], len(data)))
    raw = cls(data, pos, k, fail_at)
    ls = wsgi.LimitedStream(raw, inp["limit"], inp["_limit_is_max"])
    ls._pos = inp["_pos"]
    return ls


def replay_ls(reg, c, inputs):
    """bounded native search around the solver's model: the source's per-call behaviour
    (bytes per call 1..len(b)+1, failure at call 1 or never) is enumerated"""
    from pyvc import runtime
    nc = runtime.NativeContract(reg, c)
    meth = c.key.split(".")[-1]
    first = None
    bsize = len(inputs["b"]["data"]) if "b" in inputs else 3
    for k, fail_at in itertools.product(range(0, bsize + 2), (None, 1)):
        ls = build_ls(inputs["self"], k, fail_at)
        names = {"self": ls}
        args = []
        if "b" in inputs:
            b = runtime.to_native(inputs["b"])
            names["b"] = b
            args = [b]
        fails = nc.check_call(getattr(ls, meth), args, {}, names)
        if fails:
            return [f"source hands out {k} bytes/call, fail_at={fail_at}: " + "; ".join(fails)]
        if fails is not None:
            first = []
    return first


def register(reg):
    P = "C09"
    # ---- environment model: the server's input stream (everything the client will ever send)
    Raw = reg.model("RawSource", fields={"data": "bytes", "pos": "int", "has_readinto": "bool",
                                         "nerr": "int", "nzero": "int"},
                    hasattr={"readinto": "has_readinto"})
    reg.contract(
        "model:RawSource.readinto", prop=P, trusted=True, param_names=["self", "b"],
        returns="int",
        modifies=["self.pos", "b", "self.nzero"], raise_modifies=["self.nerr"],
        ensures=["0 <= result", "result <= len(old(b))", "result <= len(self.data) - old(self.pos)",
                 "self.pos == old(self.pos) + result", "len(b) == len(old(b))",
                 "b[:result] == self.data[old(self.pos):old(self.pos) + result]",
                 "b[result:] == old(b)[result:]",
                 "self.nzero == old(self.nzero) + (1 if result == 0 else 0)"],
        raises={"OSError": "True", "ValueError": "True"},
        raises_ensures={"OSError": ["self.nerr == old(self.nerr) + 1"], "ValueError": ["self.nerr == old(self.nerr) + 1"]},
        note="WSGI input stream: returns at most len(b) of the next unsent bytes, may fail",
    )
    reg.contract(
        "model:RawSource.read", prop=P, trusted=True, param_names=["self", "size"],
        returns="bytes", requires=["size >= 0"],
        modifies=["self.pos", "self.nzero"], raise_modifies=["self.nerr"],
        ensures=["len(result) <= size", "len(result) <= len(self.data) - old(self.pos)",
                 "self.pos == old(self.pos) + len(result)",
                 "result == self.data[old(self.pos):old(self.pos) + len(result)]",
                 "self.nzero == old(self.nzero) + (1 if len(result) == 0 else 0)"],
        raises={"OSError": "True", "ValueError": "True"},
        raises_ensures={"OSError": ["self.nerr == old(self.nerr) + 1"], "ValueError": ["self.nerr == old(self.nerr) + 1"]},
    )
    LS = reg.model("LimitedStream", cls="werkzeug/wsgi.py:LimitedStream",
                   fields={"_stream": Raw, "limit": "int", "_pos": "int", "_limit_is_max": "bool"})
    # bytes handed out == bytes taken from the server's input, never past the limit
    reg.spec("I_ls(self, base)",
             "0 <= self._pos and self._stream.pos == base + self._pos and 0 <= base "
             "and self._stream.pos <= len(self._stream.data) and (self._pos <= self.limit or self._pos == 0)")
    reg.spec("I_ls1(self)", "I_ls(self, self._stream.pos - self._pos)")

    # io.RawIOBase.read(n): CPython's C implementation, as documented (trusted stub)
    reg.stub("foreign:io.RawIOBase.read", '''
def read(self, size=-1):
    if size < 0:
        return self.readall()
    b = bytearray(size)
    n = self.readinto(b)
    del b[n:]
    return bytes(b)
''')

    common_ens = [
        "0 <= result and result <= len(old(b))",
        "result <= old(self.limit - self._pos) or result == 0",
        "len(b) == len(old(b))",
        "b[:result] == self._stream.data[old(self._stream.pos):old(self._stream.pos) + result]",
        "b[result:] == old(b)[result:]",
        "self._pos == old(self._pos) + result",
        "self._stream.pos == old(self._stream.pos) + result",
        "self._stream.data == old(self._stream.data) and self.limit == old(self.limit)",
        "implies(result == 0, old(self._pos) >= self.limit or self._limit_is_max)",
        # a failure of the server's stream, or an early end of a body with a declared length,
        # never ends in a normal return (it surfaces as ClientDisconnected)
        "self._stream.nerr == old(self._stream.nerr)",
        "implies(self._stream.nzero > old(self._stream.nzero), self._limit_is_max)",
        # a stream whose limit is a maximum (max_content_length on a terminated stream) never ends quietly once the maximum is
        # reached: a read at the limit raises RequestEntityTooLarge (the raises clause says "only then", this says "always then")
        "not (self._limit_is_max and old(self._pos) >= self.limit)",
        "I_ls1(self)",
    ]
    reg.contract(
        "werkzeug/wsgi.py:LimitedStream.readinto", prop="C09,C10", self_model=LS,
        cases=[{"b": "bytearray"}, {"b": "memoryview"}],
        returns="int", modifies=["self._pos", "self._stream.pos", "self._stream.nzero", "b"],
        raise_modifies=["self._stream.pos", "self._stream.nzero", "self._stream.nerr"],
        requires=["I_ls1(self)", "len(b) > 0"],
        ensures=common_ens, replay=replay_ls,
        raises={
            "RequestEntityTooLarge": "self._limit_is_max and old(self._pos) >= self.limit",
            "ClientDisconnected": "old(self._pos) < self.limit and (self._stream.nerr > old(self._stream.nerr) or "
                                  "(self._stream.nzero > old(self._stream.nzero) and not self._limit_is_max))",
        },
        raises_ensures={"ClientDisconnected": ["self._pos == old(self._pos)", "self._stream.pos == old(self._stream.pos)"],
                        "RequestEntityTooLarge": ["self._pos == old(self._pos)", "self._stream.pos == old(self._stream.pos)"]},
    )
    reg.contract(
        "werkzeug/wsgi.py:LimitedStream.readall", modifies=["self._pos", "self._stream.pos", "self._stream.nzero"], raise_modifies=["self._pos", "self._stream.pos", "self._stream.nzero", "self._stream.nerr"], prop="C09,C10", self_model=LS,
        returns="bytes",
        requires=["I_ls1(self)"],
        ensures=[
            "result == self._stream.data[old(self._stream.pos):self._stream.pos]",
            "self._pos == old(self._pos) + len(result)",
            "self._pos >= self.limit or self._limit_is_max",
            "I_ls1(self)",
            "self._stream.nerr == old(self._stream.nerr)",
        ],
        replay=replay_ls,
        raises={
            "RequestEntityTooLarge": "self._limit_is_max and old(self._pos) >= self.limit",
            "ClientDisconnected": "not self._limit_is_max or self._stream.nerr > old(self._stream.nerr)",
        },
        loops={0: {
            "inv": ["I_ls1(self)", "self._pos >= old(self._pos)",
                    "self._pos - old(self._pos) == len(out)",
                    "self._stream.pos - self._pos == old(self._stream.pos - self._pos)",
                    "out == self._stream.data[old(self._stream.pos):self._stream.pos]",
                    "self._stream.nerr == old(self._stream.nerr)"],
            "decreases": "self.limit - self._pos",
            "modifies": ["self._pos", "self._stream.pos", "self._stream.nzero", "out"],
        }},
    )
    reg.contract(
        "werkzeug/wsgi.py:LimitedStream.exhaust", prop="C09,C10", self_model=LS,
        requires=["I_ls1(self)"],
        ensures=["result == self._stream.data[old(self._stream.pos):self._stream.pos]",
                 "self._pos == old(self._pos) + len(result)", "I_ls1(self)"],
        raises={"ClientDisconnected": "not self._limit_is_max or self._stream.nerr > old(self._stream.nerr)"},
    )

    # ---- Content-Length interpretation and the choice of wrapper -------------------------
    reg.spec("plain_int(s)", "re_in(s, '-?[0-9]+')")
    reg.spec("cl_spec(cl, te)",
             "None if (te == 'chunked' or cl is None) else "
             "((str_to_int(cl.strip()) if str_to_int(cl.strip()) > 0 else 0) if plain_int(cl.strip()) else 0)")
    reg.contract(
        "werkzeug/_internal.py:_plain_int", modifies=[], prop="C09,C07", replay="pure", params={"value": "str"}, returns="int",
        ensures=["plain_int(value.strip())", "implies(len(value.strip()) <= int_max_digits(), result == str_to_int(value.strip()))"],
        raises={"ValueError": "not plain_int(value.strip()) or len(value.strip()) > int_max_digits()"},
    )
    reg.contract(
        "werkzeug/sansio/utils.py:get_content_length", modifies=[], prop="C09,C07", replay="pure",
        params={"http_content_length": "Optional[str]", "http_transfer_encoding": "Optional[str]"},
        returns="Optional[int]",
        ensures=["(result is None) == (http_transfer_encoding == 'chunked' or http_content_length is None)",
                 "result is None or result >= 0",
                 "implies(http_content_length is not None and len(http_content_length.strip()) <= int_max_digits(), "
                 "        result == cl_spec(http_content_length, http_transfer_encoding))"],
    )
    ENV = {"wsgi.input": Raw, "CONTENT_LENGTH": "Optional[str]", "HTTP_TRANSFER_ENCODING": "Optional[str]"}
    ENV_T = dict(ENV)
    ENV_T["wsgi.input_terminated"] = "bool"
    reg.contract(
        "werkzeug/wsgi.py:get_content_length", modifies=[], prop="C09,C07", params={"environ": ENV}, returns="Optional[int]",
        ensures=["(result is None) == (environ['HTTP_TRANSFER_ENCODING'] == 'chunked' or environ['CONTENT_LENGTH'] is None)",
                 "result is None or result >= 0",
                 "implies(environ['CONTENT_LENGTH'] is not None and len(environ['CONTENT_LENGTH'].strip()) <= int_max_digits(), "
                 "        result == cl_spec(environ['CONTENT_LENGTH'], environ['HTTP_TRANSFER_ENCODING']))"],
    )
    reg.spec("is_ls(r, stream, limit, is_max)",
             "isinstance(r, LimitedStream) and r._stream is stream and r.limit == limit and r._limit_is_max == is_max and r._pos == 0")
    reg.spec("env_cl(environ)", "cl_spec(environ['CONTENT_LENGTH'], environ['HTTP_TRANSFER_ENCODING'])")
    short = "(environ['CONTENT_LENGTH'] is None or len(environ['CONTENT_LENGTH'].strip()) <= int_max_digits())"
    reg.contract(
        "werkzeug/wsgi.py:get_input_stream", prop="C09,C10",
        cases=[{"environ": ENV}, {"environ": ENV_T}],
        params={"safe_fallback": "bool", "max_content_length": "Optional[int]"},
        requires=[short],
        ensures=[
            # declared length over the maximum never gets a stream
            "not (env_cl(environ) is not None and max_content_length is not None and env_cl(environ) > max_content_length)",
            # server terminates its input: enforce the maximum if there is one, else the raw stream is safe
            "implies('wsgi.input_terminated' in environ and max_content_length is not None, "
            "        is_ls(result, environ['wsgi.input'], max_content_length, True))",
            "implies('wsgi.input_terminated' in environ and max_content_length is None, result is environ['wsgi.input'])",
            # no usable length, input not terminated: empty stream unless the caller opted out
            "implies('wsgi.input_terminated' not in environ and env_cl(environ) is None and safe_fallback, "
            "        isinstance(result, io.BytesIO) and result.initial == b'')",
            "implies('wsgi.input_terminated' not in environ and env_cl(environ) is None and not safe_fallback, "
            "        result is environ['wsgi.input'])",
            # declared length: never read past it
            "implies('wsgi.input_terminated' not in environ and env_cl(environ) is not None, "
            "        is_ls(result, environ['wsgi.input'], env_cl(environ), False))",
        ],
        raises={"RequestEntityTooLarge": "env_cl(environ) is not None and max_content_length is not None and env_cl(environ) > max_content_length"},
    )
