"""C01 -- the sans-io multipart decoder: what every step must guarantee for the result not to depend on chunking.

Chunk independence itself is a property of whole histories (an inductive protocol invariant over the regex searches);
it stays with the bounded tier.  What is under contract here are the per-call facts that invariant rests on, each a
consequence of the property statement:

* conservation: the bytes delivered by a Data event plus the bytes kept in the buffer are exactly the bytes that were
  pending (minus the line break that opens a body) -- nothing is dropped, duplicated or reordered while a part's
  payload streams out in pieces;
* the incremental search never skips a position at which a delimiter / blank line that is still incomplete could
  start (`_search_position` is a sound lower bound), and it is reset whenever the searched-for thing changes;
* the state machine only moves along PREAMBLE -> PART -> DATA_START -> DATA -> PART | EPILOGUE -> COMPLETE.

The two compiled delimiter patterns depend on the (symbolic) boundary; they are environment models: `search` returns
None or a match whose span lies inside [pos, len(data)] and is at least as long as the shortest delimiter.
"""

import types

_STATES = ("PREAMBLE", "PART", "DATA", "DATA_START", "EPILOGUE", "COMPLETE")


class DecView:
    """what the clauses see of a REAL decoder: the enum state by its str(), the two compiled delimiter patterns by
    the one thing the model says about them (their shortest match)"""

    def __init__(self, dec):
        object.__setattr__(self, "_d", dec)

    def __getattr__(self, name):
        d = object.__getattribute__(self, "_d")
        if name == "state":
            return str(d.state)
        if name == "g_g1":
            # ghost: group 1 of the delimiter match of this step (recorded by the pattern recorders)
            m = d._rec["m"]
            return bytes(m.group(1)) if m is not None else b""
        if name == "preamble_re":
            return types.SimpleNamespace(minlen=len(d.boundary) + 3, boundary=d.boundary)
        if name == "boundary_re":
            return types.SimpleNamespace(minlen=len(d.boundary) + 4, boundary=d.boundary)
        return getattr(d, name)


def build_decoder(inp):
    from pyvc import runtime
    mp = runtime.import_real("werkzeug/sansio/multipart.py")
    dec = mp.MultipartDecoder(runtime.to_native(inp["boundary"]), max_parts=inp.get("max_parts"))
    dec.buffer = runtime.to_native(inp["buffer"])
    st = str(inp.get("state", "")).replace("State.", "")
    if st not in _STATES:
        return None
    dec.state = mp.State[st]
    dec.complete = bool(inp.get("complete"))
    dec._search_position = inp.get("_search_position", 0)
    dec._parts_decoded = inp.get("_parts_decoded", 0)
    dec._rec = {"m": None}

    class Rec:
        def __init__(self, rx):
            self.rx = rx

        def search(self, *a):
            dec._rec["m"] = self.rx.search(*a)
            return dec._rec["m"]
    dec.preamble_re = Rec(dec.preamble_re)
    dec.boundary_re = Rec(dec.boundary_re)
    return dec


def replay_dec(reg, c, inputs):
    """replay on a real MultipartDecoder built from the solver's model (real compiled patterns)"""
    from pyvc import runtime
    nc = runtime.NativeContract(reg, c)
    inp = dict(inputs["self"])
    meth = c.key.split("#")[0].split(".")[-1]
    if meth == "_parse_data" and str(inp.get("state", "")).replace("State.", "") not in _STATES:
        inp["state"] = "State.DATA_START" if inputs.get("start") else "State.DATA"
    dec = build_decoder(inp)
    if dec is None:
        return None
    names = {"self": DecView(dec)}
    if meth == "_parse_data":
        names["data"] = dec.buffer
        names["start"] = bool(inputs["start"])
        fails = nc.check_call(lambda: dec._parse_data(dec.buffer, start=names["start"]), [], {}, names)
    else:
        fails = nc.check_call(getattr(dec, meth), [], {}, names)
        if not fails and str(inp.get("state")) == "State.PART":
            # the header block of the model is arbitrary text (its decoding is a trusted abstraction): replay once
            # more with a block the real header parser accepts, as a field and as a file part
            from pyvc import runtime as _rt
            Headers = _rt.import_real("werkzeug/datastructures/__init__.py").Headers
            for disp in ('form-data; name="a"', 'form-data; name="a"; filename="f"'):
                dec = build_decoder(inp)
                dec._parse_headers = lambda data, disp=disp: Headers([("Content-Disposition", disp)])
                names = {"self": DecView(dec)}
                fails = nc.check_call(dec.next_event, [], {}, names)
                if fails:
                    return [f"(header block read as Content-Disposition: {disp}) " + f for f in fails]
    if not fails and meth == "next_event":
        # the model is relative to the contract of _parse_data and to the abstract patterns; search a small corpus of
        # real buffers in the same state (bounded native search around the model)
        for buf, complete in _corpus(str(inp.get("state"))):
            inp2 = dict(inp, boundary=b"B", buffer=bytearray(buf), complete=complete, _search_position=0)
            dec = build_decoder(inp2)
            fails = nc.check_call(dec.next_event, [], {}, {"self": DecView(dec)})
            if fails:
                return [f"(corpus input: state={inp.get('state')} boundary=b'B' buffer={buf!r} complete={complete}) " + f for f in fails]
    if not fails and nc.errors:
        return None
    return fails


def _corpus(state):
    lbs = (b"\r\n", b"\n", b"\r")
    pay = (b"", b"ab", b"ab\r", b"a\nb", b"--B", b"\r\n--", b"x" * 20)
    delim = [lb + b"--B" + t for lb in lbs for t in (b"\r\n", b"--", b"--\r\n", b" \r\n", b"\n", b"", b"-")]
    bufs = []
    if state in ("State.DATA", "State.DATA_START"):
        pre = (b"",) if state == "State.DATA" else lbs
        bufs = [p + a + d + r for p in pre for a in pay for d in delim + [b""] for r in (b"", b"next")]
    elif state == "State.PREAMBLE":
        bufs = [a + d + r for a in pay for d in delim + [b"--B\r\n", b"--B--", b""] for r in (b"", b"next")]
    elif state == "State.PART":
        hd = (b"Content-Disposition: form-data; name=a", b'Content-Disposition: form-data; name=a; filename="f"', b"X: y", b"")
        bufs = [h + e + r for h in hd for e in (b"\r\n\r\n", b"\n\n", b"\r\r", b"\r\n", b"", b"\r\n\r") for r in (b"", b"val", b"\r\n--B--")]
    else:
        bufs = [b"", b"tail", b"\r\n"]
    return [(b, c) for b in bufs for c in (False, True)]


def register(reg):
    P = "C01"
    MatchM = reg.model("DelimMatch", fields={"s": "int", "e": "int", "g1": "bytes", "lb": "bytes"})
    reg.contract("model:DelimMatch.start", prop=P, trusted=True, param_names=["self"], returns="int",
                 ensures=["result == self.s"])
    reg.contract("model:DelimMatch.end", prop=P, trusted=True, param_names=["self"], returns="int",
                 ensures=["result == self.e"])
    reg.contract("model:DelimMatch.group", prop=P, trusted=True, param_names=["self", "i"], returns="bytes",
                 requires=["i == 1"], ensures=["result == self.g1"])
    PatM = reg.model("DelimPattern", fields={"minlen": "int", "boundary": "bytes"})
    # group 1 of both delimiter patterns: `--` + blanks + optional line break (last delimiter), or blanks + line break
    TAIL = r"(--[\t\x0b\x0c ]*(\r\n|\n|\r)?|[\t\x0b\x0c ]*(\r\n|\n|\r))"
    reg.contract(
        "model:DelimPattern.search", prop=P, trusted=True, param_names=["self", "data", "pos"], defaults={"pos": "0"},
        returns="Optional[DelimMatch]",
        ensures=["implies(result is not None, pos <= result.s and result.s + self.minlen <= result.e and result.e <= len(data))",
                 # the matched text is a delimiter: [line break] -- boundary group1
                 "implies(result is not None, data[result.s:result.e] == result.lb + b'--' + self.boundary + result.g1 and "
                 "        (result.lb == b'\\r\\n' or result.lb == b'\\n' or result.lb == b'\\r' or "
                 "         (result.lb == b'' and self.minlen == len(self.boundary) + 3)) and "
                 f"        re_in(result.g1, '{TAIL}'))"],
        note="re.Pattern.search on the compiled delimiter pattern: None, or a match inside [pos, len(data)] that is at "
             "least as long as the shortest delimiter (`--boundary` + line break)",
    )
    MD = reg.model("MPDecoder", cls="werkzeug/sansio/multipart.py:MultipartDecoder",
                   fields={"buffer": "bytearray", "boundary": "bytes", "state": "str", "complete": "bool",
                           "_search_position": "int", "_parts_decoded": "int", "max_parts": "Optional[int]",
                           "preamble_re": PatM, "boundary_re": PatM,
                           "g_g1": "bytes"})      # g_g1: ghost -- group 1 of the delimiter match of the current step
    # payload carried by an event (Data / Preamble / Epilogue); NEED_DATA and part headers carry none
    from pyvc.values import VObj, VStr
    import z3

    def _ev_data(it, a, k, n):
        e = a[0]
        if isinstance(e, VObj) and "data" in e.fields:
            return e.fields["data"]
        return VStr(z3.StringVal(""), "bytes")
    reg.builtin_spec("ev_data", _ev_data, lambda e: bytes(getattr(e, "data", b"")))

    def _ev_kind(it, a, k, n):
        e = a[0]
        return VStr(z3.StringVal(e.cls.name if isinstance(e, VObj) and hasattr(e.cls, "name") else "?"), "str")
    reg.builtin_spec("ev_kind", _ev_kind, lambda e: type(e).__name__)

    def _ev_more(it, a, k, n):
        from pyvc.values import VBool
        e = a[0]
        return e.fields["more_data"] if isinstance(e, VObj) and "more_data" in e.fields else VBool(False)
    reg.builtin_spec("ev_more", _ev_more, lambda e: bool(getattr(e, "more_data", False)))
    # length of the line break a part body starts with
    reg.spec("lb_len(d)", "2 if d[:2] == b'\\r\\n' else 1")
    reg.spec("starts_lb(d)", "d[:1] == b'\\r' or d[:1] == b'\\n'")
    reg.spec("I_dec(self)",
             "0 <= self._search_position and self._search_position <= len(self.buffer) "
             "and (self.state == 'State.PREAMBLE' or self.state == 'State.PART' or self._search_position == 0) "
             "and implies(self.state == 'State.DATA_START', starts_lb(self.buffer)) "
             "and self.preamble_re.minlen == len(self.boundary) + 3 and self.boundary_re.minlen == len(self.boundary) + 4 "
             "and self.preamble_re.boundary == self.boundary and self.boundary_re.boundary == self.boundary")

    DS = "(lb_len(data) if start else 0)"
    reg.contract(
        "werkzeug/sansio/multipart.py:MultipartDecoder._parse_data", prop="C01,C02", self_model=MD,
        params={"data": "bytearray", "start": "bool"},
        returns="Tuple[bytes, int, bool]",
        requires=["data == self.buffer", "implies(start, starts_lb(data))",
                  "self.boundary_re.minlen == len(self.boundary) + 4 and self.boundary_re.boundary == self.boundary"],
        modifies=["self.state", "self.g_g1"],
        ghost_after={"match = self.boundary_re.search(data)": ["if match is not None:\n    self.g_g1 = match.group(1)"]},
        ensures=[
            # while the payload continues: what is delivered is exactly the pending bytes up to the cut, the
            # cut is where the kept bytes begin (nothing dropped, nothing delivered twice), no state change
            f"implies(result[2], {DS} <= result[1] and result[1] <= len(data) and "
            f"        result[0] == data[{DS}:result[1]] and self.state == old(self.state))",
            # at a delimiter: the payload is a prefix of the pending bytes, the delimiter is consumed whole and
            # the decoder moves on to the next part or to the epilogue
            f"implies(not result[2], {DS} <= result[1] and result[1] <= len(data) and "
            f"        data[{DS}:].startswith(result[0]) and "
            f"        (len(result[0]) == 0 or len(result[0]) + len(self.boundary) + 4 <= result[1] - {DS}) and "
            "        (self.state == 'State.PART' or self.state == 'State.EPILOGUE'))",
            "self.buffer == old(self.buffer) and self._search_position == old(self._search_position)",
            # which delimiter it was decides where the decoder goes: `--boundary--` ends the message
            "implies(not result[2], (self.state == 'State.EPILOGUE') == self.g_g1.startswith(b'--') and "
            f"        data[:result[1]].endswith(b'--' + self.boundary + self.g_g1) and re_in(self.g_g1, '{TAIL}'))",
        ],
        raises={}, replay=replay_dec,
    )
    # last_newline: the earlier of the last LF and the last CR (each "the end" when absent) -- what _parse_data's hold-back rests on
    reg.contract(
        "werkzeug/sansio/multipart.py:MultipartDecoder.last_newline#verify", prop="C01,C02", self_model=MD,
        params={"data": "bytes"}, returns="int", modifies=[],
        ensures=["0 <= result and result <= len(data)",
                 # nothing behind the position it returns is both an LF-free and a CR-free ... precisely: every LF and every
                 # CR that is the last of its kind lies at or behind the result, and the result is one of them (or the end)
                 "implies(data.rfind(b'\\n') != -1, result <= data.rfind(b'\\n'))",
                 "implies(data.rfind(b'\\r') != -1, result <= data.rfind(b'\\r'))",
                 "result == len(data) or result == data.rfind(b'\\n') or result == data.rfind(b'\\r')",
                 "implies(data.rfind(b'\\n') == -1 and data.rfind(b'\\r') == -1, result == len(data))"],
        raises={},
    )
    # a second contract on the same function, kept apart so that call sites (next_event) do not carry its string-search terms
    reg.contract(
        "werkzeug/sansio/multipart.py:MultipartDecoder._parse_data#retention", prop="C01,C02", self_model=MD,
        params={"data": "bytearray", "start": "bool"},
        returns="Tuple[bytes, int, bool]",
        requires=["data == self.buffer", "implies(start, starts_lb(data))",
                  "self.boundary_re.minlen == len(self.boundary) + 4 and self.boundary_re.boundary == self.boundary"],
        modifies=["self.state", "self.g_g1"],
        ensures=[
            # retention (the branch where `--boundary` is in the buffer but no complete delimiter is): everything from the last
            # LF and from the last CR of the pending bytes on is kept -- a delimiter that is still incomplete begins with one of
            # them, so it is never handed out as payload however far from the end it begins.  (The other branch, no `--boundary`
            # in the buffer yet, has the far-from-the-end heuristic that is the recorded stray-CR finding: not claimed.)
            f"implies(result[2] and self.buffer.find(b'--' + self.boundary) != -1 and data[{DS}:].rfind(b'\\n') != -1, "
            f"        result[1] <= {DS} + data[{DS}:].rfind(b'\\n'))",
            f"implies(result[2] and self.buffer.find(b'--' + self.boundary) != -1 and data[{DS}:].rfind(b'\\r') != -1, "
            f"        result[1] <= {DS} + data[{DS}:].rfind(b'\\r'))",
        ],
        raises={}, replay=replay_dec,
    )

    # ---- _parse_headers (body; next_event uses the summary below): a header pair is produced only from a line that is not
    # blank once stripped, from the stripped line, split at its FIRST colon, both halves stripped.  The unfolding regex and
    # splitlines are abstract (unknown pieces): what is proved is the per-line step, as obligations at the append.
    CONT = reg.model("ContinuationPattern", fields={})
    reg.contract("model:ContinuationPattern.sub", prop="C01,C02", trusted=True, param_names=["self", "repl", "data"], returns="bytes",
                 modifies=[], note="HEADER_CONTINUATION_RE.sub(b' ', data): some bytes (header unfolding: bounded tier)")
    reg.overrides["werkzeug/sansio/multipart.py:HEADER_CONTINUATION_RE"] = lambda interp: interp.fresh(("obj", CONT), "HEADER_CONTINUATION_RE")

    def _headers_from_pairs(interp, cv, args, kwargs, node):
        from pyvc.values import VObj as _VO
        return _VO("HeadersRec", {"pairs": args[0] if args else interp.const([])})
    MDH = reg.model("MPDecoderH", cls="werkzeug/sansio/multipart.py:MultipartDecoder", fields={})
    reg.contract(
        "werkzeug/sansio/multipart.py:MultipartDecoder._parse_headers#verify", prop="C01,C02", self_model=MDH,
        params={"data": "bytes"}, modifies=[],
        ghost_after={"headers.append((name.strip(), value.strip()))": [
            "assert len(line) > 0 and line == line.strip()",
            "assert name == line.decode().partition(':')[0] and value == line.decode().partition(':')[2]"]},
        ensures=["True"],
        raises={"UnicodeDecodeError": "True", "ValueError": "True"},
        loops={0: {"types": {"headers": "List[Tuple[str, str]]", "line": "bytes", "name": "str", "value": "str", "_": "str"},
                   "inv": ["True"]}},
    )

    # ---- next_event: one step of the state machine
    reg.contract("werkzeug/sansio/multipart.py:MultipartDecoder._parse_headers", prop=P, trusted=True,
                 params={"data": "bytearray"}, returns="Dict[str, str]",
                 note="header block -> Headers, seen as a str -> str mapping for `in` and `[]` (decoding of the lines: bounded tier)")
    reg.contract("werkzeug/http.py:parse_options_header", prop=P, trusted=True,
                 params={"value": "Optional[str]"}, returns="Tuple[str, Dict[str, str]]",
                 note="value -> (main value, options); total (C07 bounded tier)")
    reg.contract(
        "werkzeug/sansio/multipart.py:MultipartDecoder.next_event", prop="C01,C02,C10", self_model=MD,
        requires=["I_dec(self)"],
        ghost_after={"match = self.preamble_re.search(self.buffer, self._search_position)":
                     ["if match is not None:\n    self.g_g1 = match.group(1)"]},
        ensures=[
            "I_dec(self)",
            # a delimiter was consumed: it is the text just before the kept bytes, and `--boundary--` (and only it) leads to the epilogue
            "implies(old(self.state) in ('State.PREAMBLE', 'State.DATA', 'State.DATA_START') and self.state in ('State.PART', 'State.EPILOGUE'), "
            "        (self.state == 'State.EPILOGUE') == self.g_g1.startswith(b'--') and "
            "        old(self.buffer)[:len(old(self.buffer)) - len(self.buffer)].endswith(b'--' + self.boundary + self.g_g1) and "
            f"        re_in(self.g_g1, '{TAIL}'))",
            # the buffer only ever shrinks from the front: what is kept is a suffix of what was pending
            "old(self.buffer).endswith(self.buffer)",
            # the state machine only moves forward
            "implies(old(self.state) == 'State.PREAMBLE', self.state in ('State.PREAMBLE', 'State.PART', 'State.EPILOGUE'))",
            "implies(old(self.state) == 'State.PART', self.state in ('State.PART', 'State.DATA_START'))",
            "implies(old(self.state) == 'State.DATA_START' or old(self.state) == 'State.DATA', "
            "        self.state in ('State.DATA', 'State.PART', 'State.EPILOGUE'))",
            "implies(old(self.state) == 'State.EPILOGUE', self.state in ('State.EPILOGUE', 'State.COMPLETE'))",
            "implies(old(self.state) == 'State.COMPLETE', self.state == 'State.COMPLETE')",
            # nothing found yet: nothing is consumed, and the next search starts early enough to see a delimiter
            # (CRLF--boundary--CRLF, len(boundary) + 8 bytes) / blank line (4 bytes) that is still incomplete
            "implies(old(self.state) == 'State.PREAMBLE' and self.state == 'State.PREAMBLE', self.buffer == old(self.buffer) and "
            "        (self._search_position == 0 or self._search_position + len(self.boundary) + 7 <= len(self.buffer)))",
            "implies(old(self.state) == 'State.PART' and self.state == 'State.PART', self.buffer == old(self.buffer) and "
            "        (self._search_position == 0 or self._search_position + 3 <= len(self.buffer)))",
            # payload bytes: delivered + kept == pending (after the line break that opens the body)
            "implies(old(self.state) == 'State.DATA' and self.state == 'State.DATA', "
            "        old(self.buffer) == ev_data(result) + self.buffer)",
            "implies(old(self.state) == 'State.DATA_START' and self.state == 'State.DATA', "
            "        old(self.buffer)[lb_len(old(self.buffer)):] == ev_data(result) + self.buffer)",
            "implies((old(self.state) == 'State.DATA' or old(self.state) == 'State.DATA_START') and self.state != 'State.DATA', "
            "        old(self.buffer)[(lb_len(old(self.buffer)) if old(self.state) == 'State.DATA_START' else 0):].startswith(ev_data(result)))",
            "self.boundary == old(self.boundary) and self.complete == old(self.complete)",
            # C10: a part is only ever announced while the configured number of parts is not exceeded; every
            # announced part is counted exactly once
            "implies(ev_kind(result) in ('Field', 'File'), self._parts_decoded == old(self._parts_decoded) + 1 and "
            "        (self.max_parts is None or self._parts_decoded <= self.max_parts))",
            "implies(ev_kind(result) not in ('Field', 'File'), self._parts_decoded == old(self._parts_decoded))",
            "self.max_parts == old(self.max_parts)",
            # which event announces which step; the end of a part is always announced (Data with more_data False)
            "implies(old(self.state) == 'State.PREAMBLE', (ev_kind(result) == 'Preamble') == (self.state != 'State.PREAMBLE') and "
            "        (ev_kind(result) == 'Preamble' or ev_kind(result) == 'NeedData'))",
            "implies(old(self.state) == 'State.PREAMBLE' and self.state != 'State.PREAMBLE', old(self.buffer).startswith(ev_data(result)) and "
            "        len(ev_data(result)) + len(self.boundary) + 3 + len(self.buffer) <= len(old(self.buffer)))",
            "implies(old(self.state) == 'State.PART', ((ev_kind(result) == 'Field' or ev_kind(result) == 'File') == (self.state == 'State.DATA_START')) and "
            "        (ev_kind(result) in ('Field', 'File', 'NeedData')))",
            "implies(old(self.state) == 'State.DATA_START', ev_kind(result) == 'Data')",
            "implies(old(self.state) == 'State.DATA', ev_kind(result) == 'Data' or "
            "        (ev_kind(result) == 'NeedData' and self.state == 'State.DATA' and self.buffer == old(self.buffer)))",
            "implies(old(self.state) == 'State.DATA_START' or old(self.state) == 'State.DATA', "
            "        implies(ev_kind(result) == 'Data', ev_more(result) == (self.state == 'State.DATA')) and "
            "        implies(self.state != 'State.DATA', ev_kind(result) == 'Data'))",
            "implies(old(self.state) == 'State.EPILOGUE', implies(self.state == 'State.COMPLETE', ev_kind(result) == 'Epilogue' and "
            "        ev_data(result) == old(self.buffer) and len(self.buffer) == 0) and "
            "        implies(self.state == 'State.EPILOGUE', ev_kind(result) == 'NeedData' and self.buffer == old(self.buffer)))",
        ],
        raises={"ValueError": "self.complete or old(self.state) == 'State.PART'",
                "RequestEntityTooLarge": "self.max_parts is not None and self._parts_decoded > self.max_parts"},
        replay=replay_dec,
    )
