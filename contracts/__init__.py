"""Sidecar contracts.  load_all(reg) registers every cNN_*.py module."""
import importlib
import os
import pkgutil


def load_all(reg):
    here = os.path.dirname(__file__)
    for m in sorted(pkgutil.iter_modules([here]), key=lambda m: m.name):
        if m.name.startswith("c") and m.name[1:3].isdigit():
            importlib.import_module(f"contracts.{m.name}").register(reg)
    for m in sorted(pkgutil.iter_modules([here]), key=lambda m: m.name):
        if m.name.startswith("models"):
            importlib.import_module(f"contracts.{m.name}").register(reg)
