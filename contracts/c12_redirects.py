"""C12 -- router redirects stay on the bound host and preserve the query string."""
import ast


def register(reg):
    P = "C12"
    import z3
    from pyvc.values import VStr, VBuiltin, StrS
    from pyvc.ops import Unsupported

    # urllib.parse.urlunsplit for a non-empty netloc (trusted spec, CPython 3.12 source):
    #   path gets a leading '/' if it is non-empty and has none; result scheme:// netloc path [?query] [#fragment]
    def _urlunsplit(interp):
        def impl(it, a, k, n):
            parts = it.need(a[0])
            scheme, netloc, url, query, fragment = [it.need(x) for x in parts.items]
            if not it.branch(z3.Length(netloc.z) > 0, "urlunsplit-netloc"):
                raise Unsupported("urlunsplit with an empty netloc (outside the trusted spec)")
            u = z3.If(z3.And(z3.Length(url.z) > 0, z3.Not(z3.PrefixOf(z3.StringVal("/"), url.z))),
                      z3.Concat(z3.StringVal("/"), url.z), url.z)
            res = z3.Concat(z3.StringVal("//"), netloc.z, u)
            if it.branch(z3.Length(scheme.z) > 0, "urlunsplit-scheme"):
                res = z3.Concat(scheme.z, z3.StringVal(":"), res)
            from pyvc.values import VNone
            if not isinstance(query, VNone) and it.branch(z3.Length(query.z) > 0, "urlunsplit-query"):
                res = z3.Concat(res, z3.StringVal("?"), query.z)
            if not isinstance(fragment, VNone) and it.branch(z3.Length(fragment.z) > 0, "urlunsplit-fragment"):
                res = z3.Concat(res, z3.StringVal("#"), fragment.z)
            return VStr(res)
        return VBuiltin("urllib.parse.urlunsplit", impl)
    reg.overrides["std:urllib.parse.urlunsplit"] = _urlunsplit

    MapM = reg.model("MapM", fields={"host_matching": "bool"})
    Ad = reg.model("MapAdapter", cls="werkzeug/routing/map.py:MapAdapter",
                   fields={"map": MapM, "server_name": "str", "script_name": "str", "subdomain": "Optional[str]",
                           "url_scheme": "str", "query_args": "Optional[str]"})
    reg.spec("host_of(self, domain_part)",
             "(self.server_name if domain_part is None else domain_part) if self.map.host_matching else "
             "((self.subdomain + '.' + self.server_name) if (domain_part is None and self.subdomain is not None and len(self.subdomain) > 0) "
             " else ((domain_part + '.' + self.server_name) if (domain_part is not None and len(domain_part) > 0) else self.server_name))")
    reg.contract(
        "werkzeug/routing/map.py:MapAdapter.get_host", modifies=[], prop=P, self_model=Ad, replay="method", params={"domain_part": "Optional[str]"},
        returns="str", ensures=["result == host_of(self, domain_part)"],
    )
    reg.spec("redirect_path(script, path_info)",
             "('/' + script.strip('/') + '/' + path_info.lstrip('/')) if len(script.strip('/')) > 0 else ('/' + path_info.lstrip('/'))")
    reg.contract(
        "werkzeug/routing/map.py:MapAdapter.make_redirect_url", modifies=[], prop=P, self_model=Ad, replay="method",
        params={"path_info": "str", "query_args": "Optional[str]", "domain_part": "Optional[str]"}, returns="str",
        assumes=["len(self.server_name) > 0", "domain_part is None or len(domain_part) > 0"],
        ensures=[
            # scheme, host and script root are the bound ones; whatever the request path contains ('//host',
            # '///host', ...) it can only contribute to the path: the path starts with exactly one '/'
            "result == (self.url_scheme if len(self.url_scheme) > 0 else 'http') + '://' + host_of(self, domain_part) "
            "          + redirect_path(self.script_name, path_info) "
            "          + (('?' + (query_args if query_args is not None else self.query_args)) "
            "             if ((query_args is not None and len(query_args) > 0) or "
            "                 (query_args is None and self.query_args is not None and len(self.query_args) > 0)) else '')",
            "not redirect_path(self.script_name, path_info).startswith('//')",
        ],
    )

    @reg.static(P, "redirects-carry-the-callers-query-args")
    def _qa():
        from pyvc.extract import ModuleInfo
        cls = ModuleInfo.get("werkzeug/routing/map.py").classes["MapAdapter"]
        res = []
        n_calls = 0
        for name in ("match", "get_default_redirect", "make_alias_redirect_url"):
            fn = cls.methods[name][-1]
            params = [a.arg for a in fn.args.args + fn.args.kwonlyargs]
            for n in ast.walk(fn):
                if isinstance(n, ast.Call) and isinstance(n.func, ast.Attribute) and n.func.attr in ("make_redirect_url", "get_default_redirect", "make_alias_redirect_url") \
                        and isinstance(n.func.value, ast.Name) and n.func.value.id == "self":
                    n_calls += 1
                    passed = [ast.unparse(a) for a in n.args] + [f"{k.arg}={ast.unparse(k.value)}" for k in n.keywords]
                    ok = any(p == "query_args" or p == "query_args=query_args" for p in passed)
                    res.append((f"{name}/{n.func.attr}@{n.lineno}", ok and "query_args" in params,
                                f"arguments: {passed}"))
        res.append(("call-sites-found", n_calls >= 3, f"{n_calls} redirect-building call sites"))
        return res

    @reg.static(P, "alias-redirect-values-include-rule-defaults")
    def _alias():
        """the argument dict handed to RequestAliasRedirect (from which the canonical URL is built) has the
        alias rule's own defaults merged in: the merge statement dominates the raise in the same block"""
        from pyvc.extract import ModuleInfo
        fn = ModuleInfo.get("werkzeug/routing/matcher.py").classes["StateMachineMatcher"].methods["match"][-1]
        res = []
        found = False
        for n in ast.walk(fn):
            for fld in ("body", "orelse"):
                seq = getattr(n, fld, None)
                if not isinstance(seq, list):
                    continue
                for i, st in enumerate(seq):
                    if isinstance(st, ast.If) and any(isinstance(x, ast.Raise) and "RequestAliasRedirect" in ast.unparse(x) for x in st.body):
                        found = True
                        before = [ast.unparse(s) for s in seq[:i]]
                        merged = any("result.update(rule.defaults)" in b for b in before)
                        res.append(("defaults-merged-before-alias-redirect", merged, f"statements before the raise: {before[-3:]}"))
                        raise_src = [ast.unparse(x) for x in st.body if isinstance(x, ast.Raise)][0]
                        res.append(("alias-redirect-carries-result-and-endpoint", raise_src == "raise RequestAliasRedirect(result, rule.endpoint)", raise_src))
        res.append(("alias-redirect-site-found", found, "if rule.alias and rule.map.redirect_defaults: raise RequestAliasRedirect(...)"))
        return res
    _register_defaults_rule(reg)
    _register_alias_redirect(reg)
    _register_default_redirect(reg)


def _register_defaults_rule(reg):
    """Rule.provides_defaults_for: the defaults redirect may only be taken between rules of the same endpoint that
    take the same arguments -- otherwise following the redirect would change what is requested"""
    RuleD = reg.model("RuleD", cls="werkzeug/routing/rules.py:Rule",
                      fields={"build_only": "bool", "defaults": "Optional[Dict[str, str]]", "endpoint": "opaque:any",
                              "arguments": "Set[str]", "_trace": "opaque:any"})
    reg.contract(
        "werkzeug/routing/rules.py:Rule.provides_defaults_for", prop="C12", self_model=RuleD, params={"rule": RuleD},
        returns="bool", modifies=[],
        ensures=[
            "implies(result, self.endpoint == rule.endpoint and self.arguments == rule.arguments)",
            "implies(result, not self.build_only and self.defaults is not None)",
        ],
        raises={},
    )


def _register_alias_redirect(reg):
    """MapAdapter.make_alias_redirect_url (body; call sites use the summary in c03_match): the canonical URL that
    build() gives for the matched endpoint and values, with the caller's query string appended unchanged"""
    AdM = reg.models["MapAdapterM"] if "MapAdapterM" in reg.models else None
    Ad2 = reg.model("MapAdapterB", cls="werkzeug/routing/map.py:MapAdapter", fields={})
    reg.ufunc("uf_build_ext", ["str", "opaque:values", "str"], "str")
    reg.contract("werkzeug/routing/map.py:MapAdapter.build", prop="C12", trusted=True, modifies=[],
                 params={"endpoint": "str", "values": "opaque:values", "method": "str", "force_external": "bool", "append_unknown": "bool"},
                 param_names=["self", "endpoint", "values", "method", "force_external", "append_unknown"],
                 returns="str", ensures=["result == uf_build_ext(endpoint, values, method)"],
                 note="the exec-generated builder (C04 bounded tier); here only: a function of endpoint, values, method")
    reg.contract(
        "werkzeug/routing/map.py:MapAdapter.make_alias_redirect_url#verify", prop="C12", self_model=Ad2,
        params={"path": "str", "endpoint": "str", "values": "opaque:values", "method": "str", "query_args": "str"},
        returns="str", modifies=[],
        ensures=["result == uf_build_ext(endpoint, values, method) + (('?' + query_args) if len(query_args) > 0 else '')",
                 "result != path"],
        raises={"AssertionError": "uf_build_ext(endpoint, values, method) + (('?' + query_args) if len(query_args) > 0 else '') == path"},
    )


def _register_default_redirect(reg):
    """MapAdapter.get_default_redirect (body; call sites use the summary in c03_match).  Rules are abstract objects
    (identity, endpoint, defaults; provides_defaults_for / suitable_for / build as uninterpreted functions of the rule): what
    is proved is the search -- the redirect is built by the FIRST rule in front of the matched one that provides defaults for
    it and is suitable for the matched values, from those values with that rule's defaults merged in, through
    make_redirect_url (bound scheme / host / script root, the caller's query string); no such rule: no redirect."""
    import z3
    from pyvc.values import VBool, VBuiltin, VOpaque, VStr, VTuple, opaque_sort, StrS, BoolS
    RS, VS, DS = opaque_sort("rule"), opaque_sort("values"), opaque_sort("defaults")
    R_EP = z3.Function("rule_endpoint", RS, StrS)
    R_DEF = z3.Function("rule_defaults", RS, DS)
    reg.ufunc("r_pdf", ["opaque:rule", "opaque:rule"], "bool")
    reg.ufunc("r_suit", ["opaque:rule", "opaque:values", "str"], "bool")
    reg.ufunc("r_bdom", ["opaque:rule", "opaque:values"], "str")
    reg.ufunc("r_bpath", ["opaque:rule", "opaque:values"], "str")
    reg.ufunc("v_merge", ["opaque:values", "opaque:defaults"], "opaque:values")
    reg.ufunc("r_defaults", ["opaque:rule"], "opaque:defaults")
    reg.ufunc("r_endpoint", ["opaque:rule"], "str")
    ev = lambda it, name, args: it.call(reg.spec_names[name], args, {}, None)  # noqa: E731
    reg.overrides["opaque:rule.endpoint"] = lambda it, o, n: ev(it, "r_endpoint", [o])
    reg.overrides["opaque:rule.defaults"] = lambda it, o, n: ev(it, "r_defaults", [o])
    reg.overrides["opaque:rule.provides_defaults_for"] = lambda it, o, n: VBuiltin(
        "rule.provides_defaults_for", lambda it2, a, k, nn: ev(it2, "r_pdf", [o, it2.need(a[0])]))
    reg.overrides["opaque:rule.suitable_for"] = lambda it, o, n: VBuiltin(
        "rule.suitable_for", lambda it2, a, k, nn: ev(it2, "r_suit", [o, it2.need(a[0]).fields["v"], it2.need(a[1])]))
    reg.overrides["opaque:rule.build"] = lambda it, o, n: VBuiltin(
        "rule.build", lambda it2, a, k, nn: VTuple([ev(it2, "r_bdom", [o, it2.need(a[0]).fields["v"]]),
                                                    ev(it2, "r_bpath", [o, it2.need(a[0]).fields["v"]])]))
    Vals = reg.model("MatchedValues", fields={"v": "opaque:values"})
    reg.contract("model:MatchedValues.update", prop="C12", trusted=True, param_names=["self", "d"], modifies=["self.v"],
                 ensures=["self.v == v_merge(old(self.v), d)"], note="dict.update of the matched values with a rule's defaults")
    MapD = reg.model("MapD", fields={"host_matching": "bool", "redirect_defaults": "bool",
                                     "_rules_by_endpoint": "Dict[str, List[opaque:rule]]"})
    AdD = reg.model("MapAdapterD", cls="werkzeug/routing/map.py:MapAdapter",
                    fields={"map": MapD, "server_name": "str", "script_name": "str", "subdomain": "Optional[str]",
                            "url_scheme": "str", "query_args": "Optional[str]", "g_j": "int"})
    reg.spec("rules_of(self, rule)", "self.map._rules_by_endpoint[r_endpoint(rule)]")
    reg.spec("takes(r, rule, v, method)", "r_pdf(r, rule) and r_suit(r, v, method)")
    reg.contract(
        "werkzeug/routing/map.py:MapAdapter.get_default_redirect#verify", prop="C12", self_model=AdD,
        params={"rule": "opaque:rule", "method": "str", "values": Vals, "query_args": "str"}, returns="Optional[str]",
        modifies=["values.v", "self.g_j"],
        assumes=["self.map.redirect_defaults", "r_endpoint(rule) in self.map._rules_by_endpoint", "self.g_j == -1"],
        ghost_after={"values.update(r.defaults)": ["self.g_j = _i"]},
        ensures=[
            # no redirect: no rule in front of the matched one takes over
            "implies(result is None, self.g_j == -1 and values.v == old(values.v) and "
            "        exists(0, len(rules_of(self, rule)) + 1, lambda s: "
            "               (s == len(rules_of(self, rule)) or rules_of(self, rule)[s] == rule) and "
            "               forall(0, s, lambda j: rules_of(self, rule)[j] != rule and "
            "                      not takes(rules_of(self, rule)[j], rule, old(values.v), method))))",
            # a redirect: built by the first rule that takes over, in front of the matched one ...
            "implies(result is not None, 0 <= self.g_j and self.g_j < len(rules_of(self, rule)) and "
            "        takes(rules_of(self, rule)[self.g_j], rule, old(values.v), method) and "
            "        forall(0, self.g_j + 1, lambda j: rules_of(self, rule)[j] != rule) and "
            "        forall(0, self.g_j, lambda j: not takes(rules_of(self, rule)[j], rule, old(values.v), method)))",
            # ... from the matched values plus that rule's defaults ...
            "implies(result is not None, values.v == v_merge(old(values.v), r_defaults(rules_of(self, rule)[self.g_j])))",
            # ... as a URL on the bound scheme / host / script root with the caller's query string
            "implies(result is not None and len(self.server_name) > 0 and len(r_bdom(rules_of(self, rule)[self.g_j], values.v)) > 0, "
            "        result == (self.url_scheme if len(self.url_scheme) > 0 else 'http') + '://' + "
            "        host_of(self, r_bdom(rules_of(self, rule)[self.g_j], values.v)) + "
            "        redirect_path(self.script_name, r_bpath(rules_of(self, rule)[self.g_j], values.v)) + "
            "        (('?' + query_args) if len(query_args) > 0 else ''))",
        ],
        raises={},
        loops={0: {"inv": ["values.v == old(values.v)", "self.g_j == -1",
                           "forall(0, _i, lambda j: rules_of(self, rule)[j] != rule and "
                           "       not takes(rules_of(self, rule)[j], rule, values.v, method))"],
                   "modifies": []}},
    )
