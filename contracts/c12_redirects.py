"""C12 -- router redirects stay on the bound host and preserve the query string."""
import ast


def register(reg):
    P = "C12"
    import z3
    from pyvc.values import VStr, VBuiltin, StrS
    from pyvc.ops import Unsupported

    # urllib.parse.urlunsplit for a non-empty netloc (trusted spec, CPython 3.12 source):
    #   path gets a leading '/' if it is non-empty and has none; result scheme:// netloc path [?query] [#fragment]
    def _urlunsplit(interp):
        def impl(it, a, k, n):
            parts = it.need(a[0])
            scheme, netloc, url, query, fragment = [it.need(x) for x in parts.items]
            if not it.branch(z3.Length(netloc.z) > 0, "urlunsplit-netloc"):
                raise Unsupported("urlunsplit with an empty netloc (outside the trusted spec)")
            u = z3.If(z3.And(z3.Length(url.z) > 0, z3.Not(z3.PrefixOf(z3.StringVal("/"), url.z))),
                      z3.Concat(z3.StringVal("/"), url.z), url.z)
            res = z3.Concat(z3.StringVal("//"), netloc.z, u)
            if it.branch(z3.Length(scheme.z) > 0, "urlunsplit-scheme"):
                res = z3.Concat(scheme.z, z3.StringVal(":"), res)
            from pyvc.values import VNone
            if not isinstance(query, VNone) and it.branch(z3.Length(query.z) > 0, "urlunsplit-query"):
                res = z3.Concat(res, z3.StringVal("?"), query.z)
            if not isinstance(fragment, VNone) and it.branch(z3.Length(fragment.z) > 0, "urlunsplit-fragment"):
                res = z3.Concat(res, z3.StringVal("#"), fragment.z)
            return VStr(res)
        return VBuiltin("urllib.parse.urlunsplit", impl)
    reg.overrides["std:urllib.parse.urlunsplit"] = _urlunsplit

    MapM = reg.model("MapM", fields={"host_matching": "bool"})
    Ad = reg.model("MapAdapter", cls="werkzeug/routing/map.py:MapAdapter",
                   fields={"map": MapM, "server_name": "str", "script_name": "str", "subdomain": "Optional[str]",
                           "url_scheme": "str", "query_args": "Optional[str]"})
    reg.spec("host_of(self, domain_part)",
             "(self.server_name if domain_part is None else domain_part) if self.map.host_matching else "
             "((self.subdomain + '.' + self.server_name) if (domain_part is None and self.subdomain is not None and len(self.subdomain) > 0) "
             " else ((domain_part + '.' + self.server_name) if (domain_part is not None and len(domain_part) > 0) else self.server_name))")
    reg.contract(
        "werkzeug/routing/map.py:MapAdapter.get_host", modifies=[], prop=P, self_model=Ad, replay="method", params={"domain_part": "Optional[str]"},
        returns="str", ensures=["result == host_of(self, domain_part)"],
    )
    reg.spec("redirect_path(script, path_info)",
             "('/' + script.strip('/') + '/' + path_info.lstrip('/')) if len(script.strip('/')) > 0 else ('/' + path_info.lstrip('/'))")
    reg.contract(
        "werkzeug/routing/map.py:MapAdapter.make_redirect_url", modifies=[], prop=P, self_model=Ad, replay="method",
        params={"path_info": "str", "query_args": "Optional[str]", "domain_part": "Optional[str]"}, returns="str",
        assumes=["len(self.server_name) > 0", "domain_part is None or len(domain_part) > 0"],
        ensures=[
            # scheme, host and script root are the bound ones; whatever the request path contains ('//host',
            # '///host', ...) it can only contribute to the path: the path starts with exactly one '/'
            "result == (self.url_scheme if len(self.url_scheme) > 0 else 'http') + '://' + host_of(self, domain_part) "
            "          + redirect_path(self.script_name, path_info) "
            "          + (('?' + (query_args if query_args is not None else self.query_args)) "
            "             if ((query_args is not None and len(query_args) > 0) or "
            "                 (query_args is None and self.query_args is not None and len(self.query_args) > 0)) else '')",
            "not redirect_path(self.script_name, path_info).startswith('//')",
        ],
    )

    @reg.static(P, "redirects-carry-the-callers-query-args")
    def _qa():
        from pyvc.extract import ModuleInfo
        cls = ModuleInfo.get("werkzeug/routing/map.py").classes["MapAdapter"]
        res = []
        n_calls = 0
        for name in ("match", "get_default_redirect", "make_alias_redirect_url"):
            fn = cls.methods[name][-1]
            params = [a.arg for a in fn.args.args + fn.args.kwonlyargs]
            for n in ast.walk(fn):
                if isinstance(n, ast.Call) and isinstance(n.func, ast.Attribute) and n.func.attr in ("make_redirect_url", "get_default_redirect", "make_alias_redirect_url") \
                        and isinstance(n.func.value, ast.Name) and n.func.value.id == "self":
                    n_calls += 1
                    passed = [ast.unparse(a) for a in n.args] + [f"{k.arg}={ast.unparse(k.value)}" for k in n.keywords]
                    ok = any(p == "query_args" or p == "query_args=query_args" for p in passed)
                    res.append((f"{name}/{n.func.attr}@{n.lineno}", ok and "query_args" in params,
                                f"arguments: {passed}"))
        res.append(("call-sites-found", n_calls >= 3, f"{n_calls} redirect-building call sites"))
        return res

    @reg.static(P, "alias-redirect-values-include-rule-defaults")
    def _alias():
        """the argument dict handed to RequestAliasRedirect (from which the canonical URL is built) has the
        alias rule's own defaults merged in: the merge statement dominates the raise in the same block"""
        from pyvc.extract import ModuleInfo
        fn = ModuleInfo.get("werkzeug/routing/matcher.py").classes["StateMachineMatcher"].methods["match"][-1]
        res = []
        found = False
        for n in ast.walk(fn):
            for fld in ("body", "orelse"):
                seq = getattr(n, fld, None)
                if not isinstance(seq, list):
                    continue
                for i, st in enumerate(seq):
                    if isinstance(st, ast.If) and any(isinstance(x, ast.Raise) and "RequestAliasRedirect" in ast.unparse(x) for x in st.body):
                        found = True
                        before = [ast.unparse(s) for s in seq[:i]]
                        merged = any("result.update(rule.defaults)" in b for b in before)
                        res.append(("defaults-merged-before-alias-redirect", merged, f"statements before the raise: {before[-3:]}"))
                        raise_src = [ast.unparse(x) for x in st.body if isinstance(x, ast.Raise)][0]
                        res.append(("alias-redirect-carries-result-and-endpoint", raise_src == "raise RequestAliasRedirect(result, rule.endpoint)", raise_src))
        res.append(("alias-redirect-site-found", found, "if rule.alias and rule.map.redirect_defaults: raise RequestAliasRedirect(...)"))
        return res
    _register_defaults_rule(reg)
    _register_alias_redirect(reg)


def _register_defaults_rule(reg):
    """Rule.provides_defaults_for: the defaults redirect may only be taken between rules of the same endpoint that
    take the same arguments -- otherwise following the redirect would change what is requested"""
    RuleD = reg.model("RuleD", cls="werkzeug/routing/rules.py:Rule",
                      fields={"build_only": "bool", "defaults": "Optional[Dict[str, str]]", "endpoint": "opaque:any",
                              "arguments": "Set[str]", "_trace": "opaque:any"})
    reg.contract(
        "werkzeug/routing/rules.py:Rule.provides_defaults_for", prop="C12", self_model=RuleD, params={"rule": RuleD},
        returns="bool", modifies=[],
        ensures=[
            "implies(result, self.endpoint == rule.endpoint and self.arguments == rule.arguments)",
            "implies(result, not self.build_only and self.defaults is not None)",
        ],
        raises={},
    )


def _register_alias_redirect(reg):
    """MapAdapter.make_alias_redirect_url (body; call sites use the summary in c03_match): the canonical URL that
    build() gives for the matched endpoint and values, with the caller's query string appended unchanged"""
    AdM = reg.models["MapAdapterM"] if "MapAdapterM" in reg.models else None
    Ad2 = reg.model("MapAdapterB", cls="werkzeug/routing/map.py:MapAdapter", fields={})
    reg.ufunc("uf_build_ext", ["str", "opaque:values", "str"], "str")
    reg.contract("werkzeug/routing/map.py:MapAdapter.build", prop="C12", trusted=True, modifies=[],
                 params={"endpoint": "str", "values": "opaque:values", "method": "str", "force_external": "bool", "append_unknown": "bool"},
                 param_names=["self", "endpoint", "values", "method", "force_external", "append_unknown"],
                 returns="str", ensures=["result == uf_build_ext(endpoint, values, method)"],
                 note="the exec-generated builder (C04 bounded tier); here only: a function of endpoint, values, method")
    reg.contract(
        "werkzeug/routing/map.py:MapAdapter.make_alias_redirect_url#verify", prop="C12", self_model=Ad2,
        params={"path": "str", "endpoint": "str", "values": "opaque:values", "method": "str", "query_args": "str"},
        returns="str", modifies=[],
        ensures=["result == uf_build_ext(endpoint, values, method) + (('?' + query_args) if len(query_args) > 0 else '')",
                 "result != path"],
        raises={"AssertionError": "uf_build_ext(endpoint, values, method) + (('?' + query_args) if len(query_args) > 0 else '') == path"},
    )
