"""C05 -- header values are native strings free of CR and LF (storing such a value is refused)."""
import ast


def _is_self_list(n):
    return isinstance(n, ast.Attribute) and n.attr == "_list" and isinstance(n.value, ast.Name) and n.value.id == "self"


class _Prov:
    """tiny provenance analysis of one method: which expressions can only hold checked header values /
    elements that already are in self._list"""

    def __init__(self, fn):
        self.fn = fn
        self.assigns = {}      # name -> list of value exprs (plain assignments)
        self.appends = {}      # name -> list of appended exprs
        self.loopvars = {}     # name -> ('elem', iter expr) | ('comp', idx, iter expr)
        for n in ast.walk(fn):
            if isinstance(n, ast.Assign) and len(n.targets) == 1 and isinstance(n.targets[0], ast.Name):
                self.assigns.setdefault(n.targets[0].id, []).append(n.value)
            elif isinstance(n, ast.AnnAssign) and isinstance(n.target, ast.Name) and n.value is not None:
                self.assigns.setdefault(n.target.id, []).append(n.value)
            elif isinstance(n, ast.Call) and isinstance(n.func, ast.Attribute) and n.func.attr == "append" \
                    and isinstance(n.func.value, ast.Name):
                self.appends.setdefault(n.func.value.id, []).append(n.args[0])
            elif isinstance(n, (ast.For, ast.comprehension)):
                self._bind(n.target, n.iter)

    def _bind(self, target, it):
        if isinstance(it, ast.Call) and isinstance(it.func, ast.Name) and it.func.id == "enumerate" and \
                isinstance(target, ast.Tuple) and len(target.elts) == 2:
            return self._bind(target.elts[1], it.args[0])
        if isinstance(target, ast.Name):
            self.loopvars[target.id] = ("elem", it)
        elif isinstance(target, ast.Tuple):
            for i, e in enumerate(target.elts):
                if isinstance(e, ast.Name):
                    self.loopvars[e.id] = ("comp", i, it)

    # -- sources whose ELEMENTS are (key, checked value) pairs
    def safe_source(self, e, depth=0):
        if depth > 6:
            return False
        if _is_self_list(e):
            return True
        if isinstance(e, ast.Subscript) and _is_self_list(e.value):
            return True
        if isinstance(e, ast.Call) and isinstance(e.func, ast.Name) and e.func.id in ("iter", "list", "tuple", "reversed") \
                and len(e.args) == 1:
            return self.safe_source(e.args[0], depth + 1)
        if isinstance(e, (ast.List, ast.Tuple)):
            return all(self.safe_elem(x, depth + 1) for x in e.elts)
        if isinstance(e, (ast.ListComp, ast.GeneratorExp)):
            sub = _Prov(ast.Module(body=[ast.Expr(e)], type_ignores=[]))
            sub.assigns, sub.appends = self.assigns, self.appends
            sub.loopvars = {**self.loopvars, **sub.loopvars}
            return sub.safe_elem(e.elt, depth + 1)
        if isinstance(e, ast.Name):
            vals = self.assigns.get(e.id, [])
            apps = self.appends.get(e.id, [])
            if not vals and not apps:
                return False
            return all(self.safe_source(v, depth + 1) for v in vals) and all(self.safe_elem(a, depth + 1) for a in apps)
        return False

    # -- expressions that are one (key, checked value) pair
    def safe_elem(self, e, depth=0):
        if depth > 6:
            return False
        if isinstance(e, ast.Tuple) and len(e.elts) == 2:
            return self.safe_value(e.elts[1], depth + 1)
        if isinstance(e, ast.Name) and e.id in self.loopvars and self.loopvars[e.id][0] == "elem":
            return self.safe_source(self.loopvars[e.id][1], depth + 1)
        return False

    # -- expressions that are a checked value
    def safe_value(self, e, depth=0):
        if depth > 6:
            return False
        if isinstance(e, ast.Call) and isinstance(e.func, ast.Name) and e.func.id == "_str_header_value":
            return True
        if isinstance(e, ast.Name):
            if e.id in self.loopvars and self.loopvars[e.id][0] == "comp" and self.loopvars[e.id][1] == 1:
                return self.safe_source(self.loopvars[e.id][2], depth + 1)
            vals = self.assigns.get(e.id, [])
            return bool(vals) and all(self.safe_value(v, depth + 1) for v in vals)
        return False


def write_sites(cls):
    """(method, line, kind, value expr, is_elem) for every statement writing into self._list"""
    out = []
    for name, fns in cls.methods.items():
        fn = fns[-1]
        for n in ast.walk(fn):
            if isinstance(n, ast.Call) and isinstance(n.func, ast.Attribute) and _is_self_list(n.func.value):
                if n.func.attr == "append":
                    out.append((fn, name, n.lineno, "append", n.args[0], True))
                elif n.func.attr == "insert":
                    out.append((fn, name, n.lineno, "insert", n.args[1], True))
                elif n.func.attr == "extend":
                    out.append((fn, name, n.lineno, "extend", n.args[0], False))
            elif isinstance(n, (ast.Assign, ast.AnnAssign)):
                targets = n.targets if isinstance(n, ast.Assign) else [n.target]
                for tg in targets:
                    if _is_self_list(tg):
                        if n.value is not None:
                            out.append((fn, name, n.lineno, "rebind", n.value, False))
                    elif isinstance(tg, ast.Subscript) and _is_self_list(tg.value):
                        is_slice = isinstance(tg.slice, ast.Slice)
                        # `self._list[key] = ...` with a non-literal subscript may be either: the surrounding
                        # isinstance test decides; classify by the shape of the stored expression
                        elem = not is_slice and isinstance(n.value, ast.Tuple)
                        out.append((fn, name, n.lineno, "slice-store" if not elem else "item-store", n.value, elem))
            elif isinstance(n, ast.AugAssign) and _is_self_list(n.target):
                out.append((fn, name, n.lineno, "+=", n.value, False))
    return out


class RespView:
    """what the clauses see of a real Response: its attributes, plus the ghost g_enc = what iter_encoded() yields"""

    def __init__(self, resp):
        object.__setattr__(self, "_r", resp)

    def __getattr__(self, name):
        r = object.__getattribute__(self, "_r")
        if name == "g_enc":
            return list(r.iter_encoded())
        return getattr(r, name)


def replay_resp(reg, c, inputs):
    """replay get_wsgi_headers on a real Response built from the model; the environ (opaque in the contract) is a
    plain local GET request"""
    from pyvc import runtime
    wr = runtime.import_real("werkzeug/wrappers/response.py")
    inp = inputs["self"]
    r = wr.Response.__new__(wr.Response)
    ds = runtime.import_real("werkzeug/datastructures/__init__.py")
    h = ds.Headers()
    h._list = [tuple(x["__tuple__"]) if isinstance(x, dict) else tuple(x) for x in inp["headers"]["_list"]]
    r.headers = h
    r._status_code = inp["status_code"]
    r._status = f"{inp['status_code']} X"
    r.response = list(inp["response"])
    r.direct_passthrough = bool(inp.get("direct_passthrough"))
    r.autocorrect_location_header = bool(inp["autocorrect_location_header"])
    r.automatically_set_content_length = bool(inp["automatically_set_content_length"])
    r._on_close = []
    environ = {"wsgi.url_scheme": "http", "SERVER_NAME": "localhost", "SERVER_PORT": "80", "SCRIPT_NAME": "",
               "PATH_INFO": "/", "REQUEST_METHOD": "GET", "QUERY_STRING": ""}
    nc = runtime.NativeContract(reg, c)
    fails = nc.check_call(r.get_wsgi_headers, [environ], {}, {"self": RespView(r), "environ": environ})
    if not fails:
        # the encoded body (ghost g_enc) is abstract in the model; natively it is determined by the items: look at a
        # few other bodies with the same headers / status / flags (bounded native search around the model)
        for body in (["\u00e9"], ["\u65e5\u672c", "x"], [], ["", "ab"]):
            r.response = list(body)
            r.headers = ds.Headers()
            r.headers._list = list(h._list)
            fails = nc.check_call(r.get_wsgi_headers, [environ], {}, {"self": RespView(r), "environ": environ})
            if fails:
                return [f"(body items {body!r}) " + f for f in fails]
    if not fails and nc.errors:
        return None
    return fails


def register(reg):
    P = "C05"
    from pyvc.extract import ModuleInfo

    @reg.static(P, "Headers-write-site-provenance")
    def _prov():
        mod = ModuleInfo.get("werkzeug/datastructures/headers.py")
        cls = mod.classes["Headers"]
        res = []
        sites = write_sites(cls)
        for fn, name, line, kind, val, is_elem in sites:
            pr = _Prov(fn)
            ok = pr.safe_elem(val) if is_elem else pr.safe_source(val)
            res.append((f"{name}/{kind}", ok,
                        f"{name}: {kind} of `{ast.unparse(val)[:80]}` stores only _str_header_value results or elements "
                        f"already in self._list"))
        res.append(("write-sites-found", len(sites) >= 8, f"{len(sites)} write sites into self._list analysed"))
        # nothing outside the class reaches into _list (other modules use the public mutators)
        return res

    @reg.static(P, "Headers._list-not-written-elsewhere")
    def _elsewhere():
        import os
        from pyvc.extract import src_root
        bad = []
        for root, _d, files in os.walk(os.path.join(src_root(), "werkzeug")):
            for f in files:
                if not f.endswith(".py"):
                    continue
                path = os.path.join(root, f)
                tree = ast.parse(open(path, encoding="utf-8").read())
                for n in ast.walk(tree):
                    if isinstance(n, ast.Attribute) and n.attr == "_list" and not (isinstance(n.value, ast.Name) and n.value.id == "self"):
                        if isinstance(n.ctx, ast.Store) or True:
                            bad.append(f"{os.path.relpath(path, src_root())}:{n.lineno}")
        # reads of other._list are fine only inside headers.py (Headers methods)
        bad = [b for b in bad if not b.startswith("werkzeug/datastructures/headers.py")]
        return [("no-foreign-access", not bad, f"accesses to <obj>._list outside Headers: {bad[:5]}")]

    # ghost function: opaque under quantifiers (I_h), unfolded at ground uses
    reg.defn("clean(v)", "not ('\\r' in v) and not ('\\n' in v)", {"v": "str"})
    # the checker itself
    reg.contract(
        "werkzeug/datastructures/headers.py:_str_header_value", modifies=[], prop=P, replay="pure",
        cases=[{"value": "str"}, {"value": "int"}], returns="str",
        ensures=["clean(result)", "result == (value if isinstance(value, str) else str(value))"],
        raises={"ValueError": "isinstance(value, str) and not clean(value)"},
    )
    H = reg.model("Headers", cls="werkzeug/datastructures/headers.py:Headers", fields={"_list": "List[Tuple[str, str]]"})
    reg.spec("I_h(self)", "forall(0, len(self._list), lambda i: clean(self._list[i][1]))")
    reg.contract(
        "werkzeug/datastructures/headers.py:Headers.add", prop="C05,C08", self_model=H, replay="method", modifies=["self._list"], raise_modifies=[],
        cases=[{"value": "str"}, {"value": "int"}], params={"key": "str"},
        requires=["I_h(self)"],
        ensures=["I_h(self)", "len(self._list) == len(old(self._list)) + 1",
                 "self._list[len(self._list) - 1][0] == key",
                 "implies(isinstance(value, str), self._list[len(self._list) - 1][1] == value)",
                 "forall(0, len(old(self._list)), lambda i: self._list[i][0] == old(self._list)[i][0] and "
                 "       self._list[i][1] == old(self._list)[i][1])"],
        raises={"ValueError": "isinstance(value, str) and not clean(value)"},
        raises_ensures={"ValueError": ["len(self._list) == len(old(self._list))"]},
    )

    # ---- body suppression: HEAD, 1xx, 204, 304 never send body bytes -------------------------------
    from pyvc.values import VObj
    # response: a buffered body (list of text items); g_enc (ghost): the byte strings iter_encoded() yields for it
    RespM = reg.model("ResponseM", cls="werkzeug/wrappers/response.py:Response",
                      fields={"status_code": "int", "_status": "str", "direct_passthrough": "bool", "response": "List[str]", "g_enc": "List[bytes]",
                              "headers": H, "autocorrect_location_header": "bool", "automatically_set_content_length": "bool"})
    reg.contract("werkzeug/wrappers/response.py:Response.iter_encoded", prop=P, trusted=True, returns="List[bytes]",
                 returns_expr="self.g_enc", modifies=[],
                 note="the encoded body: str items encoded with the response's charset, bytes items as they are "
                      "(the item-wise encoding itself: bounded tier)")

    def _closing(interp, cv, args, kwargs, node):
        return VObj("ClosingIterator", {"iterable": args[0], "ncallbacks": interp.const(len(args) - 1)})
    reg.constructors["werkzeug/wsgi.py:ClosingIterator"] = _closing
    reg.spec("no_body(status, method)", "method == 'HEAD' or (100 <= status and status < 200) or status == 204 or status == 304")
    reg.contract(
        "werkzeug/wrappers/response.py:Response.get_app_iter#verify", prop=P, self_model=RespM,
        params={"environ": {"REQUEST_METHOD": "str"}},
        ensures=[
            # no body bytes for HEAD requests and 1xx / 204 / 304: the wrapped iterable is the empty tuple,
            # and the result is still a ClosingIterator chained to Response.close
            "implies(no_body(self.status_code, environ['REQUEST_METHOD']), "
            "        isinstance(result, ClosingIterator) and result.iterable == () and result.ncallbacks == 1)",
            "implies(not no_body(self.status_code, environ['REQUEST_METHOD']) and self.direct_passthrough, result is self.response)",
            "implies(not no_body(self.status_code, environ['REQUEST_METHOD']) and not self.direct_passthrough, "
            "        isinstance(result, ClosingIterator) and result.ncallbacks == 1)",
        ],
    )

    # ---- header finalisation: what the WSGI server is handed ------------------------------------------------
    import z3 as _z3
    from pyvc.values import VStr as _VStr, StrS as _StrS
    IRI = _z3.Function("iri_to_uri", _StrS, _StrS)
    JOIN = _z3.Function("urljoin", _StrS, _StrS, _StrS)
    CUR = _z3.Function("current_url", _StrS)     # of the (abstract) environ: one per verification run
    reg.ufunc("uf_iri", ["str"], "str")
    reg.ufunc("uf_join", ["str", "str"], "str")
    reg.contract("werkzeug/urls.py:iri_to_uri", prop=P, trusted=True, params={"iri": "str"}, returns="str", modifies=[],
                 ensures=["result == uf_iri(iri)", "implies(clean(iri), clean(result))", "re_in(result, '[\\x00-\\x7f]*')"],
                 note="IRI -> ASCII URI (C15 bounded tier); percent-encoding never introduces CR/LF")
    reg.contract("werkzeug/wsgi.py:get_current_url", prop=P, trusted=True, returns="str", modifies=[],
                 params={"environ": "opaque:environ", "strip_querystring": "bool"},
                 param_names=["environ", "root_only", "strip_querystring", "host_only", "trusted_hosts"],
                 ensures=["clean(result)"], note="URL of the request (C15); environ values are header-derived, free of CR/LF")
    reg.overrides["std:urllib.parse.urljoin"] = lambda interp: __import__("pyvc.values", fromlist=["VBuiltin"]).VBuiltin(
        "urllib.parse.urljoin", lambda it, a, k, n: _urljoin(it, a))

    def _urljoin(it, a):
        base, url = it.need(a[0]), it.need(a[1])
        r = JOIN(base.z, url.z)
        CLEAN = reg.spec_names["clean"]
        # trusted: joining two CR/LF-free ASCII URLs gives a CR/LF-free ASCII URL
        cb, cu, cr = (it.call(CLEAN, [_VStr(x, "str")], {}, None) for x in (base.z, url.z, r))
        from pyvc.ops import truthy as _t
        it.ctx.assume(_z3.Implies(_z3.And(_t(cb), _t(cu)), _t(cr)), "urljoin:keeps-values-free-of-CR-LF")
        return _VStr(r, "str")
    reg.contract("werkzeug/http.py:remove_entity_headers", prop=P, trusted=True, params={"headers": H}, modifies=["headers._list"],
                 param_names=["headers", "allowed"], defaults={"allowed": "()"},
                 ensures=["implies(old(I_h(headers)), I_h(headers))", "not has_key(headers, 'Content-Length')",
                          "len(headers._list) <= len(old(headers._list))"],
                 note="drops the entity headers (Content-Length among them) except Expires / Content-Location; "
                      "a filter of the pairs (C08 bounded tier)")

    def _headers_copy(interp, cv, args, kwargs, node):
        # Headers(other): a new object with the same pairs (each re-checked by add); Headers(): empty
        from pyvc.values import VList
        from pyvc import ops as _ops
        if not args:
            return VObj(cv.info, {"_list": VList([])}, H)
        src = interp.need(args[0])
        if isinstance(src, VObj) and "_list" in src.fields:
            return VObj(cv.info, {"_list": _ops.snapshot(src.fields["_list"])}, H)
        from pyvc.values import VList as _VL
        if isinstance(src, _VL):
            # Headers(<list of pairs>): every value goes through _str_header_value (may raise ValueError); nothing else is
            # said about the new object's pairs here (over-approximation: an arbitrary list that satisfies the invariant)
            import z3 as _z
            if interp.ctx.choose([_z.BoolVal(True)] * 2, "Headers(list)") == 1:
                interp.raise_("ValueError", node=node)
            o = VObj(cv.info, {"_list": interp.fresh("List[Tuple[str, str]]", "new_headers")}, H)
            interp.ctx.assume(__import__("pyvc.ops", fromlist=["truthy"]).truthy(
                interp.sub(True).call(reg.spec_names["I_h"], [o], {}, None)), "Headers(list):values-checked")
            return o
        from pyvc.ops import Unsupported
        raise Unsupported("Headers(<something that is not a Headers model>)")
    reg.constructors["werkzeug/datastructures/headers.py:Headers"] = _headers_copy
    reg.spec("total_len(chunks)", "sum(len(x) for x in chunks)")
    reg.spec("first_value_is(h, key, v)", "exists(0, len(h._list), lambda i: first_at(h._list, key, i) and h._list[i][1] == v, witness=lambda: len(h._list) - 1)")
    reg.spec("bodyless(status)", "(100 <= status and status < 200) or status == 204")
    reg.contract(
        "werkzeug/wrappers/response.py:Response.get_wsgi_headers", prop=P, self_model=RespM,
        params={"environ": "opaque:environ"}, returns=H, modifies=[], replay=replay_resp,
        # every header assignment below is asked what it does to the presence of Content-Length
        call_ghost={"werkzeug/datastructures/headers.py:Headers.set": {"k2": "'Content-Length'"}},
        requires=["I_h(self.headers)"],
        ensures=[
            # every value handed to the server is free of CR and LF; the response's own headers are not touched
            "I_h(result)",
            # 1xx and 204 never carry a Content-Length
            "implies(bodyless(self.status_code), not has_key(result, 'Content-Length'))",
            # a Content-Length that werkzeug computes is the number of body bytes it will produce
            "implies(self.automatically_set_content_length and not has_key(self.headers, 'Content-Length') and "
            "        not bodyless(self.status_code) and self.status_code != 304, "
            "        first_value_is(result, 'Content-Length', str(total_len(self.g_enc))))",
            # and one that the application set is kept as it is unless the status forbids it
            "implies(has_key(self.headers, 'Content-Length') and not bodyless(self.status_code) and self.status_code != 304 "
            "        and not has_key(self.headers, 'Location') and not has_key(self.headers, 'Content-Location'), "
            "        result._list == self.headers._list)",
        ],
        raises={},
        # intermediate lemmas: rewriting Location / Content-Location never makes a Content-Length appear
        ghost_after={"headers['Location'] = location": ["assert implies(content_length is None, not has_key(headers, 'Content-Length'))"],
                     "headers['Content-Location'] = iri_to_uri(content_location)":
                         ["assert implies(content_length is None, not has_key(headers, 'Content-Length'))"]},
        loops={0: {"types": {"location": "Optional[str]", "content_location": "Optional[str]", "content_length": "Optional[str]"},
                   "inv": ["(content_length is None) == forall(0, _i, lambda j: hkey(headers, j) != 'content-length')",
                           "(location is None) == forall(0, _i, lambda j: hkey(headers, j) != 'location')",
                           "(content_location is None) == forall(0, _i, lambda j: hkey(headers, j) != 'content-location')",
                           "implies(location is not None, clean(location))",
                           "implies(content_location is not None, clean(content_location))",
                           "headers._list == self.headers._list", "I_h(headers)"]}},
    )

    # ---- status normalisation -----------------------------------------------------------------------
    reg.overrides["werkzeug/sansio/response.py:HTTP_STATUS_CODES"] = lambda interp: interp.fresh("Dict[int, str]", "HTTP_STATUS_CODES")
    RS = reg.model("SansResponse", cls="werkzeug/sansio/response.py:Response", fields={})
    reg.contract(
        "werkzeug/sansio/response.py:Response._clean_status#int", prop=P, self_model=RS, params={"value": "int"},
        returns="Tuple[str, int]",
        ensures=["result[1] == value", "result[0].startswith(str(value) + ' ')", "len(result[0]) > len(str(value)) + 1 or True"],
        raises={},
    )
    reg.contract(
        "werkzeug/sansio/response.py:Response._clean_status#str", prop=P, self_model=RS, params={"value": "str"},
        returns="Tuple[str, int]",
        ensures=[
            # "<code> <reason>" keeps the text and yields the code of its first token
            "implies(' ' in value.strip() and re_in(value.strip().partition(' ')[0], '-?[0-9]+') and "
            "        len(value.strip().partition(' ')[0]) <= int_max_digits(), "
            "        result[0] == value.strip() and result[1] == str_to_int(value.strip().partition(' ')[0]))",
            # a bare code gets a reason phrase
            "implies(not (' ' in value.strip()) and re_in(value.strip(), '-?[0-9]+') and len(value.strip()) <= int_max_digits(), "
            "        result[1] == str_to_int(value.strip()) and result[0].startswith(str(result[1]) + ' '))",
        ],
        raises={"ValueError": "len(value.strip()) == 0"},
    )

    # ---- close chaining: every registered callback runs exactly once, in order ------------------------------
    CI = reg.model("ClosingIteratorM", cls="werkzeug/wsgi.py:ClosingIterator",
                   fields={"_callbacks": "List[opaque:callback]", "g_n": "int", "g_in_order": "bool"})
    reg.contract(
        "werkzeug/wsgi.py:ClosingIterator.close", prop=P, self_model=CI,
        assumes=["self.g_n == 0 and self.g_in_order"],
        ghost_after={"callback()": ["self.g_in_order = self.g_in_order and callback == self._callbacks[self.g_n]",
                                    "self.g_n = self.g_n + 1"]},
        ensures=["self.g_n == len(self._callbacks)", "self.g_in_order"],
        loops={0: {"inv": ["self.g_n == _i", "self.g_in_order"], "modifies": ["self.g_n", "self.g_in_order"]}},
    )
    _register_wsgi_response(reg)


def _register_wsgi_response(reg):
    """Response.get_wsgi_response: what start_response is given is the finalised header list (every value free of
    CR/LF, no Content-Length for 1xx/204) -- the composition of get_wsgi_headers and get_app_iter"""
    RespM = reg.models["ResponseM"]
    # call-site view of get_app_iter (its body is verified under the key ...get_app_iter#verify): some iterable, nothing changed
    reg.contract("werkzeug/wrappers/response.py:Response.get_app_iter", prop="C05", trusted=True, modifies=[],
                 params={"environ": "opaque:environ"}, returns="opaque:iterable",
                 note="call-site summary; the body suppression itself is proved on get_app_iter#verify")
    reg.contract(
        "werkzeug/wrappers/response.py:Response.get_wsgi_response", prop="C05", self_model=RespM,
        params={"environ": "opaque:environ"}, returns="Tuple[opaque:iterable, str, List[Tuple[str, str]]]",
        inline_callees=["werkzeug/datastructures/headers.py:Headers.to_wsgi_list", "werkzeug/datastructures/headers.py:Headers.__iter__"],
        requires=["I_h(self.headers)"],
        ensures=["forall(0, len(result[2]), lambda i: clean(result[2][i][1]))",
                 "implies(bodyless(self.status_code), forall(0, len(result[2]), lambda i: result[2][i][0].lower() != 'content-length'))"],
        raises={},
    )

