"""C08 -- immutable variants reject every mutator (resolution-order table over the real class sources)."""
import ast


LIST_MUT = ["append", "extend", "insert", "remove", "pop", "clear", "reverse", "sort", "__setitem__", "__delitem__", "__iadd__", "__imul__"]
DICT_MUT = ["__setitem__", "__delitem__", "clear", "pop", "popitem", "setdefault", "update", "__ior__"]
MULTI_MUT = DICT_MUT + ["add", "setlist", "setlistdefault", "poplist", "popitemlist"]
HEADERS_MUT = ["__setitem__", "__delitem__", "set", "setlist", "add", "add_header", "remove", "extend", "update", "__ior__",
               "pop", "popitem", "setdefault", "setlistdefault", "clear"]


def _raises_immutable(fn):
    """the method body is `_immutable_error(self)` (optionally after a docstring) or an explicit raise TypeError"""
    body = [s for s in fn.body if not (isinstance(s, ast.Expr) and isinstance(s.value, ast.Constant))]
    if len(body) != 1:
        return False
    src = ast.unparse(body[0])
    return src in ("_immutable_error(self)", "return _immutable_error(self)") or src.startswith("raise TypeError")


def register(reg):
    P = "C08"
    from pyvc.extract import ModuleInfo, ClassInfo

    @reg.table(P, "immutable-variants-reject-every-mutator")
    def _immutables():
        st = ModuleInfo.get("werkzeug/datastructures/structures.py")
        hd = ModuleInfo.get("werkzeug/datastructures/headers.py")
        targets = [
            (st.classes["ImmutableList"], LIST_MUT), (st.classes["ImmutableDict"], DICT_MUT),
            (st.classes["ImmutableTypeConversionDict"], DICT_MUT), (st.classes["ImmutableMultiDict"], MULTI_MUT),
            (st.classes["CombinedMultiDict"], MULTI_MUT), (hd.classes["EnvironHeaders"], HEADERS_MUT),
        ]
        res = []
        n = 0
        for cls, muts in targets:
            bad = []
            for m in muts:
                owner, found = cls.find_method(m)
                n += 1
                if not (isinstance(owner, ClassInfo) and isinstance(found, list) and _raises_immutable(found[-1])):
                    where = owner.name if isinstance(owner, ClassInfo) else owner
                    bad.append(f"{m} -> {where}")
            res.append((cls.name, not bad, {"unblocked": bad} if bad else f"{len(muts)} mutators resolve to a raising mixin method"))
        res.append(("mutators-checked", n >= 60, f"{n} (class, mutator) pairs resolved through the C3 order computed from the sources"))
        # _immutable_error raises TypeError
        mx = ModuleInfo.get("werkzeug/datastructures/mixins.py")
        fn = mx.functions["_immutable_error"]
        res.append(("_immutable_error-raises-TypeError", any(isinstance(x, ast.Raise) and "TypeError" in ast.unparse(x) for x in ast.walk(fn)),
                    ast.unparse(fn.body[-1])[:80]))
        return res
