"""C07 -- no client-controlled text can crash request parsing: effect contracts for the small parsers."""
import ast
import itertools
import re


def register(reg):
    P = "C07"

    @reg.table("C07,C13", "cookie-unslash-replacement-total")
    def _unslash():
        """every text the unslash regex can capture is converted without an exception, to exactly one byte
        (the language of the capture group is finite: enumerated completely)"""
        from contracts.c13_cookies import _module_consts
        import re._parser as sp
        import re._constants as sc
        ns, _ = _module_consts("werkzeug/sansio/http.py", {"_cookie_unslash_re", "_cookie_unslash_replace"})
        rx, rep = ns["_cookie_unslash_re"], ns["_cookie_unslash_replace"]
        parsed = list(sp.parse(rx.pattern, rx.flags))
        res = []
        # shape: literal backslash followed by ONE capturing group of alternatives of fixed-length class sequences
        ok_shape = len(parsed) == 2 and parsed[0][0] is sc.LITERAL and parsed[0][1] == 0x5C and parsed[1][0] is sc.SUBPATTERN
        res.append(("pattern-shape", bool(ok_shape), f"pattern {rx.pattern!r}"))
        if not ok_shape:
            return res
        group = parsed[1][1][3]
        alts = group[0][1][1] if (len(group) == 1 and group[0][0] is sc.BRANCH) else [group]

        def members(item):
            op, av = item
            if op is sc.LITERAL:
                return [[av]]
            if op is sc.ANY:
                return [[c for c in range(256) if c != 10 or (rx.flags & re.DOTALL)]]
            if op is sc.IN:
                out = []
                neg = av and av[0][0] is sc.NEGATE
                for o, v in (av[1:] if neg else av):
                    if o is sc.LITERAL:
                        out.append(v)
                    elif o is sc.RANGE:
                        out += list(range(v[0], v[1] + 1))
                    else:
                        raise ValueError("unsupported class item")
                if neg:
                    out = [c for c in range(256) if c not in out]
                return [out]
            if op in (sc.MAX_REPEAT, sc.MIN_REPEAT) and av[0] == av[1]:
                inner = []
                for it in av[2]:
                    inner += members(it)
                return inner * av[0]
            raise ValueError(f"unsupported regex item {op}")

        total = 0
        bad = []
        for alt in alts:
            cols = []
            for it in alt:
                cols += members(it)
            for combo in itertools.product(*cols):
                text = b"\\" + bytes(combo)
                m = rx.fullmatch(text)
                if m is None:
                    continue
                total += 1
                try:
                    out = rep(m)
                    if not (isinstance(out, bytes) and len(out) == 1):
                        bad.append((text.decode("latin-1"), repr(out)))
                except Exception as e:  # noqa: BLE001
                    bad.append((text.decode("latin-1"), type(e).__name__))
        res.append(("every-captured-escape-converts-to-one-byte", not bad and total > 256, {"evaluated": total, "failures": bad[:5]}))
        return res

    # ---- trusted library exception table entries used below --------------------------------------
    import z3
    from pyvc.values import VObj, VBuiltin, VInt, NONE
    from pyvc.ops import as_int

    from pyvc.values import VClass

    def _timedelta_ctor(it, a, k, n):
        secs = k.get("seconds", a[2] if len(a) > 2 else VInt(0))
        # datetime.timedelta raises OverflowError for |days| > 999999999 (trusted); the exact bound is not
        # needed: the constructor MAY raise OverflowError for any argument (over-approximation)
        if it.ctx.choose([z3.BoolVal(True), z3.BoolVal(True)], "timedelta-overflow") == 1:
            it.raise_("OverflowError", node=n)
        return VObj("timedelta", {"seconds_total": it.need(secs)})
    reg.overrides["std:datetime.timedelta"] = lambda interp: VClass("datetime.timedelta")
    reg.overrides["construct:datetime.timedelta"] = _timedelta_ctor

    reg.contract(
        "werkzeug/http.py:parse_age", prop="C07,C06", replay="pure", params={"value": "Optional[str]"},
        ensures=["implies(value is None or len(value) == 0, result is None)",
                 "result is None or (isinstance(result, timedelta) and result.seconds_total >= 0)"],
        raises={},   # nothing escapes: int() failures and timedelta overflow are caught
    )
    reg.contract(
        "werkzeug/http.py:dump_age", prop="C06,C16", replay="pure", cases=[{"age": "Optional[int]"}], returns="Optional[str]",
        ensures=["(result is None) == (age is None)", "implies(age is not None, result == str(age))"],
        raises={"ValueError": "age is not None and age < 0"},
    )
    reg.contract(
        "werkzeug/http.py:quote_etag", prop="C06,C16", replay="pure", params={"etag": "str", "weak": "bool"}, returns="str",
        ensures=["result == ('W/' if weak else '') + '\"' + etag + '\"'"],
        raises={"ValueError": "'\"' in etag"},
    )
    reg.spec("unq_spec(e)", "e[1:-1] if (len(e) >= 1 and e[:1] == '\"' and e[-1:] == '\"') else e")
    # round trip: unquote(quote(e, w)) == (e, w) for every e without '"' (lemma over the two contracts is the
    # composition below: quote's postcondition is fed to the real unquote_etag body)
    reg.contract(
        "werkzeug/http.py:unquote_etag#verify", prop="C06,C07,C11", params={"etag": "Optional[str]"},
        returns="Tuple[Optional[str], Optional[bool]]",
        ensures=[
            "implies(etag is None or len(etag) == 0, result[0] is None and result[1] is None)",
            # the inverse of quote_etag on its range
            "forall_s(lambda e: implies(not ('\"' in e) and etag == '\"' + e + '\"', result[0] == e and result[1] is False))",
            "forall_s(lambda e: implies(not ('\"' in e) and etag == 'W/\"' + e + '\"', result[0] == e and result[1] is True))",
        ],
        raises={},
    )

    # retagged (ghost): the value is the result of replace(tzinfo=...), i.e. its wall-clock fields were re-interpreted
    DTr = reg.model("DTraw", fields={"tzinfo": "Optional[opaque:tz]", "retagged": "bool"})
    reg.contract("model:DTraw.replace", prop=P, trusted=True, param_names=["self", "tzinfo"], returns=DTr,
                 ensures=["result.tzinfo is not None", "result.retagged"])

    def _parsedate(interp):
        def impl(it, a, k, n):
            # email.utils.parsedate_to_datetime: TypeError / ValueError for unparsable text and -- not in its
            # documentation -- OverflowError for an out-of-range zone offset (trusted exception table)
            c = it.ctx.choose([z3.BoolVal(True)] * 4, "parsedate_to_datetime")
            if c == 1:
                it.raise_("TypeError", node=n)
            if c == 2:
                it.raise_("ValueError", node=n)
            if c == 3:
                it.raise_("OverflowError", node=n)
            dt = it.fresh(("obj", DTr), "parsed_dt")
            it.ctx.assume(z3.Not(dt.fields["retagged"].z), "parsedate_to_datetime:fresh-value")
            return dt
        return VBuiltin("email.utils.parsedate_to_datetime", impl)
    reg.overrides["std:email.utils.parsedate_to_datetime"] = _parsedate
    reg.overrides["std:datetime.timezone"] = lambda interp: VObj("timezone_cls", {"utc": interp.fresh("opaque:tz", "utc")})
    reg.contract(
        "werkzeug/http.py:parse_date#verify", prop="C07,C11", params={"value": "Optional[str]"},
        ghost_after={"dt = email.utils.parsedate_to_datetime(value)": ["ghost_aware = dt.tzinfo is not None"]},
        ensures=["implies(value is None, result is None)", "result is None or result.tzinfo is not None",
                 # C11: a date that carries its own zone offset keeps it (only a naive one is read as UTC): the instant
                 # compared with Last-Modified is the instant the client sent
                 "implies(result is not None and ghost_aware, not result.retagged)"],
        raises={},   # TypeError, ValueError and OverflowError of the stdlib parser are all caught
    )

    # ---- fallback-to-default on conversion errors ---------------------------------------------------------------
    def _loader(it, fv, a, k, n):
        # a load / type callable supplied by werkzeug (int, parse_date, ...): returns some value or raises
        # ValueError / TypeError (trusted: what the accessor protocol documents)
        c = it.ctx.choose([z3.BoolVal(True)] * 3, "loader")
        if c == 1:
            it.raise_("ValueError", node=n)
        if c == 2:
            it.raise_("TypeError", node=n)
        return it.fresh("opaque:loaded", "loaded")
    reg.overrides["call:loader"] = _loader
    Stg = "Dict[str, str]"
    DAP = reg.model("DictAccessor", cls="werkzeug/_internal.py:_DictAccessorProperty",
                    fields={"name": "str", "default": "Optional[opaque:loaded]", "load_func": "Optional[opaque:loader]",
                            "storage": Stg})
    # lookup(instance) is the subclass hook (environ / headers of the instance): here it hands out the model's storage
    reg.stub_method("werkzeug/_internal.py:_DictAccessorProperty.lookup", "def lookup(self, instance):\n    return self.storage\n")
    reg.contract(
        "werkzeug/_internal.py:_DictAccessorProperty.__get__", prop="C07,C16", self_model=DAP,
        params={"instance": "opaque:request", "owner": "opaque:type"},
        inline_callees=[],
        ensures=["implies(not (self.name in self.storage), result == self.default)",
                 "implies(self.name in self.storage and self.load_func is None, result == self.storage[self.name])"],
        raises={},       # a failing load function yields the default, never an exception
    )
    TCD = reg.model("TypeConversionDict", cls="werkzeug/datastructures/structures.py:TypeConversionDict",
                    fields={"__dict__": Stg})
    reg.contract(
        "werkzeug/datastructures/structures.py:TypeConversionDict.get", prop="C07,C08", self_model=TCD,
        params={"key": "str", "default": "Optional[opaque:loaded]", "type": "Optional[opaque:loader]"},
        ensures=["implies(not (key in self.__dict__), result == default)",
                 "implies(key in self.__dict__ and type is None, result == self.__dict__[key])"],
        raises={},
    )
    _register_dict_header(reg)


def _register_dict_header(reg):
    """parse_dict_header / parse_list_header: total on every header text (C07), quotes stripped item-wise"""
    import z3
    from pyvc.values import VBuiltin, VStr
    P = "C07"

    def _unquote(it, a, k, n):
        # urllib.parse.unquote(text, encoding=<one of four known codecs>): errors='replace' -> total; result abstract
        s = it.need(a[0])
        return VStr(z3.String(it.ctx.fresh_name("unquote")), "str")
    reg.overrides["std:urllib.parse.unquote"] = lambda interp: VBuiltin("urllib.parse.unquote", _unquote)
    # urllib.request.parse_http_list: splits at top-level commas, keeps quoted strings together; total (trusted)
    reg.overrides["std:urllib.request.parse_http_list"] = lambda interp: VBuiltin(
        "urllib.request.parse_http_list", lambda it, a, k, n: it.fresh("List[str]", "http_list"))
    reg.spec("unq1(v)", "v[1:-1] if (len(v) >= 2 and v[:1] == '\"' and v[-1:] == '\"') else v")
    reg.contract(
        "werkzeug/http.py:parse_list_header", prop="C07,C06", params={"value": "str"}, returns="List[str]", modifies=[],
        ensures=["len(result) >= 0"], raises={},
        loops={0: {"inv": ["len(result) == _i"], "types": {"result": "List[str]"}}},
    )
    reg.contract(
        "werkzeug/http.py:parse_dict_header", prop="C07,C06", params={"value": "str"}, modifies=[], returns="Dict[str, Optional[str]]",
        ensures=["True"], raises={},
        # C06: what is stored for a plain key is the text after '=' with ONE pair of surrounding double quotes removed (a
        # value that itself begins or ends with a quote keeps it: dump_header(parse_dict_header(x)) stays x)
        ghost_after={"result[key] = ...": [
            "assert implies(item.partition('=')[1] == '=' and item.partition('=')[0].strip()[-1:] != '*', "
            "               result[key] == unq1(item.partition('=')[2].strip()))"]},
        replay=_replay_dict_header,
        loops={0: {"inv": ["True"], "types": {"result": "Dict[str, Optional[str]]", "value": "str"}}},
    )


def _replay_dict_header(reg, c, inputs):
    """the item list is abstract in the model (trusted splitter): replay on the model's header text and on a small
    corpus of header texts (bounded native search)"""
    from pyvc import runtime
    fn = runtime.resolve_real("werkzeug/http.py:parse_dict_header")
    nc = runtime.NativeContract(reg, c)
    corpus = [inputs.get("value", ""), " =", "=x", " ", "a", "a=b", "a*=utf-8''x", "a*=''", 'a="', "*=x", " *=x", "a= ", 'a="b"', ",", "a=b, =c,  , d",
              '" =x"', '"\xa0=\xa0"', 'a=1, " =1"', '" "', '"*=x"', '" *=x"', '"="']
    for v in corpus:
        if not isinstance(v, str):
            continue
        fails = nc.check_call(fn, [v], {}, {"value": v})
        if fails:
            return [f"(header text {v!r}) " + f for f in fails]
    return []
