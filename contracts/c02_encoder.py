"""C02 -- the sans-io multipart encoder writes exactly the framing the decoder undoes (Data / Epilogue / Preamble events)."""


def register(reg):
    P = "C02"
    Enc = reg.model("MultipartEncoder", cls="werkzeug/sansio/multipart.py:MultipartEncoder",
                    fields={"boundary": "bytes", "state": "str"})
    DataEv = reg.model("DataEv", cls="werkzeug/sansio/multipart.py:Data", fields={"data": "bytes", "more_data": "bool"})
    EpiEv = reg.model("EpilogueEv", cls="werkzeug/sansio/multipart.py:Epilogue", fields={"data": "bytes"})
    PreEv = reg.model("PreambleEv", cls="werkzeug/sansio/multipart.py:Preamble", fields={"data": "bytes"})
    reg.contract(
        "werkzeug/sansio/multipart.py:MultipartEncoder.send_event#data", prop=P, self_model=Enc,
        params={"event": DataEv}, returns="bytes",
        ensures=[
            # the first Data event of a part opens the body with CRLF -- unless it is empty (a body-less part)
            "implies(old(self.state) == 'State.DATA_START', self.state == 'State.DATA' and "
            "        result == ((b'\\r\\n' + event.data) if len(event.data) > 0 else event.data))",
            "implies(old(self.state) == 'State.DATA', self.state == 'State.DATA' and result == event.data)",
        ],
        raises={"ValueError": "old(self.state) != 'State.DATA_START' and old(self.state) != 'State.DATA'"},
        raises_ensures={"ValueError": ["self.state == old(self.state)"]},
    )
    reg.contract(
        "werkzeug/sansio/multipart.py:MultipartEncoder.send_event#epilogue", prop=P, self_model=Enc,
        params={"event": EpiEv}, returns="bytes",
        ensures=["self.state == 'State.COMPLETE'",
                 "result == b'\\r\\n--' + self.boundary + b'--\\r\\n' + event.data"],
        raises={},
    )
    reg.contract(
        "werkzeug/sansio/multipart.py:MultipartEncoder.send_event#preamble", prop=P, self_model=Enc,
        params={"event": PreEv}, returns="bytes",
        ensures=["old(self.state) == 'State.PREAMBLE' and self.state == 'State.PART' and result == event.data"],
        raises={"ValueError": "old(self.state) != 'State.PREAMBLE'"},
    )

    # ---- Field / File events: the part header block
    H = reg.models.get("Headers") or reg.model("Headers", cls="werkzeug/datastructures/headers.py:Headers", fields={"_list": "List[Tuple[str, str]]"})
    FieldEv = reg.model("FieldEv", cls="werkzeug/sansio/multipart.py:Field", fields={"name": "str", "headers": H})
    FileEv = reg.model("FileEv", cls="werkzeug/sansio/multipart.py:File", fields={"name": "str", "filename": "str", "headers": H})
    reg.spec("disp_field(b, name)", "b'\\r\\n--' + b + b'\\r\\nContent-Disposition: form-data; name=\"' + name.encode() + b'\"'")
    for tag, Ev, extra in (("field", FieldEv, ""), ("file", FileEv, " + b'; filename=\"' + event.filename.encode() + b'\"'")):
        head = f"(disp_field(self.boundary, event.name){extra} + b'\\r\\n')"
        reg.contract(
            f"werkzeug/sansio/multipart.py:MultipartEncoder.send_event#{tag}", prop=P, self_model=Enc,
            params={"event": Ev}, returns="bytes", modifies=["self.state"], raise_modifies=[],
            ensures=[
                # delimiter line, Content-Disposition with the quoted name (and file name), then one CRLF-terminated line
                # per further header; the encoder expects the part's data next
                f"result.startswith({head})",
                "result.endswith(b'\\r\\n')",
                f"implies(len(event.headers._list) == 0, result == {head})",
                "self.state == 'State.DATA_START'",
            ],
            # (UnicodeEncodeError -- a name or header that is not encodable text, e.g. a lone surrogate -- is a ValueError too)
            raises={"ValueError": "True"},
            raises_ensures={"ValueError": ["self.state == old(self.state)"]},
            loops={0: {"inv": [f"data.startswith({head})", "data.endswith(b'\\r\\n')",
                               f"implies(_i == 0, data == {head})", f"len(data) >= len({head})"],
                       "modifies": ["data"]}},
        )
