"""C02 -- the sans-io multipart encoder writes exactly the framing the decoder undoes (Data / Epilogue / Preamble events)."""


def register(reg):
    P = "C02"
    Enc = reg.model("MultipartEncoder", cls="werkzeug/sansio/multipart.py:MultipartEncoder",
                    fields={"boundary": "bytes", "state": "str"})
    DataEv = reg.model("DataEv", cls="werkzeug/sansio/multipart.py:Data", fields={"data": "bytes", "more_data": "bool"})
    EpiEv = reg.model("EpilogueEv", cls="werkzeug/sansio/multipart.py:Epilogue", fields={"data": "bytes"})
    PreEv = reg.model("PreambleEv", cls="werkzeug/sansio/multipart.py:Preamble", fields={"data": "bytes"})
    reg.contract(
        "werkzeug/sansio/multipart.py:MultipartEncoder.send_event#data", prop=P, self_model=Enc,
        params={"event": DataEv}, returns="bytes",
        ensures=[
            # the first Data event of a part opens the body with CRLF -- unless it is empty (a body-less part)
            "implies(old(self.state) == 'State.DATA_START', self.state == 'State.DATA' and "
            "        result == ((b'\\r\\n' + event.data) if len(event.data) > 0 else event.data))",
            "implies(old(self.state) == 'State.DATA', self.state == 'State.DATA' and result == event.data)",
        ],
        raises={"ValueError": "old(self.state) != 'State.DATA_START' and old(self.state) != 'State.DATA'"},
        raises_ensures={"ValueError": ["self.state == old(self.state)"]},
    )
    reg.contract(
        "werkzeug/sansio/multipart.py:MultipartEncoder.send_event#epilogue", prop=P, self_model=Enc,
        params={"event": EpiEv}, returns="bytes",
        ensures=["self.state == 'State.COMPLETE'",
                 "result == b'\\r\\n--' + self.boundary + b'--\\r\\n' + event.data"],
        raises={},
    )
    reg.contract(
        "werkzeug/sansio/multipart.py:MultipartEncoder.send_event#preamble", prop=P, self_model=Enc,
        params={"event": PreEv}, returns="bytes",
        ensures=["old(self.state) == 'State.PREAMBLE' and self.state == 'State.PART' and result == event.data"],
        raises={"ValueError": "old(self.state) != 'State.PREAMBLE'"},
    )
