"""C13 -- cookie escape tables (exhaustive over all 256 byte values, constants read from the module source)."""
import ast
import re


def _module_consts(relpath, names, extra_stmts=()):
    """evaluate the module-level statements that define `names` (and statements that mention them, e.g.
    `_cookie_slash_map.update(...)`) from the real source; nothing is copied into /verif"""
    from pyvc.extract import ModuleInfo
    mod = ModuleInfo.get(relpath)
    ns = {"re": re, "t": __import__("typing")}
    for st in mod.tree.body:
        src = ast.unparse(st)
        take = False
        if isinstance(st, (ast.Assign, ast.AnnAssign)):
            tg = st.targets[0] if isinstance(st, ast.Assign) else st.target
            take = isinstance(tg, ast.Name) and tg.id in names
        elif isinstance(st, ast.Expr) and any(isinstance(n, ast.Name) and n.id in names for n in ast.walk(st)):
            take = True
        elif isinstance(st, ast.FunctionDef) and st.name in names:
            take = True
        if take:
            exec(compile(ast.Module(body=[st], type_ignores=[]), relpath, "exec"), ns)  # noqa: S102 - the repo's own constants
    return ns, mod


COOKIE_OCTET = {0x21} | set(range(0x23, 0x2C)) | set(range(0x2D, 0x3B)) | set(range(0x3C, 0x5C)) | set(range(0x5D, 0x7F))


def register(reg):
    P = "C13"

    @reg.table(P, "cookie-escape-classes")
    def _tables():
        ns, _ = _module_consts("werkzeug/http.py", {"_cookie_slash_re", "_cookie_slash_map", "_cookie_no_quote_re"})
        ns2, _ = _module_consts("werkzeug/sansio/http.py", {"_cookie_unslash_re", "_cookie_unslash_replace"})
        slash_re, slash_map, noq = ns["_cookie_slash_re"], ns["_cookie_slash_map"], ns["_cookie_no_quote_re"]
        unre, unrep = ns2["_cookie_unslash_re"], ns2["_cookie_unslash_replace"]
        res = []
        bad_map, bad_raw, bad_inv = [], [], []
        for b in range(256):
            by = bytes([b])
            if slash_re.fullmatch(by):
                esc = slash_map.get(by)
                ok = esc in (b'\\"', b"\\\\") and esc[1:] == by or esc == b"\\%03o" % b
                if not ok:
                    bad_map.append(b)
                elif unre.sub(unrep, esc) != by:
                    bad_inv.append(b)
            elif b not in COOKIE_OCTET and b != 0x20:
                bad_raw.append(b)
        res.append(("escaped-bytes-have-a-correct-escape", not bad_map, {"bytes": bad_map}))
        res.append(("unescaped-bytes-are-cookie-octets-or-SP", not bad_raw, {"bytes": bad_raw}))
        res.append(("unslash-inverts-every-escape", not bad_inv, {"bytes": bad_inv}))
        # the quote-free fast path: its language is (a class of cookie-octets)* and nothing else
        import re._parser as sp
        import re._constants as sc
        parsed = list(sp.parse(noq.pattern, noq.flags))
        shape = len(parsed) == 1 and parsed[0][0] in (sc.MAX_REPEAT, sc.MIN_REPEAT) and parsed[0][1][0] == 0 \
            and parsed[0][1][1] == sc.MAXREPEAT and len(parsed[0][1][2]) == 1 and parsed[0][1][2][0][0] is sc.IN
        res.append(("no-quote-pattern-is-a-starred-class", bool(shape), f"pattern {noq.pattern!r}"))
        bad_fast = [c for c in range(0x110000 if False else 0x3000) if noq.fullmatch(chr(c)) and c not in COOKIE_OCTET]
        res.append(("fast-path-class-within-cookie-octets", not bad_fast, {"code points": bad_fast[:10]}))
        return res

    @reg.static(P, "dump_cookie-value-branch")
    def _branch():
        from pyvc.extract import ModuleInfo
        mod = ModuleInfo.get("werkzeug/http.py")
        fn = mod.functions["dump_cookie"]
        res = []
        tests = [n for n in ast.walk(fn) if isinstance(n, ast.If) and "_cookie_no_quote_re" in ast.unparse(n.test)]
        ok = len(tests) == 1 and ast.unparse(tests[0].test) == "not _cookie_no_quote_re.fullmatch(value)"
        res.append(("quote-unless-FULL-match-of-the-fast-path-class", ok,
                    f"test: {ast.unparse(tests[0].test) if tests else None}"))
        if tests:
            body = ast.unparse(tests[0].body[-1]) if tests[0].body else ""
            uses_map = "_cookie_slash_re.sub" in ast.unparse(tests[0]) and "_cookie_slash_map[m.group()]" in ast.unparse(tests[0])
            quoted = 'value = f\'"{value}"\'' in ast.unparse(tests[0]) or "f'\"{value}\"'" in ast.unparse(tests[0])
            res.append(("escaped-character-wise-through-the-map-and-wrapped-in-quotes", uses_map and quoted, body[:120]))
        # attribute order and spelling
        order = ["Domain", "Expires", "Max-Age", "Secure", "HttpOnly", "Path", "SameSite", "Partitioned"]
        found = None
        for n in ast.walk(fn):
            if isinstance(n, ast.For) and isinstance(n.iter, ast.Tuple) and n.iter.elts and \
                    all(isinstance(e, ast.Tuple) and len(e.elts) == 2 and isinstance(e.elts[0], ast.Constant) for e in n.iter.elts):
                found = [e.elts[0].value for e in n.iter.elts]
        res.append(("attributes-in-fixed-order-canonically-spelled", found == order, f"attribute table in the source: {found}"))
        # the Path attribute: whenever a path is given it goes through quote() with a safe set that contains neither ';'
        # nor white space / control / '"' / backslash -- unconditionally (a path cannot end the attribute or add another one)
        assigns = [n for n in ast.walk(fn) if isinstance(n, ast.Assign) and any(isinstance(t_, ast.Name) and t_.id == "path" for t_ in n.targets)]
        ok_path = False
        detail = "no assignment to path found"
        if len(assigns) == 1:
            a = assigns[0]
            call = a.value
            safe = None
            if isinstance(call, ast.Call) and ast.unparse(call.func) == "quote" and call.args and ast.unparse(call.args[0]) == "path":
                for kw in call.keywords:
                    if kw.arg == "safe" and isinstance(kw.value, ast.Constant) and isinstance(kw.value.value, str):
                        safe = kw.value.value
            guards = [n for n in ast.walk(fn) if isinstance(n, ast.If) and a in n.body]
            guard_ok = len(guards) == 1 and ast.unparse(guards[0].test) == "path is not None" and not guards[0].orelse
            top_level = guards and guards[0] in fn.body
            bad = set(safe or ";") & set('; \t\r\n"\\\x00')
            ok_path = safe is not None and not bad and guard_ok and bool(top_level)
            detail = f"path = {ast.unparse(call)[:60]} under `{ast.unparse(guards[0].test) if guards else None}`; unsafe characters in the safe set: {sorted(bad)}"
        else:
            detail = f"{len(assigns)} assignments to path"
        res.append(("path-attribute-always-quoted-with-a-delimiter-free-safe-set", ok_path, detail))
        return res
