"""C20 -- host trust and the debugger's gates."""


def register(reg):
    P = "C20"
    # "port aside": the host part of a Host value; a bracketed IPv6 literal is one unit
    reg.spec("hp(s)", "s[:s.find(']') + 1] if (s.startswith('[') and s.find(']') >= 0) else s.partition(':')[0]")
    reg.spec("strip_dot(r)", "r[1:] if r.startswith('.') else r")
    reg.spec("host_matches(h, ref)",
             "idna_ok(hp(h)) and idna_ok(hp(strip_dot(ref))) and "
             "(idna(hp(h)) == idna(hp(strip_dot(ref))) or "
             " (ref.startswith('.') and idna(hp(h)).endswith('.' + idna(hp(strip_dot(ref))))))")
    # per-entry facts as ghost functions of the index (definitions instantiated at ground indices)
    reg.defn("M(h, tl, j)", "host_matches(h, tl[j])", {"h": "str", "tl": "List[str]", "j": "int"})
    reg.defn("OK(tl, j)", "idna_ok(hp(strip_dot(tl[j])))", {"tl": "List[str]", "j": "int"})
    reg.contract("werkzeug/sansio/utils.py:_strip_port", modifies=[], prop="C20,C07", params={"host": "str"}, returns="str",
                 ensures=["result == hp(host)"], replay="pure")
    reg.contract(
        "werkzeug/sansio/utils.py:host_is_trusted", modifies=[], prop="C20,C07",
        params={"hostname": "Optional[str]", "trusted_list": "List[str]"}, returns="bool",
        ensures=[
            # accepted only if it equals a listed name or is a true subdomain of a dot-prefixed entry
            "implies(result, hostname is not None and len(hostname) > 0 and "
            "        exists(0, len(trusted_list), lambda j: M(hostname, trusted_list, j)))",
            # and a listed host is accepted (as long as no malformed entry precedes it)
            "implies(not result and hostname is not None and len(hostname) > 0 and idna_ok(hp(hostname)) and "
            "        forall(0, len(trusted_list), lambda j: OK(trusted_list, j)), "
            "        forall(0, len(trusted_list), lambda j: not M(hostname, trusted_list, j)))",
        ],
        raises={},  # malformed hosts are refused (False), nothing escapes
        loops={0: {"inv": ["forall(0, _i, lambda j: OK(trusted_list, j) and not M(old(hostname), trusted_list, j))",
                           "idna_ok(hp(old(hostname))) and hostname == idna(hp(old(hostname)))"],
                   "hints": ["M(old(hostname), trusted_list, _i)", "OK(trusted_list, _i)"]}},
    )
    reg.spec("std_host(scheme, host)",
             "host[:-3] if ((scheme == 'http' or scheme == 'ws') and host.endswith(':80')) else "
             "(host[:-4] if ((scheme == 'https' or scheme == 'wss') and host.endswith(':443')) else host)")
    reg.contract(
        "werkzeug/sansio/utils.py:get_host", prop="C20,C15,C07",
        params={"scheme": "str", "host_header": "Optional[str]", "server": "Optional[Tuple[str, Optional[int]]]",
                "trusted_hosts": "Optional[List[str]]"},
        returns="str",
        ensures=[
            "implies(host_header is not None, result == std_host(scheme, host_header))",
            "implies(host_header is None and server is None, result == '')",
            "implies(trusted_hosts is not None, len(result) > 0 and "
            "        exists(0, len(trusted_hosts), lambda j: M(result, trusted_hosts, j)))",
        ],
        raises={"SecurityError": "trusted_hosts is not None"},
    )

    # ---------------------------------------------------------------- debugger gates
    import z3
    from pyvc.values import VInt, VObj, VStr, VOpt, VBool, NONE
    from pyvc.ops import as_int

    # multiprocessing.Value("B"): an unsigned byte -- machine arithmetic is NOT treated as mathematical
    def _store_ubyte(interp, obj, v):
        return VInt(as_int(interp.need(v)) % 256)

    Counter = reg.model("UByteValue", fields={"value": "int"}, setters={"value": _store_ubyte})
    reg.contract("model:UByteValue.get_lock", prop=P, trusted=True, param_names=["self"], returns="opaque:lock")
    Req = reg.model("DbgRequest", fields={"environ": "opaque:environ", "args": "Dict[str, str]", "is_secure": "bool",
                                          "path": "str"})
    App = reg.model("DebuggedApplication", cls="werkzeug/debug/__init__.py:DebuggedApplication",
                    fields={"pin": "Optional[str]", "pin_cookie_name": "str", "trusted_hosts": "List[str]",
                            "_failed_pin_auth": Counter, "secret": "str", "evalex": "bool",
                            "console_path": "Optional[str]", "frames": "Dict[int, opaque:frame]",
                            "debug_application": "opaque:wsgiapp", "pin_logging": "bool"})
    reg.ufunc("uf_trust", ["opaque:environ"], "Optional[bool]")
    reg.ufunc("uf_host_ok", ["opaque:environ"], "bool")
    reg.ufunc("uf_hash_pin", ["str"], "str")
    reg.contract("werkzeug/debug/__init__.py:DebuggedApplication.check_pin_trust", prop=P, trusted=True,
                 params={"environ": "opaque:environ"}, returns="Optional[bool]",
                 ensures=["result == uf_trust(environ)", "implies(self.pin is None, result is True)"],
                 note="abstracted here; its own contract is below (check_pin_trust#body)")
    reg.contract("werkzeug/debug/__init__.py:DebuggedApplication.check_host_trust", prop=P, trusted=True,
                 params={"environ": "opaque:environ"}, returns="bool", ensures=["result == uf_host_ok(environ)"],
                 note="environ.get('HTTP_HOST') through host_is_trusted (contract above)")
    reg.contract("werkzeug/debug/__init__.py:hash_pin", prop=P, trusted=True, params={"pin": "str"}, returns="str",
                 ensures=["result == uf_hash_pin(pin)"])
    # the JSON body and the Response are recorded structurally (trusted constructors)
    Resp = reg.model("RespRec", fields={"body_auth": "Optional[bool]", "body_exhausted": "Optional[bool]",
                                        "n_set_cookie": "int", "n_delete_cookie": "int"})

    def _json_dumps(interp):
        from pyvc.values import VBuiltin
        def impl(it, a, k, n):
            return VObj("JsonText", {"value": a[0]})
        return VBuiltin("json.dumps", impl)
    reg.overrides["std:json.dumps"] = _json_dumps

    def _mk_response(interp, cv, args, kwargs, node):
        r = interp.fresh(("obj", Resp), "resp")
        body = args[0] if args else NONE
        auth = exhausted = NONE
        if isinstance(body, VObj) and body.cls == "JsonText":
            d = body.fields["value"]
            auth = d.items.get(("str", "auth"), NONE)
            exhausted = d.items.get(("str", "exhausted"), NONE)
        r.fields["body_auth"] = auth
        r.fields["body_exhausted"] = exhausted
        r.fields["n_set_cookie"] = VInt(0)
        r.fields["n_delete_cookie"] = VInt(0)
        return r
    reg.constructors["werkzeug/wrappers/response.py:Response"] = _mk_response
    reg.contract("model:RespRec.set_cookie", prop=P, trusted=True, param_names=["self", "key", "value"],
                 modifies=["self.n_set_cookie"], ensures=["self.n_set_cookie == old(self.n_set_cookie) + 1"])
    reg.contract("model:RespRec.__call__", prop=P, trusted=True, param_names=["self", "environ", "start_response"],
                 returns="opaque:body")
    reg.contract("model:RespRec.delete_cookie", prop=P, trusted=True, param_names=["self", "key"],
                 modifies=["self.n_delete_cookie"], ensures=["self.n_delete_cookie == old(self.n_delete_cookie) + 1"])

    reg.contract(
        "werkzeug/debug/__init__.py:DebuggedApplication._fail_pin_auth", modifies=["self._failed_pin_auth.value"], prop=P, self_model=App,
        ensures=["self._failed_pin_auth.value == (old(self._failed_pin_auth.value) + 1 if old(self._failed_pin_auth.value) < 255 else 255)"],
        assumes=["0 <= self._failed_pin_auth.value and self._failed_pin_auth.value <= 255"],
    )
    reg.spec("pin_ok(entered, pin)", "entered.strip().replace('-', '') == pin.replace('-', '')")
    reg.spec("F(self)", "self._failed_pin_auth.value")
    reg.contract(
        "werkzeug/debug/__init__.py:DebuggedApplication.pin_auth", prop=P, self_model=App, params={"request": Req},
        returns=Resp, modifies=["self._failed_pin_auth.value"],
        assumes=["0 <= F(self) and F(self) <= 255", "'pin' in request.args", "self.pin is not None"],
        # gate demanded of every caller: the per-process secret
        requires=["'s' in request.args and request.args['s'] == self.secret"],
        ensures=[
            # the PIN endpoint answers only trusted Hosts
            "implies(not uf_host_ok(request.environ), isinstance(result, SecurityError))",
            "implies(uf_host_ok(request.environ), not isinstance(result, SecurityError))",
            # authenticated exactly when already trusted, or not locked out and the PIN is right
            "isinstance(result, SecurityError) or result.body_auth == "
            "  (uf_trust(request.environ) is True or (uf_trust(request.environ) is False and old(F(self)) <= 10 "
            "   and pin_ok(request.args['pin'], self.pin)))",
            # more than ten failures: refused even with the right PIN
            "isinstance(result, SecurityError) or implies(uf_trust(request.environ) is False and old(F(self)) > 10, "
            "  result.body_exhausted is True and result.body_auth is False)",
            # ... until the process restarts: the lock-out is never left
            "implies(old(F(self)) > 10, F(self) > 10)",
            # a wrong PIN or a stale (bad hash) cookie counts one failure
            "implies(uf_host_ok(request.environ) and (uf_trust(request.environ) is None or "
            "  (uf_trust(request.environ) is False and old(F(self)) <= 10 and not pin_ok(request.args['pin'], self.pin))), "
            "  F(self) == (old(F(self)) + 1 if old(F(self)) < 255 else 255))",
            # the trust cookie is set only when authenticated
            "isinstance(result, SecurityError) or (result.n_set_cookie > 0) == (result.body_auth is True)",
        ],
    )

    # ---- dispatch: which command is reachable under which conjunction (call-pre obligations)
    def _mk_request(interp, cv, args, kwargs, node):
        r = interp.fresh(("obj", Req), "request")
        r.fields["environ"] = args[0]
        return r
    reg.constructors["werkzeug/wrappers/request.py:Request"] = _mk_request
    secret_ok = "'s' in request.args and request.args['s'] == self.secret"
    reg.contract("werkzeug/debug/__init__.py:DebuggedApplication.log_pin_request", prop=P, trusted=True,
                 params={"request": Req}, returns="opaque:wsgiapp", requires=[secret_ok],
                 note="gate only; body: host gate checked by the static obligation")
    reg.contract("werkzeug/debug/__init__.py:DebuggedApplication.execute_command", prop=P, trusted=True,
                 params={"request": Req, "command": "str", "frame": "opaque:frame"}, returns="opaque:wsgiapp",
                 requires=["self.evalex", secret_ok, "uf_trust(request.environ) is True"],
                 note="the only function that evaluates code (frame.eval): reachable only with evaluation enabled, "
                      "the secret and a valid PIN cookie (or PIN off); host gate: static obligation")
    reg.contract("werkzeug/debug/__init__.py:DebuggedApplication.display_console", prop=P, trusted=True,
                 params={"request": Req}, returns="opaque:wsgiapp",
                 requires=["self.evalex", "self.console_path is not None and request.path == self.console_path"])
    reg.contract("werkzeug/debug/__init__.py:DebuggedApplication.get_resource", prop=P, trusted=True,
                 params={"request": Req, "filename": "str"}, returns="opaque:wsgiapp")
    reg.contract(
        "werkzeug/debug/__init__.py:DebuggedApplication.__call__", prop=P, self_model=App,
        params={"environ": "opaque:environ", "start_response": "opaque:start_response"},
        ensures=["True"],
    )

    # ---- static (AST) obligations: host gate first, code evaluation in one place only
    import ast as _ast
    from pyvc.extract import ModuleInfo

    @reg.static(P, "debugger-host-gates")
    def _gates():
        mod = ModuleInfo.get("werkzeug/debug/__init__.py")
        cls = mod.classes["DebuggedApplication"]
        out = []
        want = "if not self.check_host_trust(request.environ):\n    return SecurityError()"
        for name in ("execute_command", "display_console", "pin_auth", "log_pin_request"):
            fn = cls.methods[name][-1]
            body = [s for s in fn.body if not (isinstance(s, _ast.Expr) and isinstance(s.value, _ast.Constant))]
            first = _ast.unparse(body[0]) if body else ""
            out.append((f"{name}/first-statement-is-host-gate", first == want, f"first statement: {first!r}"))
        # frame.eval / .eval( only inside execute_command
        sites = []
        for fname, fns in cls.methods.items():
            for n in _ast.walk(fns[-1]):
                if isinstance(n, _ast.Call) and isinstance(n.func, _ast.Attribute) and n.func.attr in ("eval", "runsource", "exec"):
                    sites.append(fname)
        out.append(("code-evaluation-only-in-execute_command", sites == ["execute_command"], f"eval call sites: {sites}"))
        # (what check_host_trust consults is no longer compared as text: its body is under contract,
        #  check_host_trust#verify -- a harmless rewrite of the one-liner would have been flagged by the textual comparison)
        return out

    # ---- check_host_trust: the body (second contract on the same function): the verdict is host_is_trusted's verdict on
    # the Host header and the configured list -- stated with host_is_trusted's own postconditions, so that a body that
    # consults anything else (SERVER_NAME, X-Forwarded-Host, another list) does not verify
    AppH = reg.model("DebuggedApplicationHost", cls="werkzeug/debug/__init__.py:DebuggedApplication",
                     fields={"trusted_hosts": "List[str]"})
    reg.contract(
        "werkzeug/debug/__init__.py:DebuggedApplication.check_host_trust#verify", prop=P, self_model=AppH,
        # the environ is an arbitrary str -> str map: every other key (SERVER_NAME, HTTP_X_FORWARDED_HOST, ...) is there to be misused
        params={"environ": "Dict[str, str]"}, returns="bool", modifies=[],
        ensures=[
            "implies(result, environ.get('HTTP_HOST') is not None and len(environ.get('HTTP_HOST')) > 0 and "
            "        exists(0, len(self.trusted_hosts), lambda j: M(environ.get('HTTP_HOST'), self.trusted_hosts, j)))",
            "implies(not result and environ.get('HTTP_HOST') is not None and len(environ.get('HTTP_HOST')) > 0 and "
            "        idna_ok(hp(environ.get('HTTP_HOST'))) and forall(0, len(self.trusted_hosts), lambda j: OK(self.trusted_hosts, j)), "
            "        forall(0, len(self.trusted_hosts), lambda j: not M(environ.get('HTTP_HOST'), self.trusted_hosts, j)))",
        ],
        raises={},
    )

    # ---- log_pin_request: the body (call sites use the gate-only summary above): the PIN reaches the log only for a request
    # with a trusted Host, and only when PIN logging is on; an untrusted Host gets the 400 and nothing else happens
    reg.overrides["werkzeug/debug/__init__.py:_log"] = lambda interp: interp.fresh("opaque:callback", "_log")
    AppL = reg.model("DebuggedApplicationLog", cls="werkzeug/debug/__init__.py:DebuggedApplication",
                     fields={"pin": "Optional[str]", "pin_logging": "bool"})
    reg.contract(
        "werkzeug/debug/__init__.py:DebuggedApplication.log_pin_request#verify", prop=P, self_model=AppL,
        params={"request": Req}, modifies=[],
        ensures=["implies(not uf_host_ok(request.environ), isinstance(result, SecurityError) and ncalls() == 0)",
                 "implies(uf_host_ok(request.environ), not isinstance(result, SecurityError))",
                 "implies(ncalls() > 0, self.pin_logging and self.pin is not None)"],
        raises={},
    )

    # ---- check_pin_trust: the cookie verification itself (second contract on the same function) -----------
    from pyvc.values import VBuiltin as _VB2, VDict as _VD2

    def _parse_cookie_stub(interp, a, k, n):
        # parse_cookie(environ): a MultiDict of the request's cookies -- modelled as an arbitrary str -> str map
        return interp.fresh("Dict[str, str]", "cookies")
    reg.overrides["werkzeug/debug/__init__.py:parse_cookie"] = lambda interp: _VB2("parse_cookie", _parse_cookie_stub)
    reg.overrides["werkzeug/debug/__init__.py:PIN_TIME"] = lambda interp: interp.const(60 * 60 * 24 * 7)
    AppP = reg.model("DebuggedApplicationPin", cls="werkzeug/debug/__init__.py:DebuggedApplication",
                     fields={"pin": "Optional[str]", "pin_cookie_name": "str",
                             "g_val": "Optional[str]", "g_hash": "str", "g_split": "bool", "g_ts_ok": "bool"})
    reg.contract(
        "werkzeug/debug/__init__.py:DebuggedApplication.check_pin_trust#verify", prop=P, self_model=AppP,
        params={"environ": "opaque:environ"},
        assumes=["not self.g_split and not self.g_ts_ok"],
        ghost_after={
            "val = parse_cookie(environ).get(self.pin_cookie_name)": ["self.g_val = val"],
            "ts_str, pin_hash = val.split('|', 1)": ["self.g_hash = pin_hash", "self.g_split = True"],
            "ts = int(ts_str)": ["self.g_ts_ok = True"],
        },
        ensures=[
            "implies(self.pin is None, result is True)",
            # PIN set: trusted only with a cookie  <integer timestamp>|<hash of the CURRENT pin>
            "implies(self.pin is not None and result is True, self.g_val is not None and '|' in self.g_val and "
            "        self.g_split and self.g_ts_ok and self.g_hash == uf_hash_pin(self.pin))",
            # a well-formed cookie carrying another hash (the PIN changed) is reported as None, so that it is counted
            "implies(self.pin is not None, (result is None) == (self.g_split and self.g_ts_ok and self.g_hash != uf_hash_pin(self.pin)))",
            # missing or malformed cookie: plain False
            "implies(self.pin is not None and (self.g_val is None or not ('|' in self.g_val) or not self.g_ts_ok), result is False)",
        ],
        raises={},
    )
