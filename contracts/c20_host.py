"""C20 -- host trust and the debugger's gates."""


def register(reg):
    P = "C20"
    # "port aside": the host part of a Host value; a bracketed IPv6 literal is one unit
    reg.spec("hp(s)", "s[:s.find(']') + 1] if (s.startswith('[') and s.find(']') >= 0) else s.partition(':')[0]")
    reg.spec("strip_dot(r)", "r[1:] if r.startswith('.') else r")
    reg.spec("host_matches(h, ref)",
             "idna_ok(hp(h)) and idna_ok(hp(strip_dot(ref))) and "
             "(idna(hp(h)) == idna(hp(strip_dot(ref))) or "
             " (ref.startswith('.') and idna(hp(h)).endswith('.' + idna(hp(strip_dot(ref))))))")
    # per-entry facts as ghost functions of the index (definitions instantiated at ground indices)
    reg.defn("M(h, tl, j)", "host_matches(h, tl[j])", {"h": "str", "tl": "List[str]", "j": "int"})
    reg.defn("OK(tl, j)", "idna_ok(hp(strip_dot(tl[j])))", {"tl": "List[str]", "j": "int"})
    reg.contract("werkzeug/sansio/utils.py:_strip_port", prop="C20,C07", params={"host": "str"}, returns="str",
                 ensures=["result == hp(host)"], replay="pure")
    reg.contract(
        "werkzeug/sansio/utils.py:host_is_trusted", prop="C20,C07",
        params={"hostname": "Optional[str]", "trusted_list": "List[str]"}, returns="bool",
        ensures=[
            # accepted only if it equals a listed name or is a true subdomain of a dot-prefixed entry
            "implies(result, hostname is not None and len(hostname) > 0 and "
            "        exists(0, len(trusted_list), lambda j: M(hostname, trusted_list, j)))",
            # and a listed host is accepted (as long as no malformed entry precedes it)
            "implies(not result and hostname is not None and len(hostname) > 0 and idna_ok(hp(hostname)) and "
            "        forall(0, len(trusted_list), lambda j: OK(trusted_list, j)), "
            "        forall(0, len(trusted_list), lambda j: not M(hostname, trusted_list, j)))",
        ],
        raises={},  # malformed hosts are refused (False), nothing escapes
        loops={0: {"inv": ["forall(0, _i, lambda j: OK(trusted_list, j) and not M(old(hostname), trusted_list, j))",
                           "idna_ok(hp(old(hostname))) and hostname == idna(hp(old(hostname)))"],
                   "hints": ["M(old(hostname), trusted_list, _i)", "OK(trusted_list, _i)"]}},
    )
    reg.spec("std_host(scheme, host)",
             "host[:-3] if ((scheme == 'http' or scheme == 'ws') and host.endswith(':80')) else "
             "(host[:-4] if ((scheme == 'https' or scheme == 'wss') and host.endswith(':443')) else host)")
    reg.contract(
        "werkzeug/sansio/utils.py:get_host", prop="C20,C15,C07",
        params={"scheme": "str", "host_header": "Optional[str]", "server": "Optional[Tuple[str, Optional[int]]]",
                "trusted_hosts": "Optional[List[str]]"},
        returns="str",
        ensures=[
            "implies(host_header is not None, result == std_host(scheme, host_header))",
            "implies(host_header is None and server is None, result == '')",
            "implies(trusted_hosts is not None, len(result) > 0 and "
            "        exists(0, len(trusted_hosts), lambda j: M(result, trusted_hosts, j)))",
        ],
        raises={"SecurityError": "trusted_hosts is not None"},
    )
