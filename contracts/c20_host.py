"""C20 -- host trust and the debugger's gates."""


def register(reg):
    P = "C20"
    # "port aside": the host part of a Host value; a bracketed IPv6 literal is one unit
    reg.spec("hp(s)", "s[:s.find(']') + 1] if (s.startswith('[') and s.find(']') >= 0) else s.partition(':')[0]")
    reg.spec("strip_dot(r)", "r[1:] if r.startswith('.') else r")
    reg.spec("host_matches(h, ref)",
             "idna_ok(hp(h)) and idna_ok(hp(strip_dot(ref))) and "
             "(idna(hp(h)) == idna(hp(strip_dot(ref))) or "
             " (ref.startswith('.') and idna(hp(h)).endswith('.' + idna(hp(strip_dot(ref))))))")
    reg.contract(
        "werkzeug/sansio/utils.py:host_is_trusted", prop="C20,C07",
        params={"hostname": "Optional[str]", "trusted_list": "List[str]"}, returns="bool", replay="pure",
        ensures=[
            # accepted only if it equals a listed name or is a true subdomain of a dot-prefixed entry
            "implies(result, hostname is not None and len(hostname) > 0 and "
            "        exists(0, len(trusted_list), lambda j: host_matches(hostname, trusted_list[j])))",
            # and a listed host is accepted (as long as no malformed entry precedes it)
            "implies(not result and hostname is not None and len(hostname) > 0 and idna_ok(hp(hostname)) and "
            "        forall(0, len(trusted_list), lambda j: idna_ok(hp(strip_dot(trusted_list[j])))), "
            "        forall(0, len(trusted_list), lambda j: not host_matches(hostname, trusted_list[j])))",
        ],
        raises={},  # malformed hosts are refused (False), nothing escapes
        loops={0: {"inv": ["forall(0, _i, lambda j: idna_ok(hp(strip_dot(trusted_list[j]))) and "
                           "not host_matches(hostname, trusted_list[j]))",
                           "idna_ok(hp(old(hostname))) and hostname == idna(hp(old(hostname)))"]}},
    )
    reg.spec("std_host(scheme, host)",
             "host[:-3] if ((scheme == 'http' or scheme == 'ws') and host.endswith(':80')) else "
             "(host[:-4] if ((scheme == 'https' or scheme == 'wss') and host.endswith(':443')) else host)")
    reg.contract(
        "werkzeug/sansio/utils.py:get_host", prop="C20,C15,C07",
        params={"scheme": "str", "host_header": "Optional[str]", "server": "Optional[Tuple[str, Optional[int]]]",
                "trusted_hosts": "Optional[List[str]]"},
        returns="str",
        ensures=[
            "implies(host_header is not None, result == std_host(scheme, host_header))",
            "implies(host_header is None and server is None, result == '')",
            "implies(trusted_hosts is not None, len(result) > 0 and "
            "        exists(0, len(trusted_hosts), lambda j: host_matches(result, trusted_hosts[j])))",
        ],
        raises={"SecurityError": "trusted_hosts is not None"},
    )
