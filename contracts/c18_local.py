"""C18 -- context-local data never leaks between contexts.

Deductive handle on 'every interleaving': OWNERSHIP.  The dict / list bound in the ContextVar is
treated as immutable once stored.  Under the trusted ContextVar model (each context has its own
binding; copy_context copies bindings, not payloads; set() writes the current context only) a method
whose footprint is {fresh objects, the current context's binding} commutes with every method run in
another context.  Per method we prove: (frame) no in-place mutation of the object obtained from
ContextVar.get(); the argument of set() is fresh; (functional) the new payload as a function of the old."""


def register(reg):
    P = "C18"
    import z3
    from pyvc.values import VBool, VObj, VDict, VList, NONE, VBuiltin
    from pyvc.ops import Unsupported, F, T

    # ---- trusted ContextVar model: `payload` is what is bound in the CURRENT context, `bound` whether anything is
    CVd = reg.model("CtxVarDict", fields={"payload": "Dict[str, opaque:any]", "bound": "bool", "nset": "int"})
    CVl = reg.model("CtxVarList", fields={"payload": "List[opaque:any]", "bound": "bool", "nset": "int"})

    def _get(interp, a, k, n):
        cv = a[0]
        cv.fields["payload"].tags.add("SHARED")
        if len(a) > 1:
            if interp.branch(cv.fields["bound"].z, "ContextVar.bound"):
                return cv.fields["payload"]
            return a[1]          # the default literal: a fresh object
        if not interp.branch(cv.fields["bound"].z, "ContextVar.bound"):
            interp.raise_("LookupError", node=n)
        return cv.fields["payload"]

    def _set(interp, a, k, n):
        cv, v = a[0], interp.need(a[1])
        ok = "SHARED" not in getattr(v, "tags", ())
        interp.ctx.oblige("frame", f"{interp.current_target}/set-argument-is-fresh", z3.BoolVal(ok),
                          {"clause": "the object passed to ContextVar.set() is not the one other contexts may still hold"})
        cv.fields["payload"] = v
        cv.fields["bound"] = VBool(True)
        cv.fields["nset"] = interp.binop(__import__("ast").Add(), cv.fields["nset"], interp.const(1), n)
        return NONE
    for m in ("CtxVarDict", "CtxVarList"):
        reg.overrides[f"model:{m}.get"] = _get
        reg.overrides[f"model:{m}.set"] = _set

    Loc = reg.model("Local", cls="werkzeug/local.py:Local", fields={"_Local__storage": CVd})
    Stk = reg.model("LocalStack", cls="werkzeug/local.py:LocalStack", fields={"_storage": CVl})
    reg.spec("D(self)", "self._Local__storage.payload")
    reg.spec("l_has(self, k)", "self._Local__storage.bound and k in self._Local__storage.payload")

    reg.contract(
        "werkzeug/local.py:Local.__setattr__", prop=P, self_model=Loc, params={"name": "str", "value": "opaque:any"},
        ensures=[
            "self._Local__storage.bound and self._Local__storage.nset == old(self._Local__storage.nset) + 1",
            "name in D(self) and D(self)[name] == value",
            "forall_s(lambda k: implies(k != name, (k in D(self)) == old(l_has(self, k))))",
            "forall_s(lambda k: implies(k != name and old(l_has(self, k)), D(self)[k] == old(D(self))[k]))",
        ],
    )
    reg.contract(
        "werkzeug/local.py:Local.__delattr__", prop=P, self_model=Loc, params={"name": "str"},
        ensures=[
            "old(l_has(self, name)) and self._Local__storage.bound and self._Local__storage.nset == old(self._Local__storage.nset) + 1",
            "not (name in D(self))",
            "forall_s(lambda k: implies(k != name, (k in D(self)) == old(l_has(self, k))))",
            "forall_s(lambda k: implies(k != name and old(l_has(self, k)), D(self)[k] == old(D(self))[k]))",
        ],
        raises={"AttributeError": "not old(l_has(self, name))"},
        raises_ensures={"AttributeError": ["self._Local__storage.nset == old(self._Local__storage.nset)"]},
    )
    reg.contract(
        "werkzeug/local.py:Local.__getattr__", prop=P, self_model=Loc, params={"name": "str"}, returns="opaque:any",
        ensures=["l_has(self, name) and result == D(self)[name]",
                 "self._Local__storage.nset == old(self._Local__storage.nset)"],
        raises={"AttributeError": "not l_has(self, name)"},
    )
    reg.contract(
        "werkzeug/local.py:Local.__release_local__", prop=P, self_model=Loc,
        ensures=["self._Local__storage.bound and forall_s(lambda k: not (k in D(self)))",
                 "self._Local__storage.nset == old(self._Local__storage.nset) + 1"],
    )
    reg.spec("S(self)", "self._storage.payload")
    reg.spec("depth(self)", "len(self._storage.payload) if self._storage.bound else 0")
    reg.contract(
        "werkzeug/local.py:LocalStack.push", prop=P, self_model=Stk, params={"obj": "opaque:any"},
        ensures=["self._storage.bound and len(S(self)) == old(depth(self)) + 1",
                 "S(self)[len(S(self)) - 1] == obj",
                 "forall(0, old(depth(self)), lambda i: S(self)[i] == old(S(self))[i])",
                 "result is S(self)",                      # the NEW list is returned, never the shared one
                 "self._storage.nset == old(self._storage.nset) + 1"],
    )
    reg.contract(
        "werkzeug/local.py:LocalStack.pop", prop=P, self_model=Stk,
        ensures=["implies(old(depth(self)) == 0, result is None and self._storage.nset == old(self._storage.nset))",
                 "implies(old(depth(self)) > 0, result == old(S(self))[old(depth(self)) - 1] and "
                 "        self._storage.bound and len(S(self)) == old(depth(self)) - 1 and "
                 "        forall(0, len(S(self)), lambda i: S(self)[i] == old(S(self))[i]) and "
                 "        self._storage.nset == old(self._storage.nset) + 1)"],
    )
    reg.contract(
        "werkzeug/local.py:LocalStack.top", prop=P, self_model=Stk, modifies=[], returns="Optional[opaque:any]",
        ensures=["implies(depth(self) == 0, result is None)",
                 "implies(depth(self) > 0, result == S(self)[depth(self) - 1])",
                 "self._storage.nset == old(self._storage.nset)"],
    )
    reg.contract(
        "werkzeug/local.py:LocalStack.__release_local__", prop=P, self_model=Stk,
        ensures=["self._storage.bound and len(S(self)) == 0", "self._storage.nset == old(self._storage.nset) + 1"],
    )

    # ---- non-interference lemma over the ContextVar model: a write in context c is invisible in context d != c
    @reg.lemma(P, "per-context-binding-non-interference")
    def _lemma():
        C = z3.DeclareSort("Ctx")
        Pl = z3.DeclareSort("Payload")
        m = z3.Array("bindings", C, Pl)
        c, d = z3.Consts("c d", C)
        v = z3.Const("v", Pl)
        s = z3.Solver()
        s.add(c != d, z3.Select(z3.Store(m, c, v), d) != z3.Select(m, d))
        return [("store-in-c-invisible-in-d", s.check() == z3.unsat,
                 "select(store(m, c, v), d) == select(m, d) for c != d; with the per-method facts "
                 "(payload objects never mutated, set() argument fresh) every operation of context c commutes with "
                 "every operation of a sibling context, and a child sees the payload object that existed at copy time")]
    _register_proxy(reg)


def _register_proxy(reg):
    """LocalProxy over a LocalStack: the proxy is unbound exactly when the stack of the current context is empty --
    a bound object that happens to be falsy is still the current object"""
    Stk = reg.models["LocalStack"]
    reg.contract(
        "werkzeug/local.py:LocalProxy.__init__._get_current_object@1", prop="C18",
        closure={"local": Stk, "get_name": ("modvalue", "_identity"), "unbound_message": "str"},
        modifies=[],
        ensures=["depth(local) > 0 and result == S(local)[depth(local) - 1]"],
        raises={"RuntimeError": "depth(local) == 0"},
    )
