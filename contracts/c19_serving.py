"""C19 -- the development server transports requests faithfully: the de-chunker."""


def register(reg):
    P = "C19"
    # socket rfile (buffered): read(n) returns exactly min(n, remaining); readline() through the next LF or the rest.
    # `taken` (ghost) = concatenation of everything handed out by read(), i.e. the bytes requested as chunk payload
    Src = reg.model("BufferedSource", fields={"wire": "bytes", "pos": "int", "taken": "bytes"})
    reg.contract(
        "model:BufferedSource.read", prop=P, trusted=True, param_names=["self", "n"], returns="bytes",
        requires=["n >= 0"], modifies=["self.pos", "self.taken"],
        ensures=["len(result) == (n if n <= len(self.wire) - old(self.pos) else len(self.wire) - old(self.pos))",
                 "result == self.wire[old(self.pos):old(self.pos) + len(result)]",
                 "self.pos == old(self.pos) + len(result)", "self.taken == old(self.taken) + result"],
    )
    reg.contract(
        "model:BufferedSource.readline", prop=P, trusted=True, param_names=["self"], returns="bytes",
        modifies=["self.pos"],
        ensures=["result == self.wire[old(self.pos):old(self.pos) + len(result)]",
                 "self.pos == old(self.pos) + len(result)",
                 "len(result) <= len(self.wire) - old(self.pos)",
                 "implies(len(result) > 0 and result[len(result) - 1:] != b'\\n', self.pos == len(self.wire))",
                 "not (b'\\n' in result[:len(result) - 1])"],
    )
    DI = reg.model("DechunkedInput", cls="werkzeug/serving.py:DechunkedInput",
                   fields={"_rfile": Src, "_done": "bool", "_len": "int",
                           # ghost: what is really left of the current chunk on the wire / was the last
                           # consumed chunk terminator a bare line break
                           "g_left": "int", "g_term_ok": "bool"})
    reg.spec("I_dc(self)", "self._len >= 0 and (not self._done or self._len == 0) and 0 <= self._rfile.pos "
                           "and self._rfile.pos <= len(self._rfile.wire) "
                           # residual accounting: the stored residual IS what is left of the chunk; a finished
                           # chunk was followed by a bare line terminator
                           "and self._len == self.g_left and self.g_term_ok")
    reg.contract(
        "werkzeug/serving.py:DechunkedInput.read_chunk_len", prop=P, self_model=DI, returns="int",
        modifies=["self._rfile.pos"],
        assumes=["0 <= self._rfile.pos and self._rfile.pos <= len(self._rfile.wire)"],
        ensures=["result >= 0", "self._rfile.taken == old(self._rfile.taken)",
                 "self._rfile.pos >= old(self._rfile.pos) and self._rfile.pos <= len(self._rfile.wire)"],
        raises={"OSError": "True"},
        raises_ensures={"OSError": ["self._rfile.taken == old(self._rfile.taken)"]},
    )
    reg.contract(
        "werkzeug/serving.py:DechunkedInput.readinto", prop=P, self_model=DI,
        cases=[{"buf": "bytearray"}, {"buf": "memoryview"}], returns="int",
        requires=["I_dc(self)"],
        ghost_after={
            "self._len = self.read_chunk_len()": ["self.g_left = self._len"],
            "data = self._rfile.read(n)": ["self.g_left = self.g_left - len(data)"],
            "terminator = self._rfile.readline()": ["self.g_term_ok = terminator in (b'\\n', b'\\r\\n', b'\\r')"],
        },
        ensures=[
            "0 <= result and result <= len(old(buf))",
            "len(buf) == len(old(buf))",
            # every delivered byte was obtained by a payload read (never a size line, terminator or trailer)
            "buf[:result] == self._rfile.taken[len(old(self._rfile.taken)):]",
            "len(self._rfile.taken) == len(old(self._rfile.taken)) + result",
            "buf[result:] == old(buf)[result:]",
            "I_dc(self)",
        ],
        # malformed framing is an I/O error, nothing else escapes (in particular no ValueError)
        raises={"OSError": "True"},
        loops={0: {
            "inv": ["0 <= read and read <= len(buf)", "len(buf) == len(old(buf))", "I_dc(self)",
                    "len(self._rfile.taken) == len(old(self._rfile.taken)) + read",
                    "buf[:read] == self._rfile.taken[len(old(self._rfile.taken)):]",
                    "buf[read:] == old(buf)[read:]"],
            "modifies": ["self._len", "self._done", "self._rfile.pos", "self._rfile.taken", "buf", "self.g_left", "self.g_term_ok"],
            "decreases": "len(buf) - read + (0 if self._done else 1)",
        }},
    )

    # ---- the response writer: chunked framing decision and exact body bytes -------------------------
    WF = reg.model("WFile", fields={"out": "bytes"})
    reg.contract("model:WFile.write", prop=P, trusted=True, param_names=["self", "data"], modifies=["self.out"],
                 ensures=["self.out == old(self.out) + data"])
    reg.contract("model:WFile.flush", prop=P, trusted=True, param_names=["self"])
    Hd = reg.model("Handler", fields={"wfile": WF, "protocol_version": "str", "hdr": "List[Tuple[str, str]]", "g_code": "int"})
    reg.contract("model:Handler.send_response", prop=P, trusted=True, param_names=["self", "code", "message"],
                 note="http.server: status line into the header buffer")
    reg.contract("model:Handler.send_header", prop=P, trusted=True, param_names=["self", "keyword", "value"],
                 modifies=["self.hdr"],
                 ensures=["len(self.hdr) == len(old(self.hdr)) + 1 and self.hdr[len(self.hdr) - 1][0] == keyword "
                          "and self.hdr[len(self.hdr) - 1][1] == value",
                          "forall(0, len(old(self.hdr)), lambda i: self.hdr[i][0] == old(self.hdr)[i][0] and "
                          "       self.hdr[i][1] == old(self.hdr)[i][1])"],
                 note="http.server: one header line into the header buffer (recorded in the ghost list hdr)")
    reg.contract("model:Handler.end_headers", prop=P, trusted=True, param_names=["self"])
    reg.spec("frame(data, chunked)",
             "(hex(len(data))[2:].encode() + b'\\r\\n' + data + b'\\r\\n') if chunked else data")
    reg.spec("may_chunk(headers, method, code, proto)",
             "not exists(0, len(headers), lambda i: headers[i][0].lower() == 'content-length') and method != 'HEAD' "
             "and not (100 <= code and code < 200) and code != 204 and code != 304 and proto >= 'HTTP/1.1'")
    reg.contract(
        "werkzeug/serving.py:WSGIRequestHandler.run_wsgi.write", prop=P,
        params={"data": "bytes"},
        closure={"self": Hd, "environ": {"REQUEST_METHOD": "str"}, "status_set": "Optional[str]",
                 "headers_set": "Optional[List[Tuple[str, str]]]", "status_sent": "Optional[str]",
                 "headers_sent": "Optional[List[Tuple[str, str]]]", "chunk_response": "bool"},
        assumes=["implies(status_sent is None, not chunk_response)"],
        ghost_after={"code = int(code_str)": ["self.g_code = code"]},
        ensures=[
            # body bytes: verbatim, or one well-formed chunk; an empty piece writes nothing (it would read as the terminator)
            "self.wfile.out == old(self.wfile.out) + (frame(data, chunk_response) if len(data) > 0 else b'')",
            # once decided the framing does not change
            "implies(old(status_sent) is not None, chunk_response == old(chunk_response))",
            "status_sent is not None",
            # chunked only without Content-Length, not for HEAD / 1xx / 204 / 304, and only on HTTP/1.1
            "implies(old(status_sent) is None and chunk_response, environ['REQUEST_METHOD'] != 'HEAD' and "
            "  self.protocol_version >= 'HTTP/1.1' and not (100 <= self.g_code and self.g_code < 200) and "
            "  self.g_code != 204 and self.g_code != 304 and "
            "  not exists(0, len(headers_set), lambda i: headers_set[i][0].lower() == 'content-length'))",
            # and then it is announced
            "implies(old(status_sent) is None and chunk_response, len(self.hdr) >= 2 and "
            "  self.hdr[len(self.hdr) - 2][0] == 'Transfer-Encoding' and self.hdr[len(self.hdr) - 2][1] == 'chunked')",
        ],
        raises={"AssertionError": "old(status_set) is None or old(headers_set) is None", "ValueError": "old(status_sent) is None"},
        loops={0: {"inv": ["forall_s(lambda x: (x in header_keys) == exists(0, _i, lambda j: headers_sent[j][0].lower() == x))"],
                   "modifies": ["self.hdr"], "types": {"header_keys": "Set[str]"}}},
    )

    # ---- start_response: what the application announces is what will be sent; a second announcement is only
    # accepted together with exc_info (and then only while nothing has been sent)
    reg.contract(
        "werkzeug/serving.py:WSGIRequestHandler.run_wsgi.start_response", prop=P,
        params={"status": "str", "headers": "List[Tuple[str, str]]", "exc_info": "none"},
        closure={"status_set": "Optional[str]", "headers_set": "Optional[List[Tuple[str, str]]]",
                 "headers_sent": "Optional[List[Tuple[str, str]]]", "write": "opaque:callback"},
        modifies=["status_set", "headers_set"], raise_modifies=[],
        ensures=["status_set == status", "headers_set == headers", "result == write"],
        # without exc_info a response may be started only once (an empty header list counts as "not started":
        # the code tests truthiness)
        raises={"AssertionError": "old(headers_set) is not None and len(old(headers_set)) > 0"},
    )
    _register_model_premises(reg)


def _register_model_premises(reg):
    """premise of the BufferedSource model (rfile.read(n) blocks until n bytes or end of stream; DechunkedInput.readinto's
    `len(data) != n` test and every Content-Length read rest on it): the handler's rfile is the BUFFERED reader that
    socketserver.StreamRequestHandler creates by default (rbufsize = -1).  Checked on the class: neither the handler nor a
    base class inside werkzeug overrides rbufsize / setup() / rfile."""
    import ast
    from pyvc.extract import ModuleInfo, ClassInfo

    @reg.table("C19", "request-handler-reads-through-a-buffered-rfile")
    def _rbuf():
        cls = ModuleInfo.get("werkzeug/serving.py").classes["WSGIRequestHandler"]
        res = []
        for k in cls.mro():
            if not isinstance(k, ClassInfo):
                continue
            rb = k.attrs.get("rbufsize")
            ok = rb is None or (isinstance(rb, ast.Constant) and isinstance(rb.value, int) and (rb.value == -1 or rb.value > 1))
            res.append((f"{k.name}/rbufsize", ok, f"rbufsize = {ast.unparse(rb) if rb is not None else '<inherited: -1>'}"))
            res.append((f"{k.name}/no-setup-override", "setup" not in k.methods, f"methods: {sorted(m for m in k.methods if m in ('setup', 'finish'))}"))
            assigns = [n for fns in k.methods.values() for n in ast.walk(fns[-1])
                       if isinstance(n, (ast.Assign, ast.AnnAssign)) and any(
                           isinstance(t, ast.Attribute) and t.attr == "rfile" and isinstance(t.value, ast.Name) and t.value.id == "self"
                           for t in (n.targets if isinstance(n, ast.Assign) else [n.target]))]
            res.append((f"{k.name}/rfile-not-rebound", not assigns, f"assignments to self.rfile at lines {[a.lineno for a in assigns]}"))
        return res
