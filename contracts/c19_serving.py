"""C19 -- the development server transports requests faithfully: the de-chunker."""


def register(reg):
    P = "C19"
    # socket rfile (buffered): read(n) returns exactly min(n, remaining); readline() through the next LF or the rest.
    # `taken` (ghost) = concatenation of everything handed out by read(), i.e. the bytes requested as chunk payload
    Src = reg.model("BufferedSource", fields={"wire": "bytes", "pos": "int", "taken": "bytes"})
    reg.contract(
        "model:BufferedSource.read", prop=P, trusted=True, param_names=["self", "n"], returns="bytes",
        requires=["n >= 0"], modifies=["self.pos", "self.taken"],
        ensures=["len(result) == (n if n <= len(self.wire) - old(self.pos) else len(self.wire) - old(self.pos))",
                 "result == self.wire[old(self.pos):old(self.pos) + len(result)]",
                 "self.pos == old(self.pos) + len(result)", "self.taken == old(self.taken) + result"],
    )
    reg.contract(
        "model:BufferedSource.readline", prop=P, trusted=True, param_names=["self"], returns="bytes",
        modifies=["self.pos"],
        ensures=["result == self.wire[old(self.pos):old(self.pos) + len(result)]",
                 "self.pos == old(self.pos) + len(result)",
                 "len(result) <= len(self.wire) - old(self.pos)",
                 "implies(len(result) > 0 and result[len(result) - 1:] != b'\\n', self.pos == len(self.wire))",
                 "not (b'\\n' in result[:len(result) - 1])"],
    )
    DI = reg.model("DechunkedInput", cls="werkzeug/serving.py:DechunkedInput",
                   fields={"_rfile": Src, "_done": "bool", "_len": "int",
                           # ghost: what is really left of the current chunk on the wire / was the last
                           # consumed chunk terminator a bare line break
                           "g_left": "int", "g_term_ok": "bool"})
    reg.spec("I_dc(self)", "self._len >= 0 and (not self._done or self._len == 0) and 0 <= self._rfile.pos "
                           "and self._rfile.pos <= len(self._rfile.wire) "
                           # residual accounting: the stored residual IS what is left of the chunk; a finished
                           # chunk was followed by a bare line terminator
                           "and self._len == self.g_left and self.g_term_ok")
    reg.contract(
        "werkzeug/serving.py:DechunkedInput.read_chunk_len", prop=P, self_model=DI, returns="int",
        modifies=["self._rfile.pos"],
        assumes=["0 <= self._rfile.pos and self._rfile.pos <= len(self._rfile.wire)"],
        ensures=["result >= 0", "self._rfile.taken == old(self._rfile.taken)",
                 "self._rfile.pos >= old(self._rfile.pos) and self._rfile.pos <= len(self._rfile.wire)"],
        raises={"OSError": "True"},
        raises_ensures={"OSError": ["self._rfile.taken == old(self._rfile.taken)"]},
    )
    reg.contract(
        "werkzeug/serving.py:DechunkedInput.readinto", prop=P, self_model=DI,
        cases=[{"buf": "bytearray"}, {"buf": "memoryview"}], returns="int",
        requires=["I_dc(self)"],
        ghost_after={
            "self._len = self.read_chunk_len()": ["self.g_left = self._len"],
            "data = self._rfile.read(n)": ["self.g_left = self.g_left - len(data)"],
            "terminator = self._rfile.readline()": ["self.g_term_ok = terminator in (b'\\n', b'\\r\\n', b'\\r')"],
        },
        ensures=[
            "0 <= result and result <= len(old(buf))",
            "len(buf) == len(old(buf))",
            # every delivered byte was obtained by a payload read (never a size line, terminator or trailer)
            "buf[:result] == self._rfile.taken[len(old(self._rfile.taken)):]",
            "len(self._rfile.taken) == len(old(self._rfile.taken)) + result",
            "buf[result:] == old(buf)[result:]",
            "I_dc(self)",
        ],
        # malformed framing is an I/O error, nothing else escapes (in particular no ValueError)
        raises={"OSError": "True"},
        loops={0: {
            "inv": ["0 <= read and read <= len(buf)", "len(buf) == len(old(buf))", "I_dc(self)",
                    "len(self._rfile.taken) == len(old(self._rfile.taken)) + read",
                    "buf[:read] == self._rfile.taken[len(old(self._rfile.taken)):]",
                    "buf[read:] == old(buf)[read:]"],
            "modifies": ["self._len", "self._done", "self._rfile.pos", "self._rfile.taken", "buf", "self.g_left", "self.g_term_ok"],
            "decreases": "len(buf) - read + (0 if self._done else 1)",
        }},
    )
