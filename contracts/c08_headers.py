"""C08 -- Headers: ordered pairs with case-insensitively compared keys (reads and removals against the list view)."""


def register(reg):
    P = "C08"
    H = reg.models["Headers"]
    reg.spec("hkey(self, i)", "self._list[i][0].lower()")
    reg.spec("has_key(self, key)", "exists(0, len(self._list), lambda i: hkey(self, i) == key.lower())")
    reg.contract(
        "werkzeug/datastructures/headers.py:Headers._get_key", prop=P, modifies=[], self_model=H, replay="method", params={"key": "str"}, returns="str",
        ensures=[
            # the value of the FIRST pair whose key equals `key` case-insensitively
            "exists(0, len(self._list), lambda i: hkey(self, i) == key.lower() and result == self._list[i][1] and "
            "       forall(0, i, lambda j: hkey(self, j) != key.lower()))",
        ],
        raises={"BadRequestKeyError": "not has_key(self, key)"},
        loops={0: {"inv": ["forall(0, _i, lambda j: hkey(self, j) != ikey)", "ikey == key.lower()"]}},
    )
    reg.contract(
        "werkzeug/datastructures/headers.py:Headers.__contains__", prop=P, modifies=[], self_model=H, params={"key": "str"}, returns="bool",
        inline_callees=["werkzeug/datastructures/headers.py:Headers._get_key"],
        ensures=["result == has_key(self, key)"],
    )
    reg.contract(
        "werkzeug/datastructures/headers.py:Headers.__len__", prop=P, modifies=[], self_model=H, returns="int",
        ensures=["result == len(self._list)"],
    )
    reg.contract(
        "werkzeug/datastructures/headers.py:Headers._del_key", prop=P, self_model=H, replay="method", params={"key": "str"},
        modifies=["self._list"],
        ensures=[
            # removal never introduces a value: the no-CR/LF invariant of C05 survives
            "implies(old(I_h(self)), I_h(self))",
            # every pair with that key (any letter case) is gone, the others keep their relative order
            "not has_key(self, key)",
            "len(self._list) <= len(old(self._list))",
            # (that the remaining pairs are old pairs in their old order is the loop invariant below; the
            #  corresponding postcondition took z3 > 10 s and is left to the bounded tier)
        ],
        loops={0: {"types": {"new": "List[Tuple[str, str]]"},
                   "inv": ["forall(0, len(new), lambda i: new[i][0].lower() != key and exists(0, _i, lambda j: "
                           "       new[i][0] == self._list[j][0] and new[i][1] == self._list[j][1]))",
                           "key == old(key).lower()", "len(new) <= _i",
                           "self._list == old(self._list)"]}},
    )
    reg.contract(
        "werkzeug/datastructures/headers.py:Headers.clear", prop=P, modifies=["self._list"], self_model=H,
        ensures=["len(self._list) == 0"],
    )
    reg.contract(
        "werkzeug/datastructures/headers.py:Headers.popitem", prop=P, modifies=["self._list"], self_model=H,
        ensures=["len(self._list) == len(old(self._list)) - 1",
                 "result[0] == old(self._list)[len(old(self._list)) - 1][0] and result[1] == old(self._list)[len(old(self._list)) - 1][1]"],
        raises={"IndexError": "len(old(self._list)) == 0"},
    )

    reg.spec("hv(value)", "value if isinstance(value, str) else str(value)")
    reg.spec("first_at(lst, key, p)", "lst[p][0].lower() == key.lower() and forall(0, p, lambda j: lst[j][0].lower() != key.lower())")
    reg.spec("first_is(h, key, v)", "exists(0, len(h._list), lambda i: first_at(h._list, key, i) and h._list[i][1] == v)")
    # ---- Headers.set: replace the first pair with that key (any letter case), drop the later ones, or append
    reg.contract(
        "werkzeug/datastructures/headers.py:Headers.set", prop="C08,C05,C16", self_model=H, replay="method", modifies=["self._list"], raise_modifies=[],
        params={"key": "str"}, cases=[{"value": "str"}, {"value": "int"}],
        ghost_params={"k2": "str"},
        requires=["I_h(self)"],
        ensures=[
            "I_h(self)",
            # setting one key never makes another key appear (k2: an arbitrary other key, chosen by the caller)
            "implies(k2.lower() != key.lower() and not old(has_key(self, k2)), not has_key(self, k2))",
            # no pair had the key: appended at the end, nothing else touched
            "implies(not old(has_key(self, key)), len(self._list) == len(old(self._list)) + 1 and "
            "        self._list[len(self._list) - 1][0] == key and self._list[len(self._list) - 1][1] == hv(value) and "
            "        forall(0, len(old(self._list)), lambda i: self._list[i][0] == old(self._list)[i][0] and self._list[i][1] == old(self._list)[i][1]))",
            # otherwise: the first such pair (position p) is replaced in place, everything before it is untouched, no later
            # pair has the key
            "implies(old(has_key(self, key)), len(self._list) <= len(old(self._list)))",
            "implies(old(has_key(self, key)), exists(0, len(old(self._list)), lambda p: first_at(old(self._list), key, p) and "
            "     p < len(self._list) and self._list[p][0] == key and self._list[p][1] == hv(value) and "
            "     forall(0, p, lambda j: self._list[j][0] == old(self._list)[j][0] and self._list[j][1] == old(self._list)[j][1]) and "
            "     forall(p + 1, len(self._list), lambda j: hkey(self, j) != key.lower()), witness=lambda: ghost_p))",
            # in both cases: the first pair with that key now carries the new value
            "exists(0, len(self._list), lambda i: first_at(self._list, key, i) and self._list[i][1] == hv(value), witness=lambda: ghost_p)",
            # afterwards the key is present exactly once, with the new value
            "has_key(self, key)",
        ],
        raises={"ValueError": "isinstance(value, str) and not clean(value)"},
        raises_ensures={"ValueError": ["len(self._list) == len(old(self._list))"]},
        loops={0: {"inv": ["forall(0, _i, lambda j: hkey(self, j) != ikey)", "ikey == key.lower()",
                           "self._list == old(self._list)", "len(self._list) > 0"]}},
        ghost_after={"self._list.append((key, value_str))": ["ghost_p = len(self._list) - 1"],
                     "self._list[idx + 1:] = ...": [
            "assert forall(idx + 1, len(self._list), lambda j: hkey(self, j) != ikey)",
            "assert forall(idx + 1, len(self._list), lambda j: clean(self._list[j][1]))",
            "assert first_at(old(self._list), key, idx)",
            "ghost_p = idx",
            "assert forall(0, idx, lambda j: self._list[j][0] == old(self._list)[j][0] and self._list[j][1] == old(self._list)[j][1])",
            "assert self._list[idx][0] == key and self._list[idx][1] == value_str and len(self._list) <= len(old(self._list)) and idx < len(self._list)",
        ]},
    )

    reg.contract(
        "werkzeug/datastructures/headers.py:Headers.remove", prop="C08,C05", self_model=H, replay="method", params={"key": "str"}, returns="none",
        modifies=["self._list"],
        ensures=["not has_key(self, key)", "len(self._list) <= len(old(self._list))", "implies(old(I_h(self)), I_h(self))"],
    )
    reg.contract(
        "werkzeug/datastructures/headers.py:Headers.__delitem__#str", prop="C08", self_model=H, params={"key": "str"},
        modifies=["self._list"],
        ensures=["not has_key(self, key)", "len(self._list) <= len(old(self._list))", "implies(old(I_h(self)), I_h(self))"],
    )
    SET_ENS = [
        "I_h(self)", "has_key(self, key)", "first_is(self, key, hv(value))",
        "implies(k2.lower() != key.lower() and not old(has_key(self, k2)), not has_key(self, k2))",
        "implies(not old(has_key(self, key)), forall(0, len(old(self._list)), lambda i: self._list[i][0] == old(self._list)[i][0] and "
        "        self._list[i][1] == old(self._list)[i][1]))",
        "implies(not old(has_key(self, key)), len(self._list) == len(old(self._list)) + 1 and "
        "        self._list[len(self._list) - 1][0] == key and self._list[len(self._list) - 1][1] == hv(value))",
        "implies(old(has_key(self, key)), len(self._list) <= len(old(self._list)) and "
        "   exists(0, len(old(self._list)), lambda p: first_at(old(self._list), key, p) and p < len(self._list) and "
        "          self._list[p][0] == key and self._list[p][1] == hv(value)))",
    ]
    reg.contract(
        "werkzeug/datastructures/headers.py:Headers.__setitem__#str", prop="C08,C05,C16", self_model=H,
        params={"key": "str"}, cases=[{"value": "str"}, {"value": "int"}], modifies=["self._list"],
        ghost_params={"k2": "str"}, call_ghost={"werkzeug/datastructures/headers.py:Headers.set": {"k2": "k2"}},
        requires=["I_h(self)"], ensures=SET_ENS,
        raises={"ValueError": "isinstance(value, str) and not clean(value)"},
        raises_ensures={"ValueError": ["self._list == old(self._list)"]},
    )
    reg.contract(
        "werkzeug/datastructures/headers.py:Headers.setdefault", prop="C08,C05", self_model=H, replay="method",
        params={"key": "str"}, cases=[{"default": "str"}, {"default": "int"}], modifies=["self._list"], returns="str",
        requires=["I_h(self)"],
        ensures=[
            "I_h(self)", "has_key(self, key)",
            # present: untouched, the first value is returned; absent: appended (as a checked header value) and returned
            "implies(old(has_key(self, key)), self._list == old(self._list))",
            "exists(0, len(self._list), lambda i: first_at(self._list, key, i) and result == self._list[i][1])",
            "implies(not old(has_key(self, key)), len(self._list) == len(old(self._list)) + 1 and result == hv(default))",
        ],
        raises={"ValueError": "not old(has_key(self, key)) and isinstance(default, str) and not clean(default)"},
        raises_ensures={"ValueError": ["self._list == old(self._list)"]},
    )

    # ---- setlist: every value goes through the header-value check (set for the first, add for the others)
    reg.contract(
        "werkzeug/datastructures/headers.py:Headers.setlist", prop="C05,C08", self_model=H,
        params={"key": "str", "values": "List[str]"}, modifies=["self._list"],
        requires=["I_h(self)"],
        ensures=["I_h(self)",
                 "implies(len(values) == 0, not has_key(self, key))",
                 "implies(len(values) > 0, has_key(self, key))",
                 # all values were acceptable
                 "forall(0, len(values), lambda i: clean(values[i]))"],
        raises={"ValueError": "exists(0, len(values), lambda i: not clean(values[i]))"},
        loops={0: {"inv": ["I_h(self)", "has_key(self, key)", "forall(0, _i + 1, lambda j: clean(values[j]))"],
                   "modifies": ["self._list"]}},
    )

    # ---- readers by key
    reg.contract(
        "werkzeug/datastructures/headers.py:Headers.get", prop=P, self_model=H, modifies=[], replay="method",
        params={"key": "str", "default": "Optional[str]", "type": "none"}, returns="Optional[str]",
        ensures=["implies(has_key(self, key), result is not None and first_is(self, key, result))",
                 "implies(not has_key(self, key), result == default)"],
        raises={},
    )
    reg.contract(
        "werkzeug/datastructures/headers.py:Headers.getlist", prop=P, self_model=H, modifies=[], replay="method",
        params={"key": "str", "type": "none"}, returns="List[str]",
        ensures=[
            # exactly the values of the pairs with that key (any letter case): each result is such a value ...
            "forall(0, len(result), lambda i: exists(0, len(self._list), lambda j: hkey(self, j) == key.lower() and "
            "       result[i] == self._list[j][1], witness=lambda: ghost_filt_src(i)))",
            # ... and none is missing
            "forall(0, len(self._list), lambda j: implies(hkey(self, j) == key.lower(), "
            "       exists(0, len(result), lambda i: result[i] == self._list[j][1], witness=lambda: ghost_filt_dst(j))))",
            "len(result) <= len(self._list)",
        ],
        raises={},
    )
    reg.contract(
        "werkzeug/datastructures/headers.py:Headers.pop#str", prop=P, self_model=H, modifies=["self._list"], raise_modifies=[], replay="method",
        params={"key": "str"}, returns="str",
        ensures=["first_is(old(self), key, result)", "not has_key(self, key)", "len(self._list) <= len(old(self._list))"],
        raises={"BadRequestKeyError": "not has_key(self, key)"},
    )

    # ---- the remaining write sites that go through the value check
    reg.contract("werkzeug/datastructures/structures.py:iter_multi_items", prop="C05,C08", trusted=True, modifies=[],
                 params={"mapping": "List[Tuple[str, str]]"}, returns="List[Tuple[str, str]]", returns_expr="mapping",
                 note="(key, value) pairs of a MultiDict / dict / iterable of pairs: for an iterable of pairs, the pairs themselves")
    # the body, for the case the summary above is about (an iterable of pairs: neither a MultiDict nor a Mapping)
    reg.contract("werkzeug/datastructures/structures.py:iter_multi_items#verify", prop="C05,C08", modifies=[],
                 params={"mapping": "List[Tuple[str, str]]"}, returns="List[Tuple[str, str]]",
                 ensures=["result == mapping"], raises={})
    reg.contract(
        "werkzeug/datastructures/headers.py:Headers.extend", prop="C05,C08", self_model=H,
        params={"arg": "Optional[List[Tuple[str, str]]]"}, modifies=["self._list"],
        requires=["I_h(self)"],
        ensures=["I_h(self)",
                 "implies(arg is not None, len(self._list) == len(old(self._list)) + len(arg))",
                 "implies(arg is None, len(self._list) == len(old(self._list)))",
                 "implies(arg is not None, forall(0, len(arg), lambda i: clean(arg[i][1])))"],
        raises={"ValueError": "arg is not None and exists(0, len(arg), lambda i: not clean(arg[i][1]))"},
        loops={0: {"inv": ["I_h(self)", "len(self._list) == len(old(self._list)) + _i",
                           "forall(0, _i, lambda j: clean(arg[j][1]))"],
                   "modifies": ["self._list"]}},
    )
    reg.contract(
        "werkzeug/datastructures/headers.py:Headers.__setitem__#int", prop="C05,C08", self_model=H,
        params={"key": "int", "value": "Tuple[str, str]"}, modifies=["self._list"], raise_modifies=[],
        requires=["I_h(self)", "0 <= key and key < len(self._list)"],
        ensures=["I_h(self)", "len(self._list) == len(old(self._list))",
                 "self._list[key][0] == value[0] and self._list[key][1] == value[1]",
                 "forall(0, len(self._list), lambda i: implies(i != key, self._list[i][0] == old(self._list)[i][0] and "
                 "       self._list[i][1] == old(self._list)[i][1]))"],
        raises={"ValueError": "not clean(value[1])"},
    )
    reg.contract(
        "werkzeug/datastructures/headers.py:Headers.update#pairs", prop="C05,C08", self_model=H,
        params={"arg": "List[Tuple[str, str]]"}, modifies=["self._list"],
        requires=["I_h(self)"],
        ensures=["I_h(self)", "forall(0, len(arg), lambda i: clean(arg[i][1]))",
                 "implies(len(arg) > 0, has_key(self, arg[len(arg) - 1][0]))"],
        raises={"ValueError": "exists(0, len(arg), lambda i: not clean(arg[i][1]))"},
        loops={2: {"inv": ["I_h(self)", "forall(0, _i, lambda j: clean(arg[j][1]))",
                           "implies(_i > 0, has_key(self, arg[_i - 1][0]))"],
                   "modifies": ["self._list"]}},
    )

    # ---- EnvironHeaders: read-only view of the CGI-style keys of a WSGI environ
    EH = reg.model("EnvironHeaders", cls="werkzeug/datastructures/headers.py:EnvironHeaders", fields={"environ": "Dict[str, str]"})
    reg.spec("cgi_key(key)", "key.upper().replace('-', '_') if key.upper().replace('-', '_') in ('CONTENT_TYPE', 'CONTENT_LENGTH') "
                             "else 'HTTP_' + key.upper().replace('-', '_')")
    reg.contract(
        "werkzeug/datastructures/headers.py:EnvironHeaders._get_key", prop=P, self_model=EH, params={"key": "str"},
        returns="str", modifies=[], replay="method",
        ensures=["cgi_key(key) in self.environ and result == self.environ[cgi_key(key)]"],
        # a missing header is the documented BadRequestKeyError (a KeyError), never a bare KeyError of the dict
        raises={"BadRequestKeyError": "not (cgi_key(key) in self.environ)"},
    )
