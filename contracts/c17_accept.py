"""C17 -- content negotiation picks a best-quality, most-specific offer.

The family-specific matcher (_value_matches) and specificity rank (_specificity) are abstract here:
uninterpreted predicate / rank.  Qualities are reals (floats as reals: assumption)."""


def register(reg):
    P = "C17"
    reg.ufunc("uf_match", ["str", "str"], "bool")          # _value_matches(offer, client item)
    reg.ufunc("uf_spec", ["str"], "int")                   # rank of _specificity(client item)
    ITEMS = "List[Tuple[str, float]]"
    Acc = reg.model("Accept", cls="werkzeug/datastructures/accept.py:Accept",
                    fields={"__list__": ITEMS, "provided": "bool"})
    reg.contract("werkzeug/datastructures/accept.py:Accept._value_matches", prop=P, trusted=True,
                 params={"value": "str", "item": "str"}, returns="bool", ensures=["result == uf_match(value, item)"],
                 note="abstract matcher of the header family (the concrete ones are bounded)")
    reg.contract("werkzeug/datastructures/accept.py:Accept._specificity", prop=P, trusted=True,
                 params={"value": "str"}, returns="Tuple[int]",
                 ensures=["result[0] == uf_spec(value)", "result[0] >= 0"],
                 note="abstract specificity rank (a total preorder; real tuples of bools compare the same way)")
    # FMI(items, m): index of the first client item matching offer m, or -1 (least-element principle: trusted definition)
    reg.defn("FMI(items, m)", None, {"items": ITEMS, "m": "str"}, returns="int")
    reg.spec("fmi_def(items, m)",
             "(FMI(items, m) == -1 and forall(0, len(items), lambda k: not uf_match(m, items[k][0]))) or "
             "(0 <= FMI(items, m) and FMI(items, m) < len(items) and uf_match(m, items[FMI(items, m)][0]) and "
             " forall(0, FMI(items, m), lambda k: not uf_match(m, items[k][0])))")
    reg.spec("key_ge(items, a, b)",
             "uf_spec(items[a][0]) > uf_spec(items[b][0]) or "
             "(uf_spec(items[a][0]) == uf_spec(items[b][0]) and items[a][1] >= items[b][1])")
    reg.spec("sorted_items(items)",
             "forall(0, len(items), lambda a: forall(a, len(items), lambda b: key_ge(items, a, b)))")

    reg.contract(
        "werkzeug/datastructures/accept.py:Accept._best_single_match", modifies=[], prop=P, self_model=Acc,
        params={"match": "str"}, returns="Optional[Tuple[str, float]]",
        assumes=["fmi_def(self.__list__, match)"],
        ensures=[
            # the first matching item in stored order ...
            "(result is None) == (FMI(self.__list__, match) < 0)",
            "result is None or (result[0] == self.__list__[FMI(self.__list__, match)][0] and "
            "                   result[1] == self.__list__[FMI(self.__list__, match)][1])",
            # ... which, the list being sorted by (specificity, quality), is the most specific matching range
            "implies(sorted_items(self.__list__) and FMI(self.__list__, match) >= 0, "
            "  forall(0, len(self.__list__), lambda k: implies(uf_match(match, self.__list__[k][0]), "
            "         key_ge(self.__list__, FMI(self.__list__, match), k))))",
        ],
        loops={0: {"inv": ["forall(0, _i, lambda k: not uf_match(match, self.__list__[k][0]))"]}},
    )
    reg.contract(
        "werkzeug/datastructures/accept.py:Accept.quality", prop=P, self_model=Acc, params={"key": "str"},
        assumes=["fmi_def(self.__list__, key)"],
        ensures=["implies(FMI(self.__list__, key) < 0, result == 0)",
                 "implies(FMI(self.__list__, key) >= 0, result == self.__list__[FMI(self.__list__, key)][1])"],
        loops={0: {"inv": ["forall(0, _i, lambda k: not uf_match(key, self.__list__[k][0]))"]}},
    )
    reg.contract(
        "werkzeug/datastructures/accept.py:Accept.__contains__", prop=P, self_model=Acc, params={"value": "str"},
        assumes=["fmi_def(self.__list__, value)"],
        ensures=["result == (FMI(self.__list__, value) >= 0)"],
        loops={0: {"inv": ["forall(0, _i, lambda k: not uf_match(value, self.__list__[k][0]))"]}},
    )
    # ---- best_match --------------------------------------------------------------------------
    reg.spec("has(items, m)", "FMI(items, m) >= 0")
    reg.spec("q_of(items, m)", "items[FMI(items, m)][1]")
    reg.spec("s_of(items, m)", "uf_spec(items[FMI(items, m)][0])")
    reg.spec("elig(items, m)", "has(items, m) and q_of(items, m) > 0")
    reg.spec("lexle(q1, s1, q2, s2)", "q1 < q2 or (q1 == q2 and s1 <= s2)")
    reg.spec("lexlt(q1, s1, q2, s2)", "q1 < q2 or (q1 == q2 and s1 < s2)")
    reg.spec("is_best(items, ms, n, jb)",
             "0 <= jb and jb < n and elig(items, ms[jb]) and "
             "forall(0, n, lambda j: implies(elig(items, ms[j]), "
             "   lexle(q_of(items, ms[j]), s_of(items, ms[j]), q_of(items, ms[jb]), s_of(items, ms[jb])))) and "
             "forall(0, jb, lambda j: implies(elig(items, ms[j]), "
             "   lexlt(q_of(items, ms[j]), s_of(items, ms[j]), q_of(items, ms[jb]), s_of(items, ms[jb]))))")
    # BI(items, ms, n): index of the winner among the first n offers (-1: none) -- recursive ghost definition,
    # unfolded one level where it is used; its meaning (is_best) is the inductive lemma below
    reg.defn("BI(items, ms, n)",
             "-1 if n <= 0 else ("
             " (n - 1) if (elig(items, ms[n - 1]) and (BI(items, ms, n - 1) == -1 or "
             "    lexlt(q_of(items, ms[BI(items, ms, n - 1)]), s_of(items, ms[BI(items, ms, n - 1)]), "
             "          q_of(items, ms[n - 1]), s_of(items, ms[n - 1])))) "
             " else BI(items, ms, n - 1))",
             {"items": ITEMS, "ms": "List[str]", "n": "int"}, returns="int")
    reg.spec("bi_meaning(items, ms, n)",
             "-1 <= BI(items, ms, n) and (BI(items, ms, n) < n or (n <= 0 and BI(items, ms, n) == -1)) "
             "and (BI(items, ms, n) != -1 or forall(0, n, lambda j: not elig(items, ms[j]))) "
             "and (BI(items, ms, n) == -1 or is_best(items, ms, n, BI(items, ms, n)))")
    reg.lemma_spec(P, "best-index-meaning/base", vars={"items": ITEMS, "ms": "List[str]"},
                   hints=["BI(items, ms, 0)"], goals=["bi_meaning(items, ms, 0)"])
    reg.lemma_spec(P, "best-index-meaning/step", vars={"items": ITEMS, "ms": "List[str]", "n": "int"},
                   assumes=["0 <= n and n < len(ms)", "bi_meaning(items, ms, n)"],
                   hints=["BI(items, ms, n + 1)", "BI(items, ms, n)"], goals=["bi_meaning(items, ms, n + 1)"])
    reg.contract(
        "werkzeug/datastructures/accept.py:Accept.best_match", prop=P, self_model=Acc,
        params={"matches": "List[str]", "default": "Optional[str]"}, returns="Optional[str]",
        assumes=["forall(0, len(matches), lambda j: fmi_def(self.__list__, matches[j]))"],
        ensures=[
            # the winner index BI (meaning: lemma best-index-meaning) decides: none eligible -> default,
            # otherwise the first offer maximising (quality, specificity) of its best range
            "implies(BI(self.__list__, matches, len(matches)) == -1, result == default)",
            "implies(BI(self.__list__, matches, len(matches)) != -1, "
            "        result == matches[BI(self.__list__, matches, len(matches))])",
        ],
        loops={0: {
            "types": {"result": "Optional[str]", "best_specificity": "Tuple[int]"},
            "hints": ["FMI(self.__list__, matches[_i])", "fmi_def(self.__list__, matches[_i])",
                      "BI(self.__list__, matches, _i + 1)", "BI(self.__list__, matches, _i)"],
            "inv": [
                "-1 <= BI(self.__list__, matches, _i) and BI(self.__list__, matches, _i) < len(matches)",
                "implies(BI(self.__list__, matches, _i) == -1, "
                "        result == default and best_quality == -1 and best_specificity[0] == -1)",
                "implies(BI(self.__list__, matches, _i) != -1, "
                "   result == matches[BI(self.__list__, matches, _i)] and "
                "   best_quality == q_of(self.__list__, matches[BI(self.__list__, matches, _i)]) and best_quality > 0 and "
                "   best_specificity[0] == s_of(self.__list__, matches[BI(self.__list__, matches, _i)]))",
            ],
        }},
    )
