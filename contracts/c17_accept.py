"""C17 -- content negotiation picks a best-quality, most-specific offer.

The family-specific matcher (_value_matches) and specificity rank (_specificity) are abstract here:
uninterpreted predicate / rank.  Qualities are reals (floats as reals: assumption)."""


def register(reg):
    P = "C17"
    reg.ufunc("uf_match", ["str", "str"], "bool")          # _value_matches(offer, client item)
    reg.ufunc("uf_spec", ["str"], "int")                   # rank of _specificity(client item)
    ITEMS = "List[Tuple[str, float]]"
    Acc = reg.model("Accept", cls="werkzeug/datastructures/accept.py:Accept",
                    fields={"__list__": ITEMS, "provided": "bool"})
    reg.contract("werkzeug/datastructures/accept.py:Accept._value_matches", prop=P, trusted=True,
                 params={"value": "str", "item": "str"}, returns="bool", ensures=["result == uf_match(value, item)"],
                 note="abstract matcher of the header family (the concrete ones are bounded)")
    reg.contract("werkzeug/datastructures/accept.py:Accept._specificity", prop=P, trusted=True,
                 params={"value": "str"}, returns="Tuple[int]",
                 ensures=["result[0] == uf_spec(value)", "result[0] >= 0"],
                 note="abstract specificity rank (a total preorder; real tuples of bools compare the same way)")
    # FMI(items, m): index of the first client item matching offer m, or -1 (least-element principle: trusted definition)
    reg.defn("FMI(items, m)", None, {"items": ITEMS, "m": "str"}, returns="int")
    reg.spec("fmi_def(items, m)",
             "(FMI(items, m) == -1 and forall(0, len(items), lambda k: not uf_match(m, items[k][0]))) or "
             "(0 <= FMI(items, m) and FMI(items, m) < len(items) and uf_match(m, items[FMI(items, m)][0]) and "
             " forall(0, FMI(items, m), lambda k: not uf_match(m, items[k][0])))")
    reg.spec("key_ge(items, a, b)",
             "uf_spec(items[a][0]) > uf_spec(items[b][0]) or "
             "(uf_spec(items[a][0]) == uf_spec(items[b][0]) and items[a][1] >= items[b][1])")
    reg.spec("sorted_items(items)",
             "forall(0, len(items), lambda a: forall(a, len(items), lambda b: key_ge(items, a, b)))")

    reg.contract(
        "werkzeug/datastructures/accept.py:Accept._best_single_match", modifies=[], prop=P, self_model=Acc,
        params={"match": "str"}, returns="Optional[Tuple[str, float]]",
        assumes=["fmi_def(self.__list__, match)"],
        ensures=[
            # the first matching item in stored order ...
            "(result is None) == (FMI(self.__list__, match) < 0)",
            "result is None or (result[0] == self.__list__[FMI(self.__list__, match)][0] and "
            "                   result[1] == self.__list__[FMI(self.__list__, match)][1])",
            # ... which, the list being sorted by (specificity, quality), is the most specific matching range
            "implies(sorted_items(self.__list__) and FMI(self.__list__, match) >= 0, "
            "  forall(0, len(self.__list__), lambda k: implies(uf_match(match, self.__list__[k][0]), "
            "         key_ge(self.__list__, FMI(self.__list__, match), k))))",
        ],
        loops={0: {"inv": ["forall(0, _i, lambda k: not uf_match(match, self.__list__[k][0]))"]}},
    )
    reg.contract(
        "werkzeug/datastructures/accept.py:Accept.quality", prop=P, self_model=Acc, params={"key": "str"},
        assumes=["fmi_def(self.__list__, key)"],
        ensures=["implies(FMI(self.__list__, key) < 0, result == 0)",
                 "implies(FMI(self.__list__, key) >= 0, result == self.__list__[FMI(self.__list__, key)][1])"],
        loops={0: {"inv": ["forall(0, _i, lambda k: not uf_match(key, self.__list__[k][0]))"]}},
    )
    reg.contract(
        "werkzeug/datastructures/accept.py:Accept.__contains__", prop=P, self_model=Acc, params={"value": "str"},
        assumes=["fmi_def(self.__list__, value)"],
        ensures=["result == (FMI(self.__list__, value) >= 0)"],
        loops={0: {"inv": ["forall(0, _i, lambda k: not uf_match(value, self.__list__[k][0]))"]}},
    )
    # ---- best_match --------------------------------------------------------------------------
    reg.spec("has(items, m)", "FMI(items, m) >= 0")
    reg.spec("q_of(items, m)", "items[FMI(items, m)][1]")
    reg.spec("s_of(items, m)", "uf_spec(items[FMI(items, m)][0])")
    reg.spec("elig(items, m)", "has(items, m) and q_of(items, m) > 0")
    reg.spec("lexle(q1, s1, q2, s2)", "q1 < q2 or (q1 == q2 and s1 <= s2)")
    reg.spec("lexlt(q1, s1, q2, s2)", "q1 < q2 or (q1 == q2 and s1 < s2)")
    reg.spec("is_best(items, ms, n, jb)",
             "0 <= jb and jb < n and elig(items, ms[jb]) and "
             "forall(0, n, lambda j: implies(elig(items, ms[j]), "
             "   lexle(q_of(items, ms[j]), s_of(items, ms[j]), q_of(items, ms[jb]), s_of(items, ms[jb])))) and "
             "forall(0, jb, lambda j: implies(elig(items, ms[j]), "
             "   lexlt(q_of(items, ms[j]), s_of(items, ms[j]), q_of(items, ms[jb]), s_of(items, ms[jb]))))")
    # BI(items, ms, n): index of the winner among the first n offers (-1: none) -- recursive ghost definition,
    # unfolded one level where it is used; its meaning (is_best) is the inductive lemma below
    reg.defn("BI(items, ms, n)",
             "-1 if n <= 0 else ("
             " (n - 1) if (elig(items, ms[n - 1]) and (BI(items, ms, n - 1) == -1 or "
             "    lexlt(q_of(items, ms[BI(items, ms, n - 1)]), s_of(items, ms[BI(items, ms, n - 1)]), "
             "          q_of(items, ms[n - 1]), s_of(items, ms[n - 1])))) "
             " else BI(items, ms, n - 1))",
             {"items": ITEMS, "ms": "List[str]", "n": "int"}, returns="int")
    reg.spec("bi_meaning(items, ms, n)",
             "-1 <= BI(items, ms, n) and (BI(items, ms, n) < n or (n <= 0 and BI(items, ms, n) == -1)) "
             "and (BI(items, ms, n) != -1 or forall(0, n, lambda j: not elig(items, ms[j]))) "
             "and (BI(items, ms, n) == -1 or is_best(items, ms, n, BI(items, ms, n)))")
    reg.lemma_spec(P, "best-index-meaning/base", vars={"items": ITEMS, "ms": "List[str]"},
                   hints=["BI(items, ms, 0)"], goals=["bi_meaning(items, ms, 0)"])
    reg.lemma_spec(P, "best-index-meaning/step", vars={"items": ITEMS, "ms": "List[str]", "n": "int"},
                   assumes=["0 <= n and n < len(ms)", "bi_meaning(items, ms, n)"],
                   hints=["BI(items, ms, n + 1)", "BI(items, ms, n)"], goals=["bi_meaning(items, ms, n + 1)"])
    reg.contract(
        "werkzeug/datastructures/accept.py:Accept.best_match", prop=P, self_model=Acc,
        params={"matches": "List[str]", "default": "Optional[str]"}, returns="Optional[str]",
        assumes=["forall(0, len(matches), lambda j: fmi_def(self.__list__, matches[j]))"],
        ensures=[
            # the winner index BI (meaning: lemma best-index-meaning) decides: none eligible -> default,
            # otherwise the first offer maximising (quality, specificity) of its best range
            "implies(BI(self.__list__, matches, len(matches)) == -1, result == default)",
            "implies(BI(self.__list__, matches, len(matches)) != -1, "
            "        result == matches[BI(self.__list__, matches, len(matches))])",
        ],
        loops={0: {
            "types": {"result": "Optional[str]", "best_specificity": "Tuple[int]"},
            "hints": ["FMI(self.__list__, matches[_i])", "fmi_def(self.__list__, matches[_i])",
                      "BI(self.__list__, matches, _i + 1)", "BI(self.__list__, matches, _i)"],
            "inv": [
                "-1 <= BI(self.__list__, matches, _i) and BI(self.__list__, matches, _i) < len(matches)",
                "implies(BI(self.__list__, matches, _i) == -1, "
                "        result == default and best_quality == -1 and best_specificity[0] == -1)",
                "implies(BI(self.__list__, matches, _i) != -1, "
                "   result == matches[BI(self.__list__, matches, _i)] and "
                "   best_quality == q_of(self.__list__, matches[BI(self.__list__, matches, _i)]) and best_quality > 0 and "
                "   best_specificity[0] == s_of(self.__list__, matches[BI(self.__list__, matches, _i)]))",
            ],
        }},
    )
    _register_parse_accept(reg)
    _register_accept_init(reg)
    _register_base_matcher(reg)


def _replay_parse_accept(reg, c, inputs):
    """the item list and its options are abstract in the model: replay on the model's text and a corpus of headers"""
    from pyvc import runtime
    fn = runtime.resolve_real("werkzeug/http.py:parse_accept_header")
    nc = runtime.NativeContract(reg, c)
    corpus = [inputs.get("value"), None, "", "a", "a;q=1", "a;q=0", "a;q=-1", "a;q=-0.5", "a;q=2", "a;q=1.5", "a;q=abc", "a;q=",
              "a;q=0.5, b;q=-0.1, c", "a;q=1.000, b;q=01", "a; q = 0.3 ", "a;Q=-1", "a;level=1;q=-3", "*/*;q=-0"]
    for v in corpus:
        fails = nc.check_call(fn, [v], {}, {"value": v})
        if fails:
            return [f"(header text {v!r}) " + f for f in fails]
    return []


def _register_parse_accept(reg):
    """parse_accept_header: every item it hands to the Accept container has a quality inside [0, 1] (items with an
    invalid q are skipped) and nothing escapes (C07)"""
    from pyvc.values import VObj
    Acc = reg.models["AcceptM"] if "AcceptM" in reg.models else None

    def _accept_ctor(interp, cv, args, kwargs, node):
        # Accept(values): the container holds exactly these pairs (its ordering by quality / specificity is the
        # subject of the best_match contracts, where sortedness is a precondition)
        from pyvc.values import VList
        vals = interp.need(args[0]) if args else VList([])
        from pyvc.values import VNone
        if isinstance(vals, VNone):
            vals = VList([])
        return VObj(cv.info, {"__list__": vals})
    reg.constructors["werkzeug/datastructures/accept.py:Accept"] = _accept_ctor
    reg.builtin_spec("items_of", lambda it, a, k, n: it.need(a[0]).fields["__list__"], lambda acc: list(acc))
    reg.contract("werkzeug/http.py:dump_options_header", prop="C17", trusted=True, modifies=[],
                 params={"header": "Optional[str]", "options": "Dict[str, str]"}, returns="str",
                 note="value + options -> header text (C06 bounded tier)")
    reg.contract(
        "werkzeug/http.py:parse_accept_header", prop="C17,C07", params={"value": "Optional[str]"}, modifies=[],
        ensures=["forall(0, len(items_of(result)), lambda i: 0 <= items_of(result)[i][1] and items_of(result)[i][1] <= 1)"],
        raises={}, replay=_replay_parse_accept,
        loops={0: {"types": {"result": "List[Tuple[str, float]]", "item": "str", "q": "float"},
                   "inv": ["forall(0, len(result), lambda i: 0 <= result[i][1] and result[i][1] <= 1)"]}},
    )


def _register_accept_init(reg):
    """Accept.__init__: the container is built sorted by (specificity, quality), best first -- the precondition of the
    first-match contracts above (base case of `sorted_items`)"""
    import ast as _ast
    Acc = reg.models["Accept"]

    def _sorted(it, a, k, n):
        # trusted summary of sorted() at this call site: same number of items; if the key is the (specificity, quality)
        # pair and the order is descending, the result is sorted_items (the key function itself is the trusted
        # _specificity rank); any other key / order: nothing is known about the order
        from pyvc.values import VFunc
        vals = it.need(a[0])
        r = it.fresh(("list", vals.shape), "sorted")
        it.ctx.assume(r.length == vals.length, "sorted():same-length")
        key = k.get("key")
        rev = k.get("reverse")
        key_src = _ast.unparse(key.node) if isinstance(key, VFunc) else ""
        from pyvc.ops import truthy as _t
        import z3 as _z3
        if key_src == "lambda x: (self._specificity(x[0]), x[1])" and rev is not None and _z3.is_true(_z3.simplify(_t(rev))):
            srt = it.sub(True).call(it.reg.spec_names["sorted_items"], [r], {}, n)
            it.ctx.assume(_t(srt), "sorted(key=(specificity, quality), reverse=True):sorted_items")
        return r
    reg.overrides["builtin:sorted"] = _sorted
    reg.contract(
        "werkzeug/datastructures/accept.py:Accept.__init__", prop="C17", self_model=Acc,
        params={"values": "List[Tuple[str, float]]"},
        ensures=["sorted_items(self.__list__)", "len(self.__list__) == len(values)", "self.provided"],
        raises={},
    )


def _register_base_matcher(reg):
    """Accept._value_matches (the matcher of the plain Accept class: codings, and the temporary Accept of LanguageAccept's
    primary-tag fallback) -- the body; the selection contracts above use the abstract matcher: `*` matches everything,
    otherwise matching is equality up to letter case, on BOTH sides"""
    AM = reg.model("AcceptBase", cls="werkzeug/datastructures/accept.py:Accept", fields={})
    reg.contract(
        "werkzeug/datastructures/accept.py:Accept._value_matches#verify", prop="C17", self_model=AM,
        params={"value": "str", "item": "str"}, returns="bool", modifies=[],
        ensures=["implies(item == '*', result)",
                 "implies(item.lower() == value.lower(), result)",
                 "implies(result and item != '*', item.lower() == value.lower())"],
        raises={},
    )
