"""C14 -- untrusted path segments cannot escape the trusted directory (safe_join under normpath axioms)."""


def _replay_secure_filename(reg, c, inputs):
    """the text produced by the NFKD / ascii-ignore / re.sub steps is abstract in the model: replay on the model's
    name and on a corpus of names around the cases the clauses talk about"""
    from pyvc import runtime
    fn = runtime.resolve_real("werkzeug/utils.py:secure_filename")
    nc = runtime.NativeContract(reg, c)
    corpus = [inputs.get("filename", ""), "", "a", "(.a", "a.(", "(_a", "a_(", "._x", "x_.", " .a", "a. ", "../../etc/passwd", "\u00e9.",
              ".\u00e9", "a b", "(_a_)", ".(", ").", "_(.)_", "..", "__", "\u2026a", "a\u2026", "/.a", "a./", "\\_a", "con", "NUL.txt",
              "(.)(_)a(.)(_)", "\x00.a"]
    for v in corpus:
        fails = nc.check_call(fn, [v], {}, {"filename": v})
        if fails:
            return [f"(file name {v!r}) " + f for f in fails]
    return []


def register(reg):
    P = "C14"
    import z3
    from pyvc.values import VStr, VList, VBuiltin, StrS, VBool
    from pyvc.ops import Unsupported

    NORM = z3.Function("posix_normpath", StrS, StrS)

    def _normpath(interp):
        def impl(it, a, k, n):
            s = it.need(a[0])
            r = NORM(s.z)
            # trusted axioms about posixpath.normpath (ground-instantiated at each use):
            # the result of a non-empty input is non-empty
            it.ctx.assume(z3.Implies(z3.Length(s.z) > 0, z3.Length(r) > 0), "normpath:non-empty")
            # absolute iff the input is absolute
            it.ctx.assume(z3.PrefixOf(z3.StringVal("/"), r) == z3.PrefixOf(z3.StringVal("/"), s.z), "normpath:absolute-iff")
            # '..' components survive only as a leading run of a relative result
            it.ctx.assume(z3.Implies(z3.And(z3.Not(z3.PrefixOf(z3.StringVal("/"), r)),
                                            z3.Or(z3.SuffixOf(z3.StringVal("/.."), r), z3.Contains(r, z3.StringVal("/../")))),
                                     z3.PrefixOf(z3.StringVal("../"), r)), "normpath:dotdot-only-leading")
            return VStr(r)
        return VBuiltin("posixpath.normpath", impl)
    reg.overrides["std:posixpath.normpath"] = _normpath

    def _isabs(interp):
        return VBuiltin("os.path.isabs", lambda it, a, k, n: VBool(z3.PrefixOf(z3.StringVal("/"), it.need(a[0]).z)))
    reg.overrides["std:os.path.isabs"] = _isabs
    reg.overrides["std:posixpath.isabs"] = _isabs

    JOIN = z3.Function("posix_join", z3.ArraySort(z3.IntSort(), StrS), z3.IntSort(), StrS)

    def _join(interp):
        def impl(it, a, k, n):
            lst = k.get("__star__")
            if lst is None:
                # a fixed number of arguments: some path text (uninterpreted, folded pairwise)
                JOIN2 = z3.Function("posix_join2", StrS, StrS, StrS)
                r = it.need(a[0]).z
                for x in a[1:]:
                    r = JOIN2(r, it.need(x).z)
                return VStr(r)
            return VStr(JOIN(lst.arrs[0], lst.length))
        return VBuiltin("posixpath.join", impl)
    reg.overrides["std:posixpath.join"] = _join
    reg.overrides["std:os.path.join"] = _join
    # POSIX: no alternative separators (Windows separators are assumed away, as in the property)
    reg.overrides["werkzeug/security.py:_os_alt_seps"] = lambda interp: VList([])

    reg.ufunc("uf_norm", ["str"], "str")

    def _uf_norm_link(interp):
        return None
    # spec-side view of the same function
    from pyvc.values import VBuiltin as _VB
    reg.spec_names["normpath"] = _VB("spec:normpath", lambda it, a, k, n: VStr(NORM((a[0].val if hasattr(a[0], "val") and hasattr(a[0], "isnone") else a[0]).z)))
    reg.spec("np(s)", "'' if s == '' else normpath(s)")
    reg.spec("has_dotdot(f)", "f == '..' or f.startswith('../') or f.endswith('/..') or ('/../' in f)")
    reg.spec("safe_piece(f)", "f == '' or (not f.startswith('/') and not has_dotdot(f))")
    reg.contract(
        "werkzeug/security.py:safe_join", prop=P,
        params={"directory": "str", "pathnames": "List[str]"}, returns="Optional[str]",
        ensures=[
            # a path is produced only if every (normalised) component is relative and has no '..' component at all
            "implies(result is not None, forall(0, len(pathnames), lambda k: safe_piece(np(pathnames[k]))))",
            # and refused only when some component is unsafe
            "implies(result is None, exists(0, len(pathnames), lambda k: not safe_piece(np(pathnames[k]))))",
        ],
        loops={0: {"types": {"parts": "List[str]"},
                   "inv": ["len(parts) == _i + 1",
                           "forall(0, _i, lambda k: safe_piece(np(pathnames[k])) and parts[k + 1] == np(pathnames[k]))"]}},
    )

    # ---- secure_filename: ASCII, no separator / white space, never starts with a dot ------------------
    from pyvc.values import NONE
    reg.overrides["std:unicodedata.normalize"] = lambda interp: VBuiltin(
        "unicodedata.normalize", lambda it, a, k, n: VStr(z3.String(it.ctx.fresh_name("nfkd"))))
    reg.overrides["std:os.sep"] = lambda interp: VStr("/")
    reg.overrides["std:os.name"] = lambda interp: VStr("posix")
    reg.overrides["std:os.path.altsep"] = lambda interp: NONE
    reg.contract(
        "werkzeug/utils.py:secure_filename", prop=P, replay=_replay_secure_filename, params={"filename": "str"}, returns="str", modifies=[],
        ensures=["re_in(result, '[A-Za-z0-9_.-]*')",
                 "not result.startswith('.') and not result.startswith('_')",
                 "not result.endswith('.') and not result.endswith('_')"],
    )

    # ---- SharedDataMiddleware loaders: a file is only ever looked up under a path safe_join approved
    from pyvc.values import VOpaque, opaque_sort
    import z3 as _z3
    reg.overrides["std:os.path.isfile"] = lambda interp: VBuiltin(
        "os.path.isfile", lambda it, a, k, n: VBool(_z3.Bool(it.ctx.fresh_name("isfile"))))
    BASENAME = _z3.Function("path_basename", StrS, StrS)
    reg.overrides["std:os.path.basename"] = lambda interp: VBuiltin(
        "os.path.basename", lambda it, a, k, n: VStr(BASENAME(it.need(a[0]).z)))
    reg.overrides["std:posixpath.basename"] = reg.overrides["std:os.path.basename"]
    SDM = reg.model("SharedData", cls="werkzeug/middleware/shared_data.py:SharedDataMiddleware", fields={})
    reg.spec("approved(path)", "path is None or safe_piece(np(path))")
    reg.contract(
        "werkzeug/middleware/shared_data.py:SharedDataMiddleware.get_directory_loader.loader", prop=P,
        params={"path": "Optional[str]"}, closure={"directory": "str", "self": SDM}, modifies=[],
        ensures=[
            # something is served only for the directory itself or for a request path safe_join let through
            "implies(result[1] is not None, approved(path))",
            "implies(not approved(path), result[0] is None and result[1] is None)",
        ],
        raises={},
    )

    def _open_resource(it, o, n):
        def impl(it2, a, k, n2):
            d = it2.ctx.choose([_z3.BoolVal(True)] * 3, what="open_resource")
            if d == 1:
                it2.raise_("OSError", node=n2)
            if d == 2:
                it2.raise_("ValueError", node=n2)
            return VOpaque(_z3.Const(it2.ctx.fresh_name("resource"), opaque_sort("resource")), "resource")
        return VBuiltin("reader.open_resource", impl)
    reg.overrides["opaque:reader.open_resource"] = _open_resource
    reg.overrides["isinstance:resource"] = lambda it, v, cls: _z3.Bool(it.ctx.fresh_name("is_bytesio"))
    reg.contract(
        "werkzeug/middleware/shared_data.py:SharedDataMiddleware.get_package_loader.loader", prop=P,
        params={"path": "Optional[str]"},
        closure={"package_path": "str", "reader": "opaque:reader", "load_time": "opaque:any"}, modifies=[],
        ensures=[
            "implies(result[1] is not None, path is not None and safe_piece(np(path)))",
            "implies(path is None or not safe_piece(np(path)), result[0] is None and result[1] is None)",
        ],
        raises={},          # OSError / ValueError (embedded NUL) of the resource reader end as "not found"
    )
