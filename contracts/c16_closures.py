"""C16 -- the write-back closures behind the live header views of a response: after every update of a view, the
header is exactly the view's serialisation, or absent when the view is empty."""


class _FakeView:
    """native realiser of the HeaderView model: an object with the emptiness and the serialisation of the model"""

    def __init__(self, nonempty, text):
        self.nonempty, self.text = nonempty, text

    def __bool__(self):
        return self.nonempty

    def to_header(self):
        return self.text


def _mk_replay(view_attr, argname, prop_name=None):
    def replay(reg, c, inputs):
        from pyvc import runtime
        sr = runtime.import_real("werkzeug/sansio/response.py")
        ds = runtime.import_real("werkzeug/datastructures/__init__.py")
        clo = inputs.get("self") or {}
        pairs = [tuple(x["__tuple__"]) if isinstance(x, dict) else tuple(x) for x in clo.get("headers", {}).get("_list", [])]
        arg = inputs.get(argname) or {}
        nc = runtime.NativeContract(reg, c)
        # the model's own headers, then a few header lists around them (bounded native search)
        name = inputs.get("name", prop_name)
        variants = [pairs, [], [(name or "X", "old")] if name else [], pairs + pairs]
        for hl in variants:
            r = sr.Response()
            r.headers = ds.Headers()
            r.headers._list = list(hl)
            if view_attr == "__set_property__":
                prop = sr._set_property(name)
                view = prop.fget(r)
            else:
                view = getattr(r, view_attr)
            closure = view.on_update
            fv = _FakeView(bool(arg.get("nonempty")), arg.get("text", ""))
            names = {"self": r, argname: fv}
            if name is not None:
                names["name"] = name
            fails = nc.check_call(closure, [fv], {}, names)
            if fails:
                return [f"(headers {hl!r}) " + f for f in fails]
        return []
    return replay


def register(reg):
    P = "C16"
    H = reg.models["Headers"]
    # what a closure sees of the view object it is handed: whether it is empty and what it serialises to
    V = reg.model("HeaderView", fields={"nonempty": "bool", "text": "str"})
    reg.contract("model:HeaderView.__bool__", prop=P, trusted=True, param_names=["self"], returns="bool", modifies=[],
                 ensures=["result == self.nonempty"], note="emptiness of the view (dict / set / ContentRange truthiness)")
    reg.contract("model:HeaderView.to_header", prop=P, trusted=True, param_names=["self"], returns="str", modifies=[],
                 ensures=["result == self.text"], note="serialisation of the view (C06: inverse of its parser)")
    R = reg.model("RespHeaders", cls="werkzeug/sansio/response.py:Response", fields={"headers": H})

    def view_closure(key, argname, hname, guarded_delete):
        ens = [
            "I_h(self.headers)",
            # an empty view leaves no header behind, a non-empty one is written back in full
            f"implies(not {argname}.nonempty, not has_key(self.headers, '{hname}'))",
            f"implies({argname}.nonempty, first_is(self.headers, '{hname}', {argname}.text))",
        ]
        raises = {"ValueError": f"{argname}.nonempty and not clean({argname}.text)"}
        if not guarded_delete:
            # `del self.headers[name]` without a presence test: Headers.__delitem__ tolerates an absent key
            pass
        reg.contract(key, prop=P, params={argname: V}, closure={"self": R}, modifies=["self.headers._list"],
                     raise_modifies=[], requires=["I_h(self.headers)"], ensures=ens, raises=raises,
                     replay=_mk_replay(key.split(":")[1].split(".")[1], argname, hname))

    view_closure("werkzeug/sansio/response.py:Response.cache_control.on_update", "cache_control", "Cache-Control", True)
    view_closure("werkzeug/sansio/response.py:Response.content_range.on_update", "rng", "Content-Range", False)
    view_closure("werkzeug/sansio/response.py:Response.content_security_policy.on_update", "csp", "Content-Security-Policy", False)
    view_closure("werkzeug/sansio/response.py:Response.content_security_policy_report_only.on_update", "csp",
                 "Content-Security-Policy-Report-Only", False)

    # the header-set properties (allow, vary, content_language, ...): one closure, parametrised by the header name
    reg.contract(
        "werkzeug/sansio/response.py:_set_property.fget.on_update", prop=P, params={"header_set": V},
        closure={"self": R, "name": "str"}, modifies=["self.headers._list"], raise_modifies=[],
        replay=_mk_replay("__set_property__", "header_set"),
        requires=["I_h(self.headers)"],
        ensures=["I_h(self.headers)",
                 "implies(not header_set.nonempty, not has_key(self.headers, name))",
                 "implies(header_set.nonempty, first_is(self.headers, name, header_set.text))"],
        raises={"ValueError": "header_set.nonempty and not clean(header_set.text)"},
    )
    # assigning a string to such a property stores exactly that string; assigning an empty value removes the header
    reg.contract(
        "werkzeug/sansio/response.py:_set_property.fset", prop=P, params={"self": R, "value": "Optional[str]"},
        closure={"name": "str"}, modifies=["self.headers._list"], raise_modifies=[],
        requires=["I_h(self.headers)"],
        ensures=["I_h(self.headers)",
                 "implies(value is None or value == '', not has_key(self.headers, name))",
                 "implies(value is not None and value != '', first_is(self.headers, name, value))"],
        raises={"ValueError": "value is not None and not clean(value)"},
    )
