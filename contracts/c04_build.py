"""C04 -- rule selection for building: the order in which rules of an endpoint are tried."""


def register(reg):
    P = "C04"
    # only len() of `arguments` (a set) and `defaults` (a dict or None) is used: both are modelled as
    # sequences of unknown content (abstraction stated in the evidence)
    RuleK = reg.model("RuleKey", cls="werkzeug/routing/rules.py:Rule",
                      fields={"alias": "bool", "arguments": "List[str]", "defaults": "Optional[List[str]]"})
    reg.contract(
        "werkzeug/routing/rules.py:Rule.build_compare_key", prop=P, self_model=RuleK, returns="Tuple[int, int, int]",
        ensures=[
            # building prefers: non-alias rules, then rules with more arguments, then rules that carry more
            # defaults (so that the URL built from a match result is the URL that was matched)
            "result[0] == (1 if self.alias else 0)",
            "result[1] == -len(self.arguments)",
            "result[2] == (-len(self.defaults) if self.defaults is not None else 0)",
        ],
    )
