"""C04 -- rule selection for building: the order in which rules of an endpoint are tried."""


def register(reg):
    P = "C04"
    # only len() of `arguments` (a set) and `defaults` (a dict or None) is used: both are modelled as
    # sequences of unknown content (abstraction stated in the evidence)
    RuleK = reg.model("RuleKey", cls="werkzeug/routing/rules.py:Rule",
                      fields={"alias": "bool", "arguments": "List[str]", "defaults": "Optional[List[str]]"})
    reg.contract(
        "werkzeug/routing/rules.py:Rule.build_compare_key", prop=P, self_model=RuleK, returns="Tuple[int, int, int]",
        ensures=[
            # building prefers: non-alias rules, then rules with more arguments, then rules that carry more
            # defaults (so that the URL built from a match result is the URL that was matched)
            "result[0] == (1 if self.alias else 0)",
            "result[1] == -len(self.arguments)",
            "result[2] == (-len(self.defaults) if self.defaults is not None else 0)",
        ],
    )

    # ---- the integer converter: to_url and to_python are inverse on the converter's domain
    IntC = reg.model("IntegerConverter", cls="werkzeug/routing/converters.py:IntegerConverter",
                     fields={"fixed_digits": "int", "min": "Optional[int]", "max": "Optional[int]", "signed": "bool"})
    reg.spec("in_range(self, n)", "(self.min is None or n >= self.min) and (self.max is None or n <= self.max)")
    reg.contract(
        "werkzeug/routing/converters.py:NumberConverter.to_url", prop=P, self_model=IntC, replay="method", params={"value": "int"}, returns="str",
        modifies=[], assumes=["self.fixed_digits >= 0"],
        ensures=[
            # the text denotes the number, is a plain decimal literal, and is padded to the fixed width
            "str_to_int(result) == value", "re_in(result, '-?[0-9]+')",
            "implies(self.fixed_digits > 0, len(result) >= self.fixed_digits)",
            "implies(self.fixed_digits > 0 and len(str(value)) <= self.fixed_digits, len(result) == self.fixed_digits)",
            "implies(self.fixed_digits == 0, result == str(value))",
        ],
        raises={},
    )
    reg.contract(
        "werkzeug/routing/converters.py:NumberConverter.to_python", prop=P, self_model=IntC, replay="method", params={"value": "str"}, returns="int",
        modifies=[],
        # what the rule's regex lets through: an optional minus sign and digits (not more than int() accepts)
        assumes=["re_in(value, '-?[0-9]+')", "len(value) <= int_max_digits()"],
        ensures=["result == str_to_int(value)", "in_range(self, result)",
                 "self.fixed_digits == 0 or len(value) == self.fixed_digits"],
        raises={"ValidationError": "(self.fixed_digits != 0 and len(value) != self.fixed_digits) or not in_range(self, str_to_int(value))"},
    )
    # the inverse law over the two contracts: matching what was built gives the value back (or the converter
    # refuses it, exactly when it is outside the range / wider than the fixed width)
    reg.lemma_spec(P, "int-converter-roundtrip", vars={"self": IntC, "v": "int", "u": "str"},
                   assumes=["str_to_int(u) == v", "self.fixed_digits == 0 or len(u) == self.fixed_digits", "in_range(self, v)"],
                   goals=["not ((self.fixed_digits != 0 and len(u) != self.fixed_digits) or not in_range(self, str_to_int(u)))",
                          "str_to_int(u) == v"])

    # ---- copying a rule (Submount / Subdomain / EndpointPrefix factories re-create rules through empty()): the copy is
    # configured exactly like the original -- every constructor option is carried over
    RuleCfg = reg.model("RuleCfg", cls="werkzeug/routing/rules.py:Rule",
                        fields={"defaults": "Optional[Dict[str, str]]", "subdomain": "Optional[str]", "methods": "Optional[Set[str]]",
                                "build_only": "bool", "endpoint": "opaque:any", "strict_slashes": "Optional[bool]",
                                "redirect_to": "Optional[str]", "alias": "bool", "host": "Optional[str]"})
    reg.contract(
        "werkzeug/routing/rules.py:Rule.get_empty_kwargs", prop=P, self_model=RuleCfg, modifies=[],
        ensures=[
            "result['subdomain'] == self.subdomain", "result['host'] == self.host", "result['methods'] == self.methods",
            "result['build_only'] == self.build_only", "result['endpoint'] == self.endpoint",
            "result['strict_slashes'] == self.strict_slashes", "result['redirect_to'] == self.redirect_to",
            "result['alias'] == self.alias",
            "'defaults' in result and len(result) == 9",
        ],
        raises={},
    )

    # ---- the default (string / path) converter: what is built is read back by the server as the same text
    BaseC = reg.model("BaseConverter", cls="werkzeug/routing/converters.py:BaseConverter", fields={})

    def _replay_to_url(reg_, c, inputs):
        from pyvc import runtime
        conv = runtime.import_real("werkzeug/routing/converters.py")
        nc = runtime.NativeContract(reg_, c)
        obj = object.__new__(conv.UnicodeConverter)
        for v in [inputs.get("value", ""), "", "a b", "50%", "50%25 off", "%41", "x?y", "a/b", "é", "a;b", "100%%"]:
            fails = nc.check_call(obj.to_url, [v], {}, {"self": obj, "value": v})
            if fails:
                return [f"(value {v!r}) " + f for f in fails]
        return []
    reg.contract(
        "werkzeug/routing/converters.py:BaseConverter.to_url", prop=P, self_model=BaseC, params={"value": "str"}, returns="str",
        modifies=[], replay=_replay_to_url,
        ensures=["uf_unquote(result) == value"],
        raises={},
    )
    _register_suitable_for(reg)


def _register_suitable_for(reg):
    """Rule.suitable_for: a rule is used for building (and for the defaults redirect) exactly when the method fits, every
    argument of the rule is supplied by its defaults or by the values, and no value contradicts a default -- `0`, `''` and
    other falsy values are values like any other"""
    RS = reg.model("RuleSuit", cls="werkzeug/routing/rules.py:Rule",
                   fields={"methods": "Optional[Set[str]]", "defaults": "Dict[str, int]", "arguments": "List[str]"})
    # (a rule without defaults carries None; `self.defaults or ()` treats None and the empty dict alike -- modelled: a dict)
    reg.spec("dflt_has(self, k)", "k in self.defaults")
    reg.spec("suit_spec(self, values, method)",
             "(method is None or self.methods is None or method in self.methods) and "
             "forall(0, len(self.arguments), lambda i: dflt_has(self, self.arguments[i]) or self.arguments[i] in values) and "
             "forall_s(lambda k: implies(dflt_has(self, k) and k in values, self.defaults[k] == values[k]))")
    reg.contract(
        "werkzeug/routing/rules.py:Rule.suitable_for", prop="C04,C12", self_model=RS,
        params={"values": "Dict[str, int]", "method": "Optional[str]"}, returns="bool", modifies=[],
        ensures=["result == suit_spec(self, values, method)"],
        raises={},
        loops={0: {"inv": ["forall(0, _i, lambda i: dflt_has(self, self.arguments[i]) or self.arguments[i] in values)"]},
               # (ghost_dict_key(j): the j-th key of the iteration over defaults.items() -- a trusted enumeration of the dict)
               1: {"inv": ["forall(0, len(self.arguments), lambda i: dflt_has(self, self.arguments[i]) or self.arguments[i] in values)",
                           "forall(0, _i, lambda j: not (ghost_dict_key(j) in values and "
                           "       self.defaults[ghost_dict_key(j)] != values[ghost_dict_key(j)]))"]}},
    )
