"""C10 -- configured form limits are enforced and are pure guards."""
import ast


def _pure(e):
    """side-effect free test expression: names, attributes, constants, comparisons, boolean ops, len()"""
    for n in ast.walk(e):
        if isinstance(n, ast.Call):
            if not (isinstance(n.func, ast.Name) and n.func.id in ("len", "isinstance")):
                return False
        elif isinstance(n, (ast.NamedExpr, ast.Await, ast.Yield, ast.YieldFrom, ast.Lambda)):
            return False
    return True


def _raises_413(st):
    return (isinstance(st, ast.Raise) and isinstance(st.exc, ast.Call) and isinstance(st.exc.func, ast.Name)
            and st.exc.func.id == "RequestEntityTooLarge")


def _guards(fn):
    """all `if <test>: raise RequestEntityTooLarge()` statements of a function"""
    out = []
    for n in ast.walk(fn):
        if isinstance(n, ast.If) and any(_raises_413(s) for s in n.body):
            out.append(n)
    return out


def register(reg):
    P = "C10"
    from pyvc.extract import ModuleInfo

    MD = reg.model("MultipartDecoder", cls="werkzeug/sansio/multipart.py:MultipartDecoder",
                   fields={"buffer": "bytearray", "max_form_memory_size": "Optional[int]", "complete": "bool"})
    reg.contract(
        "werkzeug/sansio/multipart.py:MultipartDecoder.receive_data", prop=P, self_model=MD,
        params={"data": "Optional[bytes]"},
        ensures=[
            # the buffer never holds more than the limit after a receive
            "implies(data is not None, self.buffer == old(self.buffer) + data)",
            "implies(data is None, self.complete and self.buffer == old(self.buffer))",
            "implies(self.max_form_memory_size is not None and data is not None, len(self.buffer) <= self.max_form_memory_size)",
        ],
        raises={"RequestEntityTooLarge": "self.max_form_memory_size is not None and data is not None and "
                                         "len(old(self.buffer)) + len(data) > self.max_form_memory_size"},
        raises_ensures={"RequestEntityTooLarge": ["self.buffer == old(self.buffer)"]},
    )

    @reg.static(P, "limit-checks-are-pure-guards")
    def _purity():
        res = []
        targets = [("werkzeug/sansio/multipart.py", "MultipartDecoder", "receive_data"),
                   ("werkzeug/sansio/multipart.py", "MultipartDecoder", "next_event"),
                   ("werkzeug/formparser.py", "MultiPartParser", "parse"),
                   ("werkzeug/formparser.py", "FormDataParser", "_parse_urlencoded")]
        total = 0
        for rel, cls, meth in targets:
            fn = ModuleInfo.get(rel).classes[cls].methods[meth][-1]
            gs = _guards(fn)
            total += len(gs)
            for g in gs:
                ok = _pure(g.test) and len(g.body) == 1 and _raises_413(g.body[0]) and not g.orelse or \
                    (_pure(g.test) and len(g.body) == 1 and _raises_413(g.body[0]))
                res.append((f"{cls}.{meth}/guard@{ast.unparse(g.test)[:50]}", bool(ok),
                            "limit test is an effect-free expression whose only controlled statement raises RequestEntityTooLarge"))
        res.append(("guards-found", total >= 4, f"{total} limit guards analysed (receive_data, max_parts, field_size, urlencoded)"))
        # guard-only variables are read nowhere else
        fn = ModuleInfo.get("werkzeug/formparser.py").classes["MultiPartParser"].methods["parse"][-1]
        reads = [n for n in ast.walk(fn) if isinstance(n, ast.Name) and n.id == "field_size" and isinstance(n.ctx, ast.Load)]
        guard_reads = []
        for g in _guards(fn):
            guard_reads += [n for n in ast.walk(g.test) if isinstance(n, ast.Name) and n.id == "field_size"]
        outer = [n for n in ast.walk(fn) if isinstance(n, ast.If) and any(g in ast.walk(n) for g in _guards(fn)) and n not in _guards(fn)]
        outer_reads = []
        for o in outer:
            outer_reads += [n for n in ast.walk(o.test) if isinstance(n, ast.Name) and n.id == "field_size"]
        other = [n for n in reads if n not in guard_reads and n not in outer_reads
                 and not any(isinstance(p, ast.AugAssign) and p.target is n for p in ast.walk(fn))]
        res.append(("field_size-read-only-by-its-guard", not other, f"other reads of field_size at lines {[n.lineno for n in other]}"))
        dec = ModuleInfo.get("werkzeug/sansio/multipart.py").classes["MultipartDecoder"]
        uses = []
        for name, fns in dec.methods.items():
            for n in ast.walk(fns[-1]):
                if isinstance(n, ast.Attribute) and n.attr == "_parts_decoded" and isinstance(n.ctx, ast.Load):
                    uses.append((name, n.lineno))
        res.append(("_parts_decoded-read-only-by-its-guard", all(u[0] == "next_event" for u in uses) and len(uses) <= 2,
                    f"reads of _parts_decoded: {uses}"))
        return res

    @reg.static(P, "field-size-accounting-order")
    def _order():
        """in MultiPartParser.parse: every Data event is counted, then checked, then stored"""
        fn = ModuleInfo.get("werkzeug/formparser.py").classes["MultiPartParser"].methods["parse"][-1]
        res = []
        found = False
        for n in ast.walk(fn):
            if isinstance(n, ast.If) and any(isinstance(x, ast.Name) and x.id == "field_size" for x in ast.walk(n.test)) \
                    and any(isinstance(s, ast.AugAssign) for s in n.body):
                found = True
                body = n.body
                srcs = [ast.unparse(s) for s in body]
                ok = (len(body) == 2 and srcs[0] == "field_size += len(event.data)" and isinstance(body[1], ast.If)
                      and ast.unparse(body[1].test) == "field_size > self.max_form_memory_size"
                      and len(body[1].body) == 1 and _raises_413(body[1].body[0]))
                res.append(("count-then-check", ok, f"statements under the limit test: {srcs}"))
                # the write of the data comes after this block in the same branch
                parent = None
                for p in ast.walk(fn):
                    for fld in ("body", "orelse"):
                        seq = getattr(p, fld, None)
                        if isinstance(seq, list) and n in seq:
                            parent = seq
                if parent is not None:
                    i = parent.index(n)
                    later = [ast.unparse(s) for s in parent[i + 1:]]
                    earlier = [ast.unparse(s) for s in parent[:i]]
                    res.append(("store-after-check", "_write(event.data)" in later and "_write(event.data)" not in earlier,
                                f"before: {earlier} after: {later[:2]}"))
        res.append(("accounting-block-found", found, "if self.max_form_memory_size is not None and field_size is not None: ..."))
        # a new field resets the counter, a file disables it
        src = ast.unparse(fn)
        res.append(("field-resets-counter", "field_size = 0" in src and "field_size = None" in src, "field_size = 0 / None per part kind"))
        return res

    @reg.table(P, "request-level-default-limits")
    def _defaults():
        req = ModuleInfo.get("werkzeug/wrappers/request.py").classes["Request"]
        vals = {k: ast.unparse(v) for k, v in req.attrs.items() if k in ("max_form_memory_size", "max_form_parts", "max_content_length")}
        return [("defaults", vals.get("max_form_memory_size") == "500000" and vals.get("max_form_parts") == "1000", str(vals))]

    # ---- urlencoded forms: the declared length is checked before anything is read -----------------------------
    from pyvc.values import VBuiltin, VObj
    St = reg.model("BodyStream", fields={"nread": "int", "last": "bytes"})     # last (ghost): what the last read() returned
    reg.contract("model:BodyStream.read", prop=P, trusted=True, param_names=["self"], returns="bytes",
                 modifies=["self.nread", "self.last"], ensures=["self.nread == old(self.nread) + 1", "result == self.last"])
    import z3 as _z3
    from pyvc.values import VOpaque, opaque_sort, StrS as _StrS, BoolS as _BoolS
    from pyvc.ops import truthy as _truthy
    PQSL = _z3.Function("parse_qsl", _StrS, _BoolS, _StrS, opaque_sort("pairs"))       # (text, keep_blank_values, errors)
    MD_OF = _z3.Function("multidict_of", opaque_sort("pairs"), opaque_sort("multidict"))

    def _parse_qsl(it, a, k, n):
        text = it.need(a[0])
        keep = _truthy(it.need(k["keep_blank_values"])) if "keep_blank_values" in k else _z3.BoolVal(False)
        errors = it.need(k["errors"]).z if "errors" in k else _z3.StringVal("replace")
        return VOpaque(PQSL(text.z, keep, errors), "pairs")
    reg.overrides["std:urllib.parse.parse_qsl"] = lambda interp: VBuiltin("urllib.parse.parse_qsl", _parse_qsl)
    reg.builtin_spec("form_of", lambda it, a, k, n: VOpaque(MD_OF(PQSL(a[0].z, _z3.BoolVal(True), _z3.StringVal("werkzeug.url_quote"))),
                                                            "multidict"), None)
    FP = reg.model("FormDataParser", cls="werkzeug/formparser.py:FormDataParser",
                   fields={"max_form_memory_size": "Optional[int]", "cls": "opaque:multidict_class"})
    reg.overrides["call:multidict_class"] = lambda it, fv, a, k, n: (
        VOpaque(MD_OF(a[0].z), "multidict") if a and isinstance(a[0], VOpaque) and a[0].kind == "pairs" else it.fresh("opaque:multidict", "md"))
    reg.contract(
        "werkzeug/formparser.py:FormDataParser._parse_urlencoded", prop="C10,C02", self_model=FP,
        params={"stream": St, "mimetype": "str", "content_length": "Optional[int]", "options": "opaque:options"},
        ensures=["not (self.max_form_memory_size is not None and content_length is not None and "
                 "     content_length > self.max_form_memory_size)",
                 "result[0] is stream",
                 # C02: the form is every key=value pair of the (decoded) body, fields with an empty value included
                 "result[1] == form_of(stream.last.decode())"],
        raises={"RequestEntityTooLarge": "self.max_form_memory_size is not None and content_length is not None and "
                                         "content_length > self.max_form_memory_size",
                "UnicodeDecodeError": "True"},
        raises_ensures={"RequestEntityTooLarge": ["stream.nread == old(stream.nread)"]},
    )
    _register_parse_multipart(reg)


def _register_parse_multipart(reg):
    """FormDataParser._parse_multipart: the multipart parser that does the work is configured with exactly this form
    parser's limits -- whatever Content-Length the request declares (the declared length is client-controlled and, on a
    terminated stream, says nothing about how much will be read) -- and an empty boundary is refused before anything is read.
    MultiPartParser.__init__ is executed from its own source (no stub)."""
    MPM = reg.model("MultiPartParserM", cls="werkzeug/formparser.py:MultiPartParser",
                    fields={"max_form_memory_size": "Optional[int]", "max_form_parts": "Optional[int]", "buffer_size": "int",
                            "stream_factory": "opaque:stream_factory", "cls": "opaque:multidict_class",
                            # ghost: how often parse() ran and what it was given
                            "g_parsed": "int", "g_boundary": "bytes", "g_clen": "Optional[int]"})
    St = reg.models["BodyStream"]
    reg.contract("werkzeug/formparser.py:MultiPartParser.parse", prop="C10", trusted=True, self_model=MPM,
                 params={"stream": St, "boundary": "bytes", "content_length": "Optional[int]"},
                 returns="Tuple[opaque:multidict, opaque:multidict]",
                 modifies=["self.g_parsed", "self.g_boundary", "self.g_clen", "stream.nread", "stream.last"],
                 ensures=["self.g_parsed == old(self.g_parsed) + 1", "self.g_boundary == boundary", "self.g_clen == content_length"],
                 note="call-site summary of the parse loop (its limits: static obligations above + MultipartDecoder contracts)")
    FPM = reg.model("FormDataParserMP", cls="werkzeug/formparser.py:FormDataParser",
                    fields={"max_form_memory_size": "Optional[int]", "max_form_parts": "Optional[int]",
                            "stream_factory": "opaque:stream_factory", "cls": "opaque:multidict_class",
                            "g_parser": ("opt", ("obj", MPM))})
    reg.contract(
        "werkzeug/formparser.py:FormDataParser._parse_multipart", prop="C10", self_model=FPM,
        params={"stream": St, "mimetype": "str", "content_length": "Optional[int]", "options": "Dict[str, str]"},
        inline_callees=["werkzeug/formparser.py:MultiPartParser.__init__"],
        assumes=["self.g_parser is None"],
        ghost_after={"parser = MultiPartParser(...": ["parser.g_parsed = 0", "parser.g_boundary = b''", "parser.g_clen = None"],
                     "form, files = parser.parse(stream, boundary, content_length)": ["self.g_parser = parser"]},
        ensures=[
            "result[0] is stream",
            # the parser that ran carries this form parser's limits, independent of the declared length
            "self.g_parser is not None and self.g_parser.g_parsed == 1",
            "self.g_parser.max_form_memory_size == self.max_form_memory_size",
            "self.g_parser.max_form_parts == self.max_form_parts",
            "self.g_parser.g_clen == content_length",
            "self.g_parser.g_boundary == options.get('boundary').encode('ascii') and len(self.g_parser.g_boundary) > 0",
        ],
        # (UnicodeEncodeError is a ValueError: a boundary parameter that is not ASCII)
        raises={"ValueError": "options.get('boundary') is None or len(options.get('boundary')) == 0 or "
                              "not re_in(options.get('boundary'), '[\\x00-\\x7f]*')"},
        raises_ensures={"ValueError": ["stream.nread == old(stream.nread)"]},
    )
