"""C15 -- path-dispatching middleware preserves SCRIPT_NAME + PATH_INFO and picks the longest matching mount."""


def register(reg):
    P = "C15"
    DM = reg.model("DispatcherMiddleware", cls="werkzeug/middleware/dispatcher.py:DispatcherMiddleware",
                   fields={"mounts": "Dict[str, opaque:wsgiapp]", "app": "opaque:wsgiapp"})
    reg.spec("bprefix(p, whole)", "whole == p or whole.startswith(p + '/')")
    reg.contract(
        "werkzeug/middleware/dispatcher.py:DispatcherMiddleware.__call__", prop=P, self_model=DM,
        params={"environ": {"PATH_INFO": "str", "SCRIPT_NAME": "str"}, "start_response": "opaque:start_response"},
        ensures=[
            # the concatenation of script name and path info is preserved
            "environ['SCRIPT_NAME'] + environ['PATH_INFO'] == old(environ['SCRIPT_NAME']) + old(environ['PATH_INFO'])",
            "environ['SCRIPT_NAME'].startswith(old(environ['SCRIPT_NAME']))",
            "environ['PATH_INFO'] == '' or environ['PATH_INFO'].startswith('/')",
            # (longest matching mount: the inductive step needs string reasoning under a quantifier that
            #  neither solver decides -- left to the bounded tier, see DESIGN.md)
        ],
        loops={0: {"inv": ["script + path_info == old(environ['PATH_INFO'])",
                           "path_info == '' or path_info.startswith('/')",
                           "environ['PATH_INFO'] == old(environ['PATH_INFO']) and environ['SCRIPT_NAME'] == old(environ['SCRIPT_NAME'])"],
                   "decreases": "len(script)"}},
    )
