"""C15 -- path-dispatching middleware preserves SCRIPT_NAME + PATH_INFO and picks the longest matching mount."""


def register(reg):
    P = "C15"
    DM = reg.model("DispatcherMiddleware", cls="werkzeug/middleware/dispatcher.py:DispatcherMiddleware",
                   fields={"mounts": "Dict[str, opaque:wsgiapp]", "app": "opaque:wsgiapp"})
    reg.spec("bprefix(p, whole)", "whole == p or whole.startswith(p + '/')")
    reg.contract(
        "werkzeug/middleware/dispatcher.py:DispatcherMiddleware.__call__", prop=P, self_model=DM,
        params={"environ": {"PATH_INFO": "str", "SCRIPT_NAME": "str"}, "start_response": "opaque:start_response"},
        ensures=[
            # the concatenation of script name and path info is preserved
            "environ['SCRIPT_NAME'] + environ['PATH_INFO'] == old(environ['SCRIPT_NAME']) + old(environ['PATH_INFO'])",
            "environ['SCRIPT_NAME'].startswith(old(environ['SCRIPT_NAME']))",
            "environ['PATH_INFO'] == '' or environ['PATH_INFO'].startswith('/')",
            # (longest matching mount: the inductive step needs string reasoning under a quantifier that
            #  neither solver decides -- left to the bounded tier, see DESIGN.md)
        ],
        loops={0: {"inv": ["script + path_info == old(environ['PATH_INFO'])",
                           "path_info == '' or path_info.startswith('/')",
                           "environ['PATH_INFO'] == old(environ['PATH_INFO']) and environ['SCRIPT_NAME'] == old(environ['SCRIPT_NAME'])"],
                   "decreases": "len(script)"}},
    )

    # ---- URL reconstruction: which parts are included (quote / uri_to_iri abstract) --------------------------
    import z3
    from pyvc.values import VStr, VBuiltin, StrS
    from pyvc.ops import concrete_str
    QUOTE = z3.Function("urllib_quote", StrS, StrS, StrS)     # (text, safe set)
    UNQUOTE = z3.Function("urllib_unquote", StrS, StrS)
    from urllib.parse import unquote as _native_unquote
    reg.builtin_spec("uf_unquote", lambda it, a, k, n: VStr(UNQUOTE(a[0].z)), _native_unquote)

    def _quote(interp):
        def impl(it, a, k, n):
            s = it.need(a[0])
            safe = concrete_str(it.need(k.get("safe", a[1] if len(a) > 1 else VStr("/"))).z)
            r = QUOTE(s.z, z3.StringVal(safe))
            if "%" not in safe:
                # percent-encoding with '%' itself encoded is undone by unquote (trusted fact about urllib); with '%'
                # in the safe set a literal '%41' in the text would be read back as 'A'
                it.ctx.assume(UNQUOTE(r) == s.z, "urllib:unquote-inverts-quote-when-%-is-encoded")
            return VStr(r)
        return VBuiltin("urllib.parse.quote", impl)
    reg.overrides["std:urllib.parse.quote"] = _quote
    reg.spec_names["quote"] = VBuiltin("spec:quote", lambda it, a, k, n: VStr(QUOTE((a[0].val if hasattr(a[0], "val") else a[0]).z, a[1].z)))
    reg.ufunc("uf_uri_to_iri", ["str"], "str")
    reg.contract("werkzeug/urls.py:uri_to_iri", prop=P, trusted=True, params={"uri": "str"}, returns="str",
                 ensures=["result == uf_uri_to_iri(uri)"], note="IRI/URI laws themselves: bounded tier")
    PS = "!$&'()*+,/:;=@%"
    QS = "!$&'()*+,/:;=?@%"
    reg.contract(
        "werkzeug/sansio/utils.py:get_current_url", prop=P,
        params={"scheme": "str", "host": "str", "root_path": "Optional[str]", "path": "Optional[str]",
                "query_string": "Optional[bytes]"}, returns="str",
        ensures=[
            "implies(root_path is None, result == uf_uri_to_iri(scheme + '://' + host + '/'))",
            f"implies(root_path is not None and path is None, "
            f"        result == uf_uri_to_iri(scheme + '://' + host + quote(root_path.rstrip('/'), \"{PS}\") + '/'))",
            f"implies(root_path is not None and path is not None and (query_string is None or len(query_string) == 0), "
            f"        result == uf_uri_to_iri(scheme + '://' + host + quote(root_path.rstrip('/'), \"{PS}\") + '/' + "
            f"                                quote(path.lstrip('/'), \"{PS}\")))",
            f"implies(root_path is not None and path is not None and query_string is not None and len(query_string) > 0, "
            f"        result == uf_uri_to_iri(scheme + '://' + host + quote(root_path.rstrip('/'), \"{PS}\") + '/' + "
            f"                                quote(path.lstrip('/'), \"{PS}\") + '?' + quote(query_string, \"{QS}\")))",
        ],
        raises={},
    )
    _register_dances(reg)


def _register_dances(reg):
    """the two WSGI string 'dances' (PEP 3333: environ text is bytes read as latin-1): encoding then decoding gives the
    text back; decoding never fails on a WSGI string"""
    P = "C15,C07"
    reg.spec("is_latin1(s)", "re_in(s, '[\\\\x00-\\\\xff]*')")
    reg.contract(
        "werkzeug/_internal.py:_wsgi_encoding_dance", prop=P, params={"s": "str"}, returns="str", modifies=[], replay="pure",
        ensures=["is_latin1(result)",
                 # reading the result the way a WSGI server's string is read gives the original text back
                 "result.encode('latin1').decode(errors='replace') == s"],
        raises={"UnicodeEncodeError": "True"},      # text that is not encodable at all (a lone surrogate)
    )
    reg.contract(
        "werkzeug/_internal.py:_wsgi_decoding_dance", prop=P, params={"s": "str"}, returns="str", modifies=[], replay="pure",
        assumes=["is_latin1(s)"],                     # what PEP 3333 guarantees of environ strings
        ensures=["True"], raises={},                 # total: undecodable bytes are replaced, never an exception
    )
