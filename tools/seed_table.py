#!/usr/bin/env python3
"""Run every seeded mutant against its property's quick check (scratch copy of /repo, removed afterwards) and
write seeded/RESULTS.md: which obligations / bounded checks report it."""
import glob
import json
import os
import re
import shutil
import subprocess
import sys
import tempfile

HERE = os.path.dirname(os.path.dirname(os.path.abspath(__file__)))
os.chdir(HERE)
# usage: seed_table.py [Cxx | Cxx-k ...]            run (a subset) and write seeded/RESULTS.md
#        seed_table.py --shard k/n --out f.json      run every n-th seed starting at k, write the rows to f.json
#        seed_table.py --merge f1.json f2.json ...   write seeded/RESULTS.md from shard files
args = sys.argv[1:]
shard = None
out_json = None
merge = None
if args and args[0] == "--merge":
    merge, args = args[1:], []
if "--shard" in args:
    i = args.index("--shard")
    shard = tuple(int(x) for x in args[i + 1].split("/"))
    del args[i:i + 2]
if "--out" in args:
    i = args.index("--out")
    out_json = args[i + 1]
    del args[i:i + 2]
only = args
rows = []
if merge is not None:
    for f in merge:
        rows += [tuple(r) for r in json.load(open(f))]
    rows.sort()
seeds = [] if merge is not None else sorted(glob.glob("seeded/*/"))
if shard is not None:
    seeds = [d for j, d in enumerate(seeds) if j % shard[1] == shard[0]]
for d in seeds:
    name = os.path.basename(d.rstrip("/"))
    prop = name.split("-")[0]
    if only and prop not in only and name not in only:
        continue
    tmp = tempfile.mkdtemp(prefix="seedtab.")
    try:
        subprocess.run(["rsync", "-a", "--exclude", ".git", "--exclude", "__pycache__", "--exclude", "docs", "--exclude", "tests",
                        "/repo/", tmp + "/repo/"], check=True)
        subprocess.run(["patch", "-p1", "-s", "-i", os.path.abspath(d + "patch.diff")], cwd=tmp + "/repo", check=True)
        for f in glob.glob("replays/*.json"):
            os.remove(f)
        env = dict(os.environ, VERIF_REPO=tmp + "/repo")
        p = subprocess.run(["./check", prop], env=env, capture_output=True, text=True)
        proved, bounded = set(), set()
        for line in p.stdout.splitlines():
            m = re.match(r"VIOLATION property=\S+ replay=(\S+)", line)
            if m and os.path.exists(m.group(1)):
                ob = json.load(open(m.group(1))).get("obligation", "")
                if ob.startswith("bounded:"):
                    bounded.add(ob[len("bounded:"):])
                else:
                    proved.add(ob.split("/", 1)[-1] if ":" not in ob.split("/")[0] else ob.split(":", 1)[1])
        und = sum(1 for line in p.stdout.splitlines() if line.startswith("UNDECIDED"))
        rows.append((name, p.returncode, sorted(proved), sorted(bounded), und))
        print(name, p.returncode, len(proved), len(bounded), und, flush=True)
    finally:
        shutil.rmtree(tmp, ignore_errors=True)
if out_json is not None:
    json.dump(rows, open(out_json, "w"))
    print("written", out_json)
    sys.exit(0)
meta = {}
for d in sorted(glob.glob("seeded/*/")):
    try:
        meta[os.path.basename(d.rstrip("/"))] = json.load(open(d + "meta.json")).get("summary", "")
    except Exception:  # noqa: BLE001
        pass
with open("seeded/RESULTS.md", "w") as f:
    f.write("# Seeded property-breaking changes vs. the quick checks\n\n"
            "Produced by `tools/seed_table.py` (each patch applied to a scratch copy of /repo, `./check <Cxx>` run with "
            "VERIF_REPO pointing at it, copy removed).  exit 1 = reported.\n\n"
            "| seed | exit | proved-tier obligations that fail (first few) | bounded checks that fail (first few) | undecided | what the change is |\n"
            "|---|---|---|---|---|---|\n")
    for name, rc, pr, bd, und in rows:
        f.write(f"| {name} | {rc} | {'; '.join(pr[:3]) or '-'} | {'; '.join(bd[:3]) or '-'} | {und} | {meta.get(name, '')[:160]} |\n")
print("written seeded/RESULTS.md")
