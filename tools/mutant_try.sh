#!/bin/sh
# usage: tools/mutant_try.sh <patch-file | -e 'sed-expr' file> -- <check args...>
# Copies /repo (working tree, no .git) to a scratch dir, applies the change there,
# runs ./check with VERIF_REPO pointing at it, removes the copy.
set -e
HERE="$(cd "$(dirname "$0")/.." && pwd)"
D=$(mktemp -d /tmp/mut.XXXXXX)
trap 'rm -rf "$D"' EXIT
mkdir -p "$D/repo"
rsync -a --exclude .git --exclude '__pycache__' --exclude docs --exclude tests /repo/ "$D/repo/"
if [ "$1" = "-e" ]; then
  sed -i -e "$2" "$D/repo/$3"; shift 3
  if cmp -s "$D/repo/$3" "/repo/$3" 2>/dev/null; then :; fi
else
  P=$(realpath "$1"); (cd "$D/repo" && patch -p1 -s < "$P"); shift 1
fi
[ "$1" = "--" ] && shift
(cd "$D/repo" && diff -ru /repo/src src | head -30) || true
cd "$HERE"
set +e
VERIF_REPO="$D/repo" ./check "$@"
echo "exit=$?"
