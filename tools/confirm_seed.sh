#!/bin/sh
# tools/confirm_seed.sh <Cxx> <k>: confirm an agent-written mutant in a fresh scratch worktree, then keep it
# under seeded/<Cxx>-<k>/ (patch.diff, demo.py, meta.json).  The scratch worktree is removed afterwards.
set -u
ID=$1; K=$2
SRC=${SEED_SRC:-/tmp/seed_out}/$ID
W=$(mktemp -d /tmp/confirm.XXXXXX)
git -C /repo worktree add -q --detach "$W/wt" HEAD || exit 2
cleanup() { git -C /repo worktree remove --force "$W/wt" 2>/dev/null; rm -rf "$W"; }
trap cleanup EXIT
cd "$W/wt" || exit 2
run_demo() { PYTHONPATH="$W/wt/src" timeout 120 /venv/bin/python "$SRC/demo$K.py" >"$W/demo.out" 2>&1; }
run_demo; CLEAN=$?
git apply "$SRC/patch$K.diff" || { echo "$ID-$K: patch does not apply"; exit 1; }
run_demo; MUT=$?
tail -2 "$W/demo.out" > "$W/demo_mut_tail.txt"
PYTHONPATH="$W/wt/src" timeout 900 /venv/bin/python -m pytest -q -p no:cacheprovider -x tests >"$W/suite.out" 2>&1; SUITE=$?
echo "$ID-$K: demo clean=$CLEAN mutant=$MUT suite=$SUITE ($(tail -1 "$W/suite.out"))"
if [ "$CLEAN" = 0 ] && [ "$MUT" != 0 ] && [ "$SUITE" = 0 ]; then
  D=/verif/seeded/$ID-${SEED_DEST_K:-$K}
  mkdir -p "$D"
  cp "$SRC/patch$K.diff" "$D/patch.diff"; cp "$SRC/demo$K.py" "$D/demo.py"
  /venv/bin/python - "$SRC/meta$K.json" "$D/meta.json" "$(cat "$W/demo_mut_tail.txt")" "$(tail -1 "$W/suite.out")" <<'PY'
import json, sys
m = json.load(open(sys.argv[1]))
m["confirmed"] = {"demo_on_clean_tree": "exit 0", "demo_with_patch": "non-zero: " + sys.argv[3][-300:],
                  "suite_with_patch": sys.argv[4], "how": "tools/confirm_seed.sh in a scratch git worktree of /repo (removed afterwards)"}
json.dump(m, open(sys.argv[2], "w"), indent=1)
PY
  echo "kept $D"
else
  echo "$ID-$K: NOT kept"
fi
