import sys, json, time
sys.path.insert(0, '/verif')
import importlib
m = importlib.import_module('bounded.' + sys.argv[1])
t = time.time()
r = m.run(sys.argv[2] if len(sys.argv) > 2 else 'quick', 0)
print(json.dumps({k: v for k, v in r.items() if k not in ('samples', 'failures')}, indent=0)[:1500])
print('wall', round(time.time() - t, 1), 'failures', len(r['failures']))
seen = {}
for f in r['failures']:
    seen.setdefault(f['check'], []).append(f)
for c, fs in seen.items():
    print('==', c, len(fs))
    for f in fs[:2]:
        print('    input:', json.dumps(f['input'])[:300]); print('    observed:', f['observed'][:300]); print('    expected:', f['expected'][:200])
