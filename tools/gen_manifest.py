#!/usr/bin/env python3
"""Regenerate MANIFEST.json from props.py (keeps it valid by construction)."""
import json
import os
import sys

HERE = os.path.dirname(os.path.dirname(os.path.abspath(__file__)))
sys.path.insert(0, HERE)
import props  # noqa: E402

ALL = [f"C{i:02d}" for i in range(1, 21)]
BASE = "cd /repo && /venv/bin/python -m pytest -ra -q -p no:cacheprovider --timeout=900 --continue-on-collection-errors"

m = {
    "version": 1,
    "setup_cmd": "./setup.sh",
    "hooks": {
        "guard": "WERKZEUG_VERIF",
        "enable": "no hooks: contracts are sidecar files under /verif/contracts, the real source is re-read from /repo on every run",
        "baseline_off_cmd": BASE,
        "source_commits": [],
        "add_only": True,
    },
    "engines": [
        {"name": "pyvc", "path": "pyvc/", "serves_properties": sorted(props.PROPS),
         "kind_free_text": "contract-based deductive verification: sidecar contracts on the real functions; a VC generator "
                           "(AST symbolic executor, loops cut by invariants, calls by callee contracts) re-reads /repo/src on every "
                           "run; obligations discharged by z3 5.1 then cvc5; bounded native stand-ins labelled as such"},
    ],
    "checks": [],
    "not_applicable": [],
    "notes": "See DESIGN.md. Exit 0 held / 1 violation (VIOLATION line + replay file) / 3 checker broken. "
             "Known findings in known_findings.json.",
}
for pid in ALL:
    p = props.PROPS.get(pid)
    if p is None or p.get("not_applicable"):
        m["not_applicable"].append({"property_id": pid, "reason": (p or {}).get("not_applicable") or props.PENDING.get(pid, "check not built yet")})
        continue
    m["checks"].append({
        "property_id": pid,
        "quick_cmd": f"./check {pid} --tier quick",
        "thorough_cmd": f"./check {pid} --tier thorough",
        "evidence_file": f"evidence/{pid}.json",
        "replay_cmd_template": "./check replay {path}",
        "engine": "pyvc",
        "level_claimed": {"category": p["level"], "text": p["level_text"], "design_ref": p.get("design_ref", "DESIGN.md section 8")},
        "level_note": p["level_note"],
        "technique": p["technique"],
    })
with open(os.path.join(HERE, "MANIFEST.json"), "w") as f:
    json.dump(m, f, indent=1)
import jsonschema  # noqa: E402
jsonschema.validate(m, json.load(open("/root/.vp/MANIFEST.schema.json")))
print("MANIFEST.json written:", len(m["checks"]), "checks,", len(m["not_applicable"]), "not applicable")
