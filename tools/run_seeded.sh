#!/bin/sh
# tools/run_seeded.sh [Cxx ...]: run the property's quick check against each seeded mutant (scratch copy), print a table
cd "$(dirname "$0")/.."
OUT=${SEED_OUT:-/tmp/seed_results.txt}
: > "$OUT"
for d in seeded/*/; do
  name=$(basename "$d"); prop=${name%-*}
  if [ $# -gt 0 ]; then case " $* " in *" $prop "*) ;; *) continue;; esac; fi
  res=$(tools/mutant_try.sh "$d/patch.diff" -- "$prop" 2>&1)
  ex=$(echo "$res" | grep -o "exit=[0-9]*" | tail -1)
  viol=$(echo "$res" | grep -c "^VIOLATION")
  first=$(echo "$res" | grep "^VIOLATION" | head -1)
  und=$(echo "$res" | grep -c "^UNDECIDED")
  echo "$name $ex violations=$viol undecided=$und $first" | tee -a "$OUT"
done
