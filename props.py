"""Per-property configuration: level claimed, bounded module, notes."""

TECH = "contract-based deductive verification (sidecar contracts on the real functions, VCs from the AST, z3/cvc5)"

PROPS = {
    "C11": {
        "level": "proof",
        "bounded": None,
        "level_text": "Contracts on the range arithmetic (is_byte_range_valid, Range.__init__, Range.range_for_length) "
                      "are discharged by z3 for all integers / Optionals / list lengths from the real source.",
        "level_note": "Trusted: pyvc's encoding of Python semantics, z3/cvc5. Header text parsing, dates, send_file are "
                      "outside the proved tier.",
        "technique": TECH,
        "explanation": "",
        "assumptions": [],
    },
}

PROPS["C09"] = {
    "level": "proof", "bounded": None,
    "level_text": "LimitedStream.readinto/readall/exhaust verified against a model of the server's input stream",
    "level_note": "Trusted: RawSource model of wsgi.input, io.RawIOBase.read stub, pyvc encoding, z3/cvc5.",
    "technique": TECH, "explanation": "", "assumptions": [],
}

PROPS["C20"] = {
    "level": "proof", "bounded": None,
    "level_text": "host_is_trusted / get_host and the debugger gates verified against contracts",
    "level_note": "Trusted: idna codec as an abstract partial function, pyvc encoding, z3/cvc5.",
    "technique": TECH, "explanation": "", "assumptions": [],
}

# properties whose check is not built yet (kept current while the framework grows)
PENDING = {}
