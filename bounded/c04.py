"""C04 bounded tier: MapAdapter.build and MapAdapter.match are mutually inverse.

For every (map configuration, rule template, values in the converters' canonical domains, extra query values,
force_external, script root, scheme) the module
  1. builds the URL with the real MapAdapter.build,
  2. delivers it the way a server would - independent code: urllib's urlsplit, strict %-decoding of the path as
     UTF-8, script root stripped, host -> subdomain - and matches it with the real MapAdapter.match, both through
     Map.bind(...) and through Map.bind_to_environ(WSGI environ),
  3. requires the same endpoint and equal values of the same type, no redirect, the extra values in the query,
  4. requires that the URL is syntactically a URL (ASCII, no raw space/control characters, only valid escapes),
  5. requires that its decoded path is the rule's pattern with the value texts substituted (independent formatter),
  6. rebuilds from the match result and requires the identical URL (converse law).
"""
from __future__ import annotations

import bounded.common as common
from bounded.common import unj, rng

import itertools
import multiprocessing as mp
import os
import re
import time
import uuid
from urllib.parse import parse_qs, urlsplit

from werkzeug.exceptions import HTTPException
from werkzeug.routing import EndpointPrefix, Map, Rule, Subdomain, Submount
from werkzeug.routing.exceptions import RequestRedirect

SERVER = "example.org"

# ------------------------------------------------------------------------------------------------ value domains
SPECIAL = ["a", "Z", "0", " ", "%", "?", "#", ";", "&", "=", "+", ":", "@", ",", "'", '"', "<", ">", "\\", "|",
           "é", "日", "\U0001F600", ".", "~", "-", "_", "\n", "\t", "*", "(", ")", "!", "$", "[", "]",
           "{", "}", "^", "`"]
TEXT_LONG = ["a b", "%2F", "%25", "a%2Fb", "..", "a;b=c", "x?y=z#f", "https:", "café 日本", "%zz", "%",
             "a\nb", "a\n", "\x00", "\x1f", "\x7f", "\x80", "\xff", "Ā", "‮", "é", "+ +", "%E9",
             "a%20b", "ßé", "?#", "&=&", "a" * 40]
TEXT_CORE = ["a", "a b", "%", "?", "#", ";", "é", "\U0001F600", "%2F", "x?y=z#f", "a\nb", "+", "café 日", "..", "\\"]


def text_values(full):
    if not full:
        return list(TEXT_CORE)
    out = list(SPECIAL) + [a + b for a in SPECIAL for b in SPECIAL] + TEXT_LONG
    return [t for t in dict.fromkeys(out) if t not in (".", "..")] + ["..", "."]


def positional(f):
    s = str(f)
    return "e" not in s and "n" not in s and "i" not in s


UUIDS = [uuid.UUID(int=0), uuid.UUID(int=2 ** 128 - 1), uuid.UUID("12345678-1234-5678-1234-567812345678"),
         uuid.UUID("ABCDEF01-2345-6789-ABCD-EF0123456789"), uuid.UUID("{6ba7b810-9dad-11d1-80b4-00c04fd430c8}")]
PATHS = ["a", "a/b", "a/b/c", "a//b", "a b/c d", "é/日", "a/%2F/b", "a?b/c#d", "a/./b", "a/../b", "a;b/c",
         ".a/b.", "x/y/z/w", "%/%25", "a/ /b", "+/+", "a///b", "a\nb/c", "edit", "a/edit/b", "\U0001F600/x"]
PATH_CORE = ["a", "a/b/c", "a//b", "a b/é", "a?b/c#d", "%/%25", "a/../b"]

DOMAINS = {
    # key: (core values, full values, formatter text-of-value)
    "text": (lambda: text_values(False), lambda: text_values(True), str),
    "text2": (lambda: ["ab", "a ", "%?", "é日", "#;", "\U0001F600\U0001F600"],
              lambda: [a + b for a in SPECIAL for b in SPECIAL], str),
    "text23": (lambda: ["ab", "abc", "% ?", "é日é"],
               lambda: [a + b for a in SPECIAL[:12] for b in SPECIAL[12:24]] + [a + b + a for a in SPECIAL[:20] for b in SPECIAL[20:]], str),
    "int": (lambda: [0, 1, 7, 10, 42, 100, 12345, 2 ** 63, 10 ** 20], lambda: list(range(0, 300)) + [2 ** 31, 2 ** 63, 2 ** 64 + 1, 10 ** 20, 10 ** 30], str),
    "sint": (lambda: [0, 1, -1, 42, -42, -(10 ** 20), 10 ** 20], lambda: list(range(-150, 150)) + [-(2 ** 63), 2 ** 63, -(10 ** 30)], str),
    "int3": (lambda: [0, 7, 42, 99, 100, 999], lambda: list(range(0, 1000)), lambda v: "%03d" % v),
    "sint3": (lambda: [0, 7, -5, 42, -42, 999], lambda: list(range(-99, 1000)), lambda v: "%03d" % v),
    "int550": (lambda: [5, 6, 49, 50], lambda: list(range(5, 51)), str),
    "float": (lambda: [0.0, 0.5, 1.5, 3.14, 10.0, 100.25, 0.0001, 1234567.891, 1e15],
              lambda: [f for f in [i / 8 for i in range(0, 400)] + [0.1, 0.2, 0.3, 0.1 + 0.2, 1 / 3, 2 / 3, 1e-4, 1.1e-4,
                                                                      123456789012345.6, 1e15, 9999999999999998.0, 5e-324, 1e16, 1e22]
                       if positional(f)], lambda v: str(float(v))),
    "sfloat": (lambda: [0.0, -0.0, 1.5, -1.5, -0.0001, -1234567.891],
               lambda: [f for f in [i / 8 for i in range(-200, 200)] + [-0.0, -1 / 3, -1e15, -1e16] if positional(f)],
               lambda v: str(float(v))),
    "any": (lambda: ["ab", "cd", "foo,bar"], lambda: ["ab", "cd", "foo,bar"], str),
    "anyq": (lambda: ["a b", "x?y", "é", "50%", "a#b"], lambda: ["a b", "x?y", "é", "50%", "a#b"], str),
    "uuid": (lambda: UUIDS[:3], lambda: UUIDS + [uuid.UUID(int=(i * 0x9E3779B97F4A7C15F39CC0605CEDC835) % 2 ** 128) for i in range(1, 40)], str),
    "path": (lambda: list(PATH_CORE), lambda: list(PATHS), str),
    "label": (lambda: ["de", "x-y"], lambda: ["de", "x-y", "a1", "xn--caf-dma"], str),
}

# ------------------------------------------------------------------------------------------------ templates
# name, rule string (or list of (rule string, defaults) for a family), vars [(name, domain)], decoded path format
TEMPLATES = [
    ("s", "/s/<v>", [("v", "text")], "/s/{v}"),
    ("st", "/st/<string:v>", [("v", "text")], "/st/{v}"),
    ("sl", "/sl/<string(length=2):v>", [("v", "text2")], "/sl/{v}"),
    ("sm", "/sm/<string(minlength=2,maxlength=3):v>", [("v", "text23")], "/sm/{v}"),
    ("i", "/i/<int:v>", [("v", "int")], "/i/{v}"),
    ("is", "/is/<int(signed=True):v>", [("v", "sint")], "/is/{v}"),
    ("if", "/if/<int(fixed_digits=3):v>", [("v", "int3")], "/if/{v}"),
    ("ifs", "/ifs/<int(fixed_digits=3,signed=True):v>", [("v", "sint3")], "/ifs/{v}"),
    ("imm", "/imm/<int(min=5,max=50):v>", [("v", "int550")], "/imm/{v}"),
    ("f", "/f/<float:v>", [("v", "float")], "/f/{v}"),
    ("fs", "/fs/<float(signed=True):v>", [("v", "sfloat")], "/fs/{v}"),
    ("any", '/any/<any(ab,cd,"foo,bar"):v>', [("v", "any")], "/any/{v}"),
    ("u", "/u/<uuid:v>", [("v", "uuid")], "/u/{v}"),
    ("p", "/p/<path:v>", [("v", "path")], "/p/{v}"),
    ("pb", "/pb/<path:v>/", [("v", "path")], "/pb/{v}/"),
    ("pe", "/pe/<path:v>/edit", [("v", "path")], "/pe/{v}/edit"),
    ("px", "/px/x<path:v>", [("v", "path")], "/px/x{v}"),
    ("sb", "/sb/<string:v>/", [("v", "text")], "/sb/{v}/"),
    ("pp", "/pp/x<string:v>.txt", [("v", "text")], "/pp/x{v}.txt"),
    ("pi", "/pi/v<int:a>.<int:b>", [("a", "int"), ("b", "int")], "/pi/v{a}.{b}"),
    ("two", "/two/<string:a>/<int:b>", [("a", "text"), ("b", "int")], "/two/{a}/{b}"),
    ("tp", "/tp/<int:a>/<path:p>", [("a", "int"), ("p", "path")], "/tp/{a}/{p}"),
    ("three", "/three/<string:a>/x/<string:b>/<uuid:c>/", [("a", "text"), ("b", "text"), ("c", "uuid")], "/three/{a}/x/{b}/{c}/"),
    ("cafe", "/caf é/<string:v>", [("v", "text")], "/caf é/{v}"),
    ("semi", "/a;b=c/<int:v>", [("v", "int")], "/a;b=c/{v}"),
    ("pct", "/p%q/<v>", [("v", "text")], "/p%q/{v}"),
    ("d", [("/d/", {"page": 1}), ("/d/<int:page>", None)], [("page", "int")],
     lambda t, v: "/d/" if v["page"] == 1 else "/d/" + t["page"]),
    ("lang", [("/lang/", {"lang": "en"}), ("/lang/<string:lang>/", None)], [("lang", "text")],
     lambda t, v: "/lang/" if v["lang"] == "en" else "/lang/" + t["lang"] + "/"),
    ("m1", "/x/<int:v>", [("v", "int")], "/m/x/{v}"),       # inside Submount('/m')
    ("m2", "/y/<path:p>", [("p", "path")], "/m/y/{p}"),      # inside Submount('/m')
    ("pre.e1", "/e1/<string:v>", [("v", "text")], "/e1/{v}"),  # inside EndpointPrefix('pre.')
    ("anyq", '/anyq/<any("a b","x?y","é","50%","a#b"):v>', [("v", "anyq")], "/anyq/{v}"),
]
# host_matching only: ONE endpoint served on two hosts under different paths (build must prefer the bound host)
HOST_FAMILY = [("/h1/<int:v>", SERVER, "/h1/{v}"), ("/h2/<int:v>", "other." + SERVER, "/h2/{v}")]
TNAMES = [t[0] for t in TEMPLATES]
TIDX = {t[0]: i for i, t in enumerate(TEMPLATES)}
EXTRA_DEFAULTS = {"d": [1], "lang": ["en"]}  # values that hit the defaults rule of a family
TEXT_TEMPLATES = [t[0] for t in TEMPLATES if any(d == "text" for _, d in t[2])]

# domain placement of template i in the "sub" and "host" configurations
SUBS = [None, "api", None, "<string:sub>"]
HOSTS = [SERVER, "other." + SERVER, SERVER, "<string:h>." + SERVER]


def placement(kind, name):
    i = TIDX[name]
    if kind == "sub":
        return SUBS[i % 4]
    if kind == "host":
        return HOSTS[i % 4]
    return None


def template_vars(kind, name):
    t = TEMPLATES[TIDX[name]]
    vs = list(t[2])
    pl = placement(kind, name)
    if pl and "<" in pl:
        vs.append(("sub" if kind == "sub" else "h", "label"))
    return vs


def make_map(kind, names, strict=True, merge=True):
    """kind: plain | sub | host ; names: template names to include (order kept)"""
    rules = []
    mount, prefixed = [], []
    for n in names:
        t = TEMPLATES[TIDX[n]]
        fam = t[1] if isinstance(t[1], list) else [(t[1], None)]
        kw = {}
        pl = placement(kind, n)
        if kind == "sub" and pl:
            kw["subdomain"] = pl
        if kind == "host":
            kw["host"] = pl
        ep = n[4:] if n.startswith("pre.") else n
        rs = [Rule(s, endpoint=ep, defaults=d, **kw) for s, d in fam]
        if n in ("m1", "m2"):
            mount += rs
        elif n.startswith("pre."):
            prefixed += rs
        elif kind == "sub" and pl == "api" and TIDX[n] % 8 == 1:
            r2 = [Rule(s, endpoint=ep, defaults=d) for s, d in fam]
            rules.append(Subdomain("api", r2))
        else:
            rules += rs
    if kind == "host":
        for rs_, h_, _ in HOST_FAMILY:
            rules.append(Rule(rs_, endpoint="hh", host=h_))
    if mount:
        rules.append(Submount("/m/", mount))  # trailing slash: Submount strips it
    if prefixed:
        rules.append(EndpointPrefix("pre.", prefixed))
    kw = {"strict_slashes": strict, "merge_slashes": merge}
    if kind == "sub":
        kw["default_subdomain"] = "www"
    if kind == "host":
        kw["host_matching"] = True
    return Map(rules, **kw)


# ------------------------------------------------------------------------------------------------ value encoding
def enc_val(v):
    if isinstance(v, uuid.UUID):
        return ["uuid", str(v)]
    if isinstance(v, bool):
        return ["bool", v]
    if isinstance(v, int):
        return ["int", str(v)]
    if isinstance(v, float):
        return ["float", repr(v)]
    if isinstance(v, list):
        return ["list", [enc_val(x) for x in v]]
    return ["str", v]


def dec_val(e):
    t, v = e
    if t == "uuid":
        return uuid.UUID(v)
    if t == "int":
        return int(v)
    if t == "float":
        return float(v)
    if t == "list":
        return [dec_val(x) for x in v]
    return v


EXTRAS = [None, {"q": "a b"}, {"q": "é&=?#%+", "n": 5, "l": ["1", "2 3"]}]
SCRIPTS = ["/", "/app", "/app/"]
CFGS = [("plain", "http", SERVER), ("plain", "https", SERVER + ":8443"), ("sub", "http", SERVER), ("host", "https", SERVER)]

_VALID_PATH = re.compile(r"(?:[A-Za-z0-9\-._~!$&'()*+,;=:@/]|%[0-9A-Fa-f]{2})*\Z")
_VALID_QUERY = re.compile(r"(?:[A-Za-z0-9\-._~!$&'()*+,;=:@/?]|%[0-9A-Fa-f]{2})*\Z")


def strict_unquote(s):
    """percent-decode (UTF-8, strict); raises on malformed input"""
    out = bytearray()
    i = 0
    while i < len(s):
        c = s[i]
        if c == "%":
            out.append(int(s[i + 1:i + 3], 16))
            if len(s[i + 1:i + 3]) != 2:
                raise ValueError("truncated escape")
            i += 3
        else:
            out += c.encode("utf-8")
            i += 1
    return out.decode("utf-8")


_maps = {}


def get_map(kind, names, strict=True, merge=True):
    k = (kind, tuple(names), strict, merge)
    if k not in _maps:
        if len(_maps) > 400:
            _maps.clear()
        _maps[k] = make_map(kind, names, strict, merge)
    return _maps[k]


def same(a, b):
    if type(a) is not type(b):
        return False
    if isinstance(a, float):
        return a == b and str(a) == str(b)
    return a == b


def check_host_family(case):
    """converse law from a URL that was not produced by build: deliver scheme://host/path of one member of HOST_FAMILY,
    match with an adapter bound to that host, rebuild with the same adapter -> the URL that was matched."""
    i, v, script = case["member"], case["values"]["v"], case["script"]
    _, host, fmt = HOST_FAMILY[i]
    m = get_map("host", case["names"], True)
    root = script.rstrip("/")
    path_info = fmt.format(v=v)
    ad = m.bind(host, script, url_scheme="https")
    fails = []
    try:
        got = ad.match(path_info)
    except Exception as e:  # noqa: BLE001
        return [("hostfamily.match", f"{host}{path_info} -> {e!r}"[:200], "('hh', {'v': %r})" % v)]
    if got[0] != "hh" or dict(got[1]) != {"v": v}:
        return [("hostfamily.match", repr(got), "('hh', {'v': %r})" % v)]
    for fe in (False, True):
        try:
            u = ad.build(got[0], got[1], force_external=fe)
        except Exception as e:  # noqa: BLE001
            u = repr(e)
        s = urlsplit(u)
        if (s.netloc or host) != host or s.path != root + path_info or (fe and s.scheme != "https"):
            fails.append(("hostfamily.rebuild", f"matched https://{host}{root}{path_info}, built {u}", "the URL that was matched"))
    return fails


def check_case(case):
    if "member" in case:
        return check_host_family(case)
    return _check_case(case)


def _check_case(case):
    """case: dict(cfg=index, script, fe, extras=index or dict, names=list of templates in the map, ep, values{name: value},
    strict). Returns list of (check, observed, expected)."""
    kind, scheme, server = CFGS[case["cfg"]]
    names = case["names"]
    ep = case["ep"]
    values = case["values"]
    script = case["script"]
    fe = case["fe"]
    extras = case["extras"]
    if isinstance(extras, int):
        extras = EXTRAS[extras]
    strict = case.get("strict", True)
    fails = []
    tag = ".any_reserved_item" if ep == "anyq" else ""
    if any(d == "path" and "\n" in values[n] for n, d in template_vars(kind, ep)):
        tag = ".path_value_with_newline"
    m = get_map(kind, names, strict, case.get("merge", True))
    if kind == "sub":
        origin = m.bind(server, script, subdomain="www", url_scheme=scheme)
        origin_host = "www." + server
    else:
        origin = m.bind(server, script, url_scheme=scheme)
        origin_host = server
    t = TEMPLATES[TIDX[ep]]
    tvars = template_vars(kind, ep)
    texts = {n: DOMAINS[d][2](values[n]) for n, d in tvars}
    # expected host of the rule
    pl = placement(kind, ep)
    if kind == "sub":
        sub = "www" if pl is None else (values["sub"] if "<" in pl else pl)
        exp_host = f"{sub}.{server}"
    elif kind == "host":
        exp_host = pl.replace("<string:h>", values["h"]) if "<" in pl else pl
    else:
        sub = None
        exp_host = server
    root = script.rstrip("/")
    exp_path = root + (t[3](texts, values) if callable(t[3]) else t[3].format(**texts))
    bvals = dict(values)
    if extras:
        bvals.update(extras)
    try:
        url = origin.build(ep, bvals, force_external=fe)
    except Exception as e:  # noqa: BLE001
        return [("build.raises" + tag, repr(e)[:200], "a URL for values the converters accept")]
    s = urlsplit(url)
    # --- URL form
    if fe and not (s.scheme and s.netloc):
        fails.append(("url.external_form" + tag, url, "scheme://host/... with force_external"))
    if s.scheme and s.scheme != scheme:
        fails.append(("url.scheme" + tag, url, scheme))
    host = s.netloc or origin_host
    if host != exp_host:
        fails.append(("url.host" + tag, url, exp_host))
    if not _VALID_PATH.match(s.path) or not _VALID_QUERY.match(s.query) or s.fragment or "#" in url:
        fails.append(("url.syntax" + tag, url, "ASCII URL with valid %-escapes only, no fragment"))
    if not s.path.startswith(root + "/"):
        fails.append(("url.script_root" + tag, url, root + "/..."))
        return fails
    try:
        decoded = strict_unquote(s.path)
    except Exception as e:  # noqa: BLE001
        fails.append(("url.decode" + tag, url + " " + repr(e)[:80], "decodable path"))
        return fails
    if decoded != exp_path:
        fails.append(("build.path_text" + tag, repr(decoded), repr(exp_path)))
    path_info = decoded[len(root):]
    # --- query
    exp_q = {}
    for k, v in (extras or {}).items():
        exp_q[k] = [str(x) for x in (v if isinstance(v, list) else [v])]
    try:
        got_q = parse_qs(s.query, keep_blank_values=True, strict_parsing=bool(s.query), encoding="utf-8", errors="strict")
    except Exception as e:  # noqa: BLE001
        got_q = repr(e)
    if got_q != exp_q:
        fails.append(("build.query" + tag, repr(got_q), repr(exp_q)))
    # --- deliver and match: (a) Map.bind, (b) Map.bind_to_environ
    hostname, _, port = host.partition(":")
    environ = {"REQUEST_METHOD": "GET", "SCRIPT_NAME": root, "PATH_INFO": path_info.encode("utf-8").decode("latin-1"),
               "QUERY_STRING": s.query, "HTTP_HOST": host, "SERVER_NAME": hostname,
               "SERVER_PORT": port or ("443" if scheme == "https" else "80"), "wsgi.url_scheme": s.scheme or scheme,
               "SERVER_PROTOCOL": "HTTP/1.1"}
    routes = []
    try:
        if kind == "sub":
            if host.endswith("." + server):
                routes.append(("bind", m.bind(server, script, subdomain=host[:-len(server) - 1], url_scheme=scheme)))
            routes.append(("environ", m.bind_to_environ(environ, server_name=server)))
        elif kind == "host":
            routes.append(("bind", m.bind(host, script, url_scheme=scheme)))
            routes.append(("environ", m.bind_to_environ(environ)))
        else:
            routes.append(("bind", m.bind(host, script, url_scheme=scheme)))
            routes.append(("environ", m.bind_to_environ(environ)))
    except Exception as e:  # noqa: BLE001
        fails.append(("deliver.bind" + tag, repr(e)[:200], "an adapter"))
    exp_ep = ep
    for rname, ad in routes:
        try:
            got_ep, got_vals = ad.match(path_info if rname == "bind" else None)
        except RequestRedirect as e:
            fails.append((f"match.{rname}.redirect" + tag, f"{url} -> redirect {e.new_url}", "a match"))
            continue
        except HTTPException as e:
            fails.append((f"match.{rname}.error" + tag, f"{url} -> {type(e).__name__}", f"({exp_ep!r}, {values!r})"))
            continue
        except Exception as e:  # noqa: BLE001
            fails.append((f"match.{rname}.crash" + tag, f"{url} -> {e!r}"[:300], "a match"))
            continue
        ok = got_ep == exp_ep and set(got_vals) == set(values) and all(same(got_vals[k], values[k]) for k in values)
        if not ok:
            fails.append((f"match.{rname}.result" + tag, f"{url} -> ({got_ep!r}, {dict(got_vals)!r})"[:400],
                          f"({exp_ep!r}, {values!r})"[:300]))
            continue
        # --- converse: rebuild from the match result
        try:
            b2 = dict(got_vals)
            if extras:
                b2.update(extras)
            url2 = origin.build(got_ep, b2, force_external=fe)
        except Exception as e:  # noqa: BLE001
            url2 = repr(e)
        if url2 != url:
            fails.append((f"rebuild.{rname}" + tag, url2[:300], url[:300]))
    return fails


# ------------------------------------------------------------------------------------------------ enumeration
def core_values(kind, name):
    tv = template_vars(kind, name)
    lists = []
    for n, d in tv:
        vals = DOMAINS[d][0]()
        lists.append(vals)
    if len(lists) == 1:
        combos = [(v,) for v in lists[0]]
    else:
        # every value of every variable at least once, nasty ones paired
        k = max(len(x) for x in lists)
        combos = [tuple(x[i % len(x)] for x in lists) for i in range(k)]
        combos += [tuple(x[(i * (j + 2) + j) % len(x)] for j, x in enumerate(lists)) for i in range(k)]
    out = [dict(zip([n for n, _ in tv], c)) for c in combos]
    for dv in EXTRA_DEFAULTS.get(name, []):
        d0 = dict(out[0])
        d0[tv[0][0]] = dv
        out.append(d0)
    return out


def full_values(kind, name, r=None, n_random=0):
    tv = template_vars(kind, name)
    lists = [DOMAINS[d][1]() for _, d in tv]
    k = max(len(x) for x in lists)
    out = []
    for i in range(k):
        out.append({n: lists[j][(i + 7 * j) % len(lists[j])] for j, (n, _) in enumerate(tv)})
    for dv in EXTRA_DEFAULTS.get(name, []):
        d0 = dict(out[0])
        d0[tv[0][0]] = dv
        out.append(d0)
    for _ in range(n_random):
        out.append({n: random_value(r, d) for n, d in tv})
    return out


_POOL_CHARS = ("abcXYZ019 %?#;&=+:@,'\"<>\\|.~-_\n\t*()!$[]{}^`\x00\x1f\x7f\x80\xff"
               "éßĀ́аאا日本‮ ﻿￿\U0001F600\U00010348\U0010FFFF")


def random_text(r, lo=1, hi=12, slash=False):
    n = r.randint(lo, hi)
    if r.random() < 0.2:
        return "".join(chr(r.choice([r.randint(1, 0x7F), r.randint(0x80, 0x7FF), r.randint(0x800, 0xD7FF),
                                     r.randint(0xE000, 0xFFFF), r.randint(0x10000, 0x10FFFF)])) for _ in range(n)).replace("/", "-")
    return "".join(r.choice(_POOL_CHARS) for _ in range(n))


def random_value(r, d):
    if d == "text":
        t = random_text(r)
        return t
    if d == "text2":
        return random_text(r, 2, 2)
    if d == "text23":
        return random_text(r, 2, 3)
    if d == "int":
        return r.choice([r.randint(0, 10 ** 6), r.randint(0, 10 ** 40), r.randint(0, 9)])
    if d == "sint":
        return r.choice([r.randint(-10 ** 6, 10 ** 6), r.randint(-10 ** 40, 10 ** 40)])
    if d == "int3":
        return r.randint(0, 999)
    if d == "sint3":
        return r.randint(-99, 999)
    if d == "int550":
        return r.randint(5, 50)
    if d in ("float", "sfloat"):
        while True:
            f = r.choice([r.uniform(0, 1), r.uniform(0, 10 ** 6), r.uniform(0, 10 ** 15), round(r.uniform(0, 1000), r.randint(0, 6)),
                          r.randint(0, 10 ** 9) / 2 ** r.randint(0, 20)])
            if d == "sfloat" and r.random() < 0.5:
                f = -f
            if positional(f):
                return f
    if d in ("any", "anyq", "label"):
        return r.choice(DOMAINS[d][1]())
    if d == "uuid":
        return uuid.UUID(int=r.getrandbits(128))
    if d == "path":
        segs = [random_text(r, 1, 5) for _ in range(r.randint(1, 5))]
        if r.random() < 0.2 and len(segs) > 1:
            segs.insert(r.randint(1, len(segs) - 1), "")
        return "/".join(segs)
    raise KeyError(d)


def enumerate_cases(tier, seed):
    """deterministic list of cases"""
    cases = []
    full_names = list(TNAMES)
    r = rng(seed, "c04")
    # part 1: full product over configurations for the core values, on the map holding every template
    for ci in range(len(CFGS)):
        kind = CFGS[ci][0]
        for name in TNAMES:
            for vals in core_values(kind, name):
                for script in SCRIPTS:
                    for fe in (False, True):
                        for ei in range(len(EXTRAS)):
                            cases.append({"cfg": ci, "script": script, "fe": fe, "extras": ei, "names": full_names,
                                          "ep": name, "values": vals})
    # part 2: value sweep (full value sets), configuration rotating
    n_rand = 0 if tier == "quick" else 12000
    for name in TNAMES:
        for kind_i in range(len(CFGS)):
            kind = CFGS[kind_i][0]
            vs = full_values(kind, name, r, n_rand if kind_i == 0 else n_rand // 8)
            if tier == "quick" and kind_i > 0 and name in TEXT_TEMPLATES and name not in ("s", "sb"):
                vs = vs[kind_i::5] + vs[-len(TEXT_LONG) - 2:]
            for i, vals in enumerate(vs):
                cases.append({"cfg": kind_i, "script": SCRIPTS[i % 3], "fe": bool((i // 3) % 2), "extras": (i // 6) % 3 if i % 5 == 0 else 0,
                              "names": full_names, "ep": name, "values": vals})
    # part 3: every template alone in its map, strict_slashes on and off
    for name in TNAMES:
        fam = [n for n in TNAMES if n == name]
        for strict in (True, False):
            for merge in (True, False):
                for vals in core_values("plain", name):
                    cases.append({"cfg": 0, "script": "/", "fe": False, "extras": 0, "names": fam, "ep": name, "values": vals,
                                  "strict": strict, "merge": merge})
    # part 5: host_matching, one endpoint on two hosts: URL -> match -> build with the adapter that matched
    for member in range(len(HOST_FAMILY)):
        for script in SCRIPTS:
            for v in DOMAINS["int"][0]():
                cases.append({"cfg": 3, "script": script, "fe": False, "extras": 0, "names": full_names, "ep": "hh",
                              "values": {"v": v}, "member": member})
                cases.append({"cfg": 3, "script": script, "fe": False, "extras": 0, "names": [], "ep": "hh",
                              "values": {"v": v}, "member": member})
    if tier == "thorough":
        # part 4: random sub-maps in random order, random configuration
        for _ in range(3000):
            k = r.randint(2, 8)
            names = r.sample(TNAMES, k)
            ci = r.randrange(len(CFGS))
            for name in names[:3]:
                vals = {n: random_value(r, d) for n, d in template_vars(CFGS[ci][0], name)}
                cases.append({"cfg": ci, "script": r.choice(SCRIPTS), "fe": r.random() < 0.5, "extras": r.randrange(3),
                              "names": names, "ep": name, "values": vals, "strict": r.random() < 0.7})
    return cases


def _inp(case):
    d = dict(case)
    d["values"] = {k: enc_val(v) for k, v in case["values"].items()}
    return d


def _work(chunk):
    out = []
    n = 0
    nontriv = set()
    for case in chunk:
        n += 1
        nontriv.add((case["ep"], repr(sorted(case["values"].items(), key=lambda kv: kv[0]))))
        for check, obs, exp in check_case(case):
            out.append((check, _inp(case), obs, exp))
    return n, nontriv, out


DOMAIN = (
    "one map holding 32 rule templates with pairwise distinct literal first segment (default/string, string(length), "
    "string(minlength,maxlength), int, int(signed), int(fixed_digits[,signed]), int(min,max), float, float(signed), any, uuid, "
    "path leaf/branch/before a literal/with literal prefix, literal prefix+suffix, two converters in a segment, 2-3 "
    "variable segments, literals with space/non-ASCII/';='/'%', two defaults families, Submount, EndpointPrefix, "
    "Subdomain factory); configurations plain http, plain https with port, default_subdomain+static/variable subdomain "
    "rules, host_matching with static/variable hosts; script_name '/', '/app', '/app/'; force_external on/off; extra "
    "query values none / one / several incl. list and reserved characters; core values (<=15 per converter: reserved "
    "characters, space, non-ASCII, astral, newline, '%2F', '..', big ints, padded ints, positional floats, UUIDs, "
    "multi-segment paths incl. '//' inside) in full product with the configurations; value sweep under every configuration: "
    "all 1- and 2-character texts over 40 special characters (all text templates under plain http, every 5th elsewhere), "
    "ints 0..299, all fixed_digits values 0..999 / -99..999, floats i/8, paths; every template also alone in its map with "
    "strict_slashes x merge_slashes on/off; host_matching: one endpoint on two hosts (URL -> match -> build on the matching "
    "adapter)")


def run(tier, seed, reg=None):
    common.assert_tree()
    t0 = time.time()
    cases = enumerate_cases(tier, seed)
    chunks = [cases[i:i + 400] for i in range(0, len(cases), 400)]
    procs = min(16, os.cpu_count() or 4)
    ctx = mp.get_context("fork")
    evals = 0
    nontriv = set()
    fails = {}
    counts = {}
    with ctx.Pool(procs) as pool:
        for n, nt, out in pool.imap(_work, chunks, chunksize=1):
            evals += n
            nontriv |= nt
            for check, inp, obs, exp in out:
                counts[check] = counts.get(check, 0) + 1
                lst = fails.setdefault(check, [])
                sig = (inp["ep"], repr(inp["values"]))
                if len(lst) < 5 and all(s != sig for s, _ in lst):
                    lst.append((sig, {"check": check, "input": common._j(inp), "observed": str(obs)[:500], "expected": str(exp)[:300]}))
    failures = []
    tagged = lambda c: c.endswith(".any_reserved_item") or c.endswith(".path_value_with_newline")  # noqa: E731  (FINDINGS_C04.md)
    new_checks = sorted(c for c in fails if not tagged(c))
    old_checks = sorted(c for c in fails if tagged(c))
    for check in new_checks:
        failures += [f for _, f in fails[check][:5]]
    failures = failures[:max(0, 25 - len(old_checks))] if len(failures) + len(old_checks) > 25 else failures
    for k in range(2):
        for check in old_checks:
            if len(failures) < 25 and k < len(fails[check]):
                failures.append(fails[check][k][1])
    dom = DOMAIN
    if tier == "thorough":
        dom += ("; thorough adds the value sweep under the subdomain and host configurations, 12000 seeded random values per "
                "template (texts over the whole of Unicode incl. controls and astral code points, ints up to 10^40, random "
                "positional floats, random UUIDs, random 1-5 segment paths) and 3000 random sub-maps in random rule order")
    samples = [{"check": "inverse", "input": _inp(c)} for c in cases[:: max(1, len(cases) // 6)][:6]]
    for s_ in samples:
        s_["input"]["names"] = len(s_["input"]["names"])
    return {"evaluations": evals, "distinct_nontrivial": len(nontriv),
            "rule": "one evaluation = one build + delivery + 2 matches (bind and bind_to_environ) + 2 rebuilds with all clause "
                    "checks; distinct_nontrivial = distinct (endpoint, values) tuples",
            "domain": dom, "exhaustive": tier == "quick", "samples": samples, "failures": failures[:25], "failure_counts": counts,
            "wall_s": round(time.time() - t0, 2)}


def replay(payload):
    common.assert_tree()
    inp = unj(payload["inputs"])
    case = dict(inp)
    case["values"] = {k: dec_val(v) for k, v in inp["values"].items()}
    want = payload.get("obligation", "").split("bounded:", 1)[-1]
    got = [c for c, _, _ in check_case(case)]
    return (want in got) if want else bool(got)
