"""C12 bounded tier: router redirects stay on the bound host and converge.

For every (rule map, map/rule slash settings, redirect_defaults, script root, scheme, subdomain, query arguments,
request path) the real MapAdapter.match is called; whenever it raises RequestRedirect on its own (no redirect_to in
the domain) the module checks, with independent code (urllib's urlsplit / parse_qsl, own strict %-decoder, the C03
reference rule semantics for what the ORIGINAL path denotes):
  host      scheme, authority and script root of new_url are the bound ones (authority never from the path),
  syntax    new_url is an ASCII URL with valid escapes only, no fragment,
  query     the query string is preserved (string: verbatim; mapping: same decoded items),
  converge  following the redirect(s) - at most 5 hops, never two hops of the same kind, never to the same URL -
            ends in a successful match,
  same      that final match is (endpoint, arguments) of a rule that admits the original path (C03 reference: exact,
            missing slash, tolerated slash, merged slashes; best rule by specificity when the order decides).
"""
from __future__ import annotations

import bounded.common as common
from bounded.common import unj, rng

import itertools
import multiprocessing as mp
import os
import re
import time
from urllib.parse import parse_qsl, urlsplit

from werkzeug.exceptions import HTTPException
from werkzeug.routing import Map, Rule
from werkzeug.routing.exceptions import RequestRedirect

from bounded import c03
from bounded.c03 import lit, var, pth, spec, RefRule, EXACT, SLASH, TOL

SERVER = "example.org"
_VALID_PATH = re.compile(r"(?:[A-Za-z0-9\-._~!$&'()*+,;=:@/]|%[0-9A-Fa-f]{2})*\Z")
_VALID_QUERY = re.compile(r"(?:[A-Za-z0-9\-._~!$&'()*+,;=:@/?]|%[0-9A-Fa-f]{2})*\Z")


def strict_unquote(s):
    out = bytearray()
    i = 0
    while i < len(s):
        c = s[i]
        if c == "%":
            h = s[i + 1:i + 3]
            if len(h) != 2:
                raise ValueError("truncated escape")
            out.append(int(h, 16))
            i += 3
        else:
            out += c.encode("utf-8")
            i += 1
    return out.decode("utf-8")


# ------------------------------------------------------------------------------------------------ rules
def xspec(segs, branch=False, strict=None, merge=None, ep=None, defaults=None, alias=False, methods=None):
    d = spec(segs, branch, methods, False, strict, merge)
    d["ep"] = ep
    d["defaults"] = defaults
    d["alias"] = bool(alias)
    return d


def make_rule(sp, idx, ws=False, sub=None):
    kw = {}
    if sp.get("strict") is not None:
        kw["strict_slashes"] = sp["strict"]
    if sp.get("merge") is not None:
        kw["merge_slashes"] = sp["merge"]
    if ws:
        kw["websocket"] = True
    if sub is not None:
        kw["subdomain"] = sub
    if sp.get("alias"):
        kw["alias"] = True
    if sp.get("defaults"):
        kw["defaults"] = dict(sp["defaults"])
    return Rule(c03.rule_string(sp), endpoint=endpoint_of(sp, idx), methods=sp.get("methods"), **kw)


def endpoint_of(sp, idx):
    return sp["ep"] if sp.get("ep") is not None else f"r{idx}"


SHAPES = [
    ([lit("a")], False), ([lit("a")], True), ([var("string")], False), ([var("string")], True), ([var("int")], True),
    ([pth()], False), ([pth()], True), ([lit("a"), var("string")], True), ([lit("a"), lit("b")], False),
    ([var("string"), lit("b")], True), ([var("string", pre="x")], True), ([var("int(fixed_digits=2)")], True), ([], True),
]
FLAGS9 = [(s, m) for s in (None, True, False) for m in (None, True, False)]
FLAGS3 = [(None, None), ("flip", None), (None, "flip")]


def pool_one():
    return [xspec(segs, br, s, m) for segs, br in SHAPES for s, m in FLAGS9]


def pool_two():
    """13 shapes x (no override, strict override, merge override); 'flip' is resolved against the map setting"""
    return [xspec(segs, br, s, m) for segs, br in SHAPES for s, m in FLAGS3]


def families():
    i, s = var("int"), var("string")
    return [
        [xspec([lit("d")], True, ep="E", defaults={"v1": 1}), xspec([lit("d"), i], False, ep="E")],
        [xspec([lit("d")], False, ep="E", defaults={"v1": 1}), xspec([lit("d"), i], True, ep="E")],
        [xspec([lit("l")], True, ep="E", defaults={"v1": "en"}), xspec([lit("l"), s], True, ep="E")],
        [xspec([lit("d"), i, lit("p")], True, ep="E", defaults={"v3": 1}), xspec([lit("d"), i, lit("p"), i], False, ep="E")],
        [xspec([], True, ep="E", defaults={"v0": "é x"}), xspec([s], True, ep="E")],
        [xspec([lit("d")], True, ep="E", defaults={"v1": 1}), xspec([lit("e"), i, i], False, ep="E")],  # different arguments
        [xspec([lit("d")], True, ep="E", defaults={"v1": 1, "v9": 2}), xspec([lit("e"), i], False, ep="E")],  # different arguments
        [xspec([lit("c"), i], False, ep="E"), xspec([lit("al"), i], False, ep="E", alias=True)],
        [xspec([lit("c"), s], True, ep="E"), xspec([lit("al"), s], True, ep="E", alias=True)],
        [xspec([lit("c"), pth()], False, ep="E"), xspec([lit("al"), pth()], True, ep="E", alias=True)],
        [xspec([lit("c")], True, ep="E", defaults={"v1": 1}), xspec([lit("c"), i], True, ep="E"),
         xspec([lit("al"), i], True, ep="E", alias=True)],
    ]


def resolve_flags(sp, map_strict, map_merge):
    d = dict(sp)
    if d.get("strict") == "flip":
        d["strict"] = not map_strict
    if d.get("merge") == "flip":
        d["merge"] = not map_merge
    return d


# ------------------------------------------------------------------------------------------------ reference
class XRef:
    def __init__(self, sp, idx):
        self.ref = RefRule(sp)
        self.sp = sp
        self.endpoint = endpoint_of(sp, idx)
        self.defaults = sp.get("defaults") or {}


def denotation(xrefs, map_strict, map_merge, path, method="GET", extra=None, tol_branch=False, merge_fn=c03.merge_full):
    """(best, anyset): (endpoint, frozen args) of the rules the ORIGINAL path denotes.  best = non-dominated
    candidates of the first pass that has candidates (as is, then with slashes collapsed); anyset = every admitting
    rule in any pass.  tol_branch / merge_fn select the alternative readings named in C03 (only used to NAME a
    failure that has one of the C03 findings as root cause)."""
    p = c03.norm_path(path)
    passes = [p]
    full = merge_fn(p)
    if full != p:
        passes.append(full)
    best = None
    anyset = set()
    for q in passes:
        elig = []
        for x in xrefs:
            r = x.ref
            st = map_strict if r.strict is None else r.strict
            a = r.admit(q, st, tol_branch)
            if a is None:
                continue
            if r.methods is not None and method not in r.methods:
                continue
            vals = dict(a[1])
            for k, v in x.defaults.items():
                vals[k] = v
            if extra:
                vals.update(extra)
            elig.append((r, a[0], vals, x))
        den = {(c[3].endpoint, c03._freeze(c[2])) for c in elig}
        anyset |= den
        if elig and best is None:
            best = {(c[3].endpoint, c03._freeze(c[2])) for c in c03._best(elig)}
    return best or set(), anyset


ALT = [("nonstrict_branch_extra_slash", {"tol_branch": True}), ("run_of_3plus_slashes", {"merge_fn": c03.merge_pairs}),
       ("nonstrict_branch_extra_slash+run_of_3plus_slashes", {"tol_branch": True, "merge_fn": c03.merge_pairs})]


# ------------------------------------------------------------------------------------------------ environment
SCRIPTS = ["/", "/app", "/app/"]
SCHEMES = ["http", "https", "ws"]
SUBS = [None, "sub", "<string:vs>"]
QUERIES = [None, "a=1&b=%20x", {"a": "1", "b": "x y"}, {"q": "é&=#?", "n": "2"}]
ENVS = [(sc, sch, sub, qi) for sc in SCRIPTS for sch in SCHEMES for sub in SUBS for qi in range(len(QUERIES))]

EVIL = ["//evil.com", "//evil.com/", "//evil.com/a", "///evil.com/a", "//evil.com//a", "/\\evil.com", "/\\evil.com/a",
        "//evil.com/%2F..", "//evil.com:80/a", "//user@evil.com/a", "http://evil.com/a", "//evil.com?x"]
ODD = ["/é", "/é/b", "/a%20b", "/%", "/%2F", "/%2f/b", "/a?b", "/a#b", "/a b", "/a/é", "/a/%", "/a//é", "//é//", "/é//b",
       "/a;b", "/a/x?y#z", "/日本", "/a/\U0001F600", "/x%", "/xé", "/a\nb", "/é//", "/%//b"]


def gen_paths(specs):
    out = dict.fromkeys(c03.gen_paths(specs, rich=True))
    for p in EVIL + ODD:
        out[p] = None
    # defaults / alias values and doubled slashes inside literal prefixes
    for sp in specs:
        segs = sp["segs"]
        if segs and segs[0][0] == "lit" and len(segs) >= 2:
            head = "/" + segs[0][1]
            for tail in ("1", "2", "en", "de", "é x", "1/p/1", "1/p/2", "1//p/1", "p/q", "p//q"):
                for v in (head + "/" + tail, head + "//" + tail, head + "/" + tail + "/", "/" + head + "/" + tail + "//"):
                    out[v] = None
    return list(out)


def build_adapter(specs, order, map_strict, map_merge, rd, env, query_mode):
    script, scheme, sub, qi = env
    ws = scheme in ("ws", "wss")
    m = Map([make_rule(specs[j], j, ws, sub) for j in order], strict_slashes=map_strict, merge_slashes=map_merge,
            redirect_defaults=rd)
    q = QUERIES[qi]
    bound_sub = None if sub is None else ("de" if "<" in sub else sub)
    ad = m.bind(SERVER, script, subdomain=bound_sub, url_scheme=scheme, query_args=q if query_mode == "bind" else None)
    return m, ad, bound_sub


def canonical_paths(xrefs, den):
    """decoded paths of the non-alias rules of an endpoint for the denoted (endpoint, args) pairs"""
    out = set()
    for ep, frozen in den:
        vals = {k: v for k, _t, v in frozen}
        for x in xrefs:
            if x.endpoint != ep or x.sp.get("alias"):
                continue
            if any(vals.get(k) != str(v) for k, v in x.defaults.items()):
                continue
            segs = []
            ok = True
            for i, sg in enumerate(x.sp["segs"]):
                if sg[0] == "lit":
                    segs.append(sg[1])
                else:
                    v = vals.get(f"v{i}")
                    if v is None:
                        ok = False
                        break
                    segs.append(sg[1] + v + (sg[3] if sg[0] == "var" else ""))
            if ok:
                out.add("/" + "/".join(segs) + ("/" if x.ref.branch and segs else ""))
    return out


def check_redirect(ad, xrefs, map_strict, map_merge, env, bound_sub, path, first_url, query_mode, rd=True):
    """all clause checks for one redirect chain; returns list of (check, observed, expected)"""
    script, scheme, sub, qi = env
    q = QUERIES[qi]
    root = script.rstrip("/")
    host = SERVER if bound_sub is None else f"{bound_sub}.{SERVER}"
    fails = []
    extra = {"vs": "de"} if (sub and "<" in sub) else None
    best, anyset = denotation(xrefs, map_strict, map_merge, path, "GET", extra)
    src = c03.norm_path(path)
    url = first_url
    kinds = []
    seen = set()
    for hop in range(6):
        s = urlsplit(url)
        if s.scheme != scheme or s.netloc != host:
            fails.append(("host", url, f"{scheme}://{host}{root}/..."))
            return fails, kinds
        if not _VALID_PATH.match(s.path) or not _VALID_QUERY.match(s.query) or s.fragment or "#" in url:
            fails.append(("syntax", url, "ASCII URL with valid %-escapes, no fragment"))
        if not s.path.startswith(root + "/"):
            fails.append(("script_root", url, f"path under {root}/"))
            return fails, kinds
        # query preserved
        if not q:
            okq = s.query == ""
        elif isinstance(q, str):
            okq = s.query == q
        else:
            try:
                okq = parse_qsl(s.query, keep_blank_values=True, strict_parsing=True, encoding="utf-8", errors="strict") == [
                    (str(k), str(v)) for k, v in q.items()]
            except ValueError:
                okq = False
        if not okq:
            fails.append(("query", url, f"query {q!r} preserved"))
        try:
            tgt = strict_unquote(s.path)[len(root):]
        except Exception as e:  # noqa: BLE001
            fails.append(("syntax.decode", url + " " + repr(e)[:60], "decodable path"))
            return fails, kinds
        # form of the target: source + "/", source with merged slashes (+ "/"), or the canonical URL of a defaults /
        # alias family for what the source denotes
        forms = {src + "/"}
        for mm_ in (c03.merge_pairs(src), c03.merge_full(src)):
            if mm_ != src:
                forms |= {mm_, mm_ + "/"}
        if tgt not in forms:
            canon = canonical_paths(xrefs, denotation(xrefs, map_strict, map_merge, src, "GET", extra, True)[1]) if rd else set()
            if tgt not in canon:
                fails.append(("target.form", f"{src!r} -> {url}", "one of " + "; ".join(sorted(forms | canon))[:250]))
        # kind of this hop
        if tgt == src:
            kind = "self"
        elif tgt == src + "/":
            kind = "slash"
        elif "//" in src and c03.merge_full(tgt) == c03.merge_full(src) and len(tgt) < len(src):
            kind = "merge"
        elif "//" in src and c03.merge_full(tgt) == c03.merge_full(src) + "/":
            kind = "merge+slash"
        else:
            kind = "canonical"
        for k in kind.split("+"):
            if k in kinds or k == "self":
                fails.append(("converge.same_kind_again", f"{path!r}: hops {kinds + [kind]} -> {url}",
                              "no further redirect of the same kind"))
                return fails, kinds + [kind]
        kinds += kind.split("+")
        if url in seen:
            fails.append(("converge.loop", url, "no loop"))
            return fails, kinds
        seen.add(url)
        # follow
        try:
            qa = s.query if query_mode == "match" else None
            got = ad.match(tgt, "GET", query_args=qa) if qa is not None else ad.match(tgt, "GET")
        except RequestRedirect as e:
            src = tgt
            url = e.new_url
            if hop == 5:
                fails.append(("converge.too_many_hops", f"{path!r}: {kinds}", "<= 5 hops"))
                return fails, kinds
            continue
        except HTTPException as e:
            name = "converge.target_unmatched"
            cands = {tgt, c03.merge_full(tgt), c03.merge_pairs(tgt)}
            if any(x.ref.loose_admit(q) and x.ref.admit(q, False, True) is None for x in xrefs for q in cands):
                name += ".rejecting_converter"  # C03 finding: a converter that validates after its regex matched
            fails.append((name, f"{path!r} -> {url} -> {type(e).__name__}", "the redirect target matches"))
            return fails, kinds
        except Exception as e:  # noqa: BLE001
            fails.append(("converge.crash", f"{path!r} -> {url} -> {e!r}"[:300], "the redirect target matches"))
            return fails, kinds
        final = (got[0], c03._freeze(got[1]))
        if final not in best:
            name = "same.denotation" if final not in anyset else "same.priority"
            for tag, kw in ALT:  # name the failure after the C03 finding that explains it, if one does
                if "merge_fn" in kw and "///" not in c03.norm_path(path):
                    continue
                if final in denotation(xrefs, map_strict, map_merge, path, "GET", extra, **kw)[0]:
                    name += "." + tag
                    break
            want = best if name.startswith("same.priority") else anyset
            fails.append((name, f"{path!r} -> {url} -> {got!r}"[:400],
                          ("one of " + "; ".join(sorted(map(repr, want)))[:250]) if want else "no rule admits the original path"))
        return fails, kinds
    return fails, kinds


# ------------------------------------------------------------------------------------------------ evaluation
class Acc(c03.Acc):
    def __init__(self):
        super().__init__()
        self.kinds = {}
        self.redirects = 0


def eval_map(acc, specs, order, map_strict, map_merge, rd, env, query_mode, paths=None):
    specs = [resolve_flags(sp, map_strict, map_merge) for sp in specs]
    xrefs = [XRef(sp, j) for j, sp in enumerate(specs)]
    if paths is None:
        paths = gen_paths(specs)
    try:
        m, ad, bound_sub = build_adapter(specs, order, map_strict, map_merge, rd, env, query_mode)
    except Exception as e:  # noqa: BLE001
        acc.evals += 1
        acc.fail("map.construct", _inp(specs, order, map_strict, map_merge, rd, env, query_mode, ""), repr(e)[:200], ["a Map"])
        return
    acc.maps += 1
    q = QUERIES[env[3]]
    for p in paths:
        acc.evals += 1
        try:
            if query_mode == "match" and q is not None:
                ad.match(p, "GET", query_args=q)
            else:
                ad.match(p, "GET")
            continue
        except RequestRedirect as e:
            url = e.new_url
        except HTTPException:
            continue
        except Exception as e:  # noqa: BLE001
            acc.fail("match.crash", _inp(specs, order, map_strict, map_merge, rd, env, query_mode, p), repr(e)[:200], ["no crash"])
            continue
        acc.redirects += 1
        acc.nontrivial += 1
        fails, kinds = check_redirect(ad, xrefs, map_strict, map_merge, env, bound_sub, p, url, query_mode, rd)
        kk = "+".join(kinds)
        acc.kinds[kk] = acc.kinds.get(kk, 0) + 1
        for check, obs, exp in fails:
            acc.fail(check, _inp(specs, order, map_strict, map_merge, rd, env, query_mode, p), obs, exp if isinstance(exp, list) else [exp])


def _inp(specs, order, map_strict, map_merge, rd, env, query_mode, path):
    return {"rules": [specs[j] for j in order], "endpoints": list(order), "strict_slashes": map_strict, "merge_slashes": map_merge,
            "redirect_defaults": rd, "script_name": env[0], "scheme": env[1], "subdomain": env[2], "query": env[3],
            "query_mode": query_mode, "path": path}


MAPCFG = [(s, m) for s in (True, False) for m in (True, False)]


def _work(task):
    kind, items = task
    acc = Acc()
    for it in items:
        if kind == "one":
            # full product of environments for single-rule maps
            sp, envs = it
            for (ms, mm) in MAPCFG:
                for ei in envs:
                    eval_map(acc, [sp], (0,), ms, mm, True, ENVS[ei], "bind" if ei % 2 else "match")
        elif kind == "multi":
            specs, envs, rds, perms = it
            for (ms, mm) in MAPCFG:
                for rd in rds:
                    for order in perms:
                        for ei in envs:
                            eval_map(acc, specs, order, ms, mm, rd, ENVS[ei], "bind" if ei % 2 else "match")
    return acc


def _chunks(lst, n):
    return [lst[i:i + n] for i in range(0, len(lst), n)]


def build_tasks(tier, seed):
    r = rng(seed, "c12")
    tasks = []
    one = []
    for i, sp in enumerate(pool_one()):
        if sp["strict"] is None and sp["merge"] is None:
            one.append((sp, list(range(len(ENVS)))))          # full product of environments
        else:
            one.append((sp, [(5 * i + 9 * j) % len(ENVS) for j in range(12)]))
    tasks += [("one", c) for c in _chunks(one, 2)]
    two = pool_two()
    multi = []
    k = 0
    for a, b in itertools.combinations(range(len(two)), 2):
        multi.append(([two[a], two[b]], [k % len(ENVS)], [True], [(0, 1), (1, 0)]))
        k += 5
    fams = families()
    shapes0 = [xspec(segs, br) for segs, br in SHAPES]
    for f in fams:
        n = len(f)
        perms = list(itertools.permutations(range(n)))
        envs = [(k + 7 * j) % len(ENVS) for j in range(6)]
        k += 11
        multi.append((f, list(range(fams.index(f) % 6, len(ENVS), 6)), [True, False], perms))
        for third in shapes0 + [xspec(segs, br, s, m) for segs, br in SHAPES[:7] for s, m in (("flip", None),)]:
            envs = [(k + 7 * j) % len(ENVS) for j in range(3)]
            k += 11
            sp3 = f + [third]
            multi.append((sp3, envs, [True, False], [tuple(range(n + 1)), tuple(reversed(range(n + 1)))]))
    small = two[::3][:13] + [two[1], two[10]]
    for tri in itertools.combinations(range(len(small)), 3):
        multi.append(([small[i] for i in tri], [k % len(ENVS)], [True], list(itertools.permutations(range(3)))))
        k += 5
    if tier == "thorough":
        for a, b in itertools.combinations(range(len(two)), 2):
            multi.append(([two[a], two[b]], [(k + 13 * j) % len(ENVS) for j in range(6)], [True, False], [(0, 1), (1, 0)]))
            k += 5
        for _ in range(2000):
            n = r.choice([3, 3, 4, 4, 5, 6])
            sps = [r.choice(two) for _ in range(n)]
            if r.random() < 0.6:
                sps = r.choice(fams) + sps[: n - 2]
            perms = [tuple(range(len(sps)))] + [tuple(r.sample(range(len(sps)), len(sps))) for _ in range(1)]
            multi.append((sps, [r.randrange(len(ENVS)) for _ in range(3)], [True, False], perms))
    tasks += [("multi", c) for c in _chunks(multi, 6)]
    return tasks


DOMAIN = (
    "rules of the C03 grammar (13 shapes: literal / string / int / int(fixed_digits) / x<string> / path segments, leaf and "
    "branch, root) with per-rule strict_slashes and merge_slashes overrides, defaults families (7) and alias families (4); "
    "map-level strict_slashes x merge_slashes, redirect_defaults on/off; script_name '/', '/app', '/app/'; schemes http, "
    "https, ws (websocket rules); no subdomain, static subdomain, variable subdomain; query arguments none, string, "
    "mapping (given to bind or to match). 1-rule maps: 13 shapes x 4 map settings x all 108 environments, the 8 per-rule "
    "override combinations x 12 environments; 2-rule maps: all pairs of 39 rules, both orders, 4 map settings, environment "
    "rotating; families alone (all orders, 18 environments) and with each of 20 extra rules; 3-rule maps: all triples of 15 "
    "rules, all orders. "
    "Paths: the C03 hit/near-hit/miss paths with trailing, doubled, tripled, leading slashes, 12 '//host' style paths, 23 "
    "paths with non-ASCII, '%', '?', '#', space, newline, plus defaults/alias values with doubled slashes")


def explained(check):
    """True for the failure classes described in FINDINGS_C12.md (consequences of C03 findings)"""
    return any(t in check for t in ("rejecting_converter", "nonstrict_branch_extra_slash", "run_of_3plus_slashes"))


SAMPLES = [
    {"check": "redirect", "input": {"rules": ["/<path:v0>/"], "strict_slashes": True, "script_name": "/app", "scheme": "https",
                                    "subdomain": "sub", "query": "a=1&b=%20x", "path": "//evil.com/a"}},
    {"check": "redirect", "input": {"rules": ["/d/ defaults v1=1", "/d/<int:v1>"], "redirect_defaults": True, "path": "/d//1"}},
    {"check": "redirect", "input": {"rules": ["/c/<string:v1>/", "/al/<string:v1>/ alias"], "path": "/al/é", "query": {"q": "é&=#?"}}},
]


def run(tier, seed, reg=None):
    common.assert_tree()
    t0 = time.time()
    tasks = build_tasks(tier, seed)
    sub = int(os.environ.get("BOUNDED_SUBSAMPLE", "1"))  # development aid (mutant screening): every k-th task only
    if sub > 1:
        tasks = tasks[::sub]
    acc = Acc()
    procs = min(16, os.cpu_count() or 4)
    ctx = mp.get_context("fork")
    with ctx.Pool(procs) as pool:
        for a in pool.imap_unordered(_work, tasks, chunksize=1):
            acc.merge(a)
            acc.redirects += a.redirects
            for k, v in a.kinds.items():
                acc.kinds[k] = acc.kinds.get(k, 0) + v
    failures = c03.select_failures(acc.fails, explained)
    dom = DOMAIN
    if tier == "thorough":
        dom += ("; thorough adds all pairs again under 6 environments each with redirect_defaults on/off and 2000 seeded random "
                "maps of 3-6 rules (with a family in 60%), 2 insertion orders, 3 environments each")
    return {"evaluations": acc.evals, "distinct_nontrivial": acc.nontrivial,
            "rule": "one evaluation = one MapAdapter.match(path) on one (map, settings, environment); distinct_nontrivial = "
                    "evaluations that raised RequestRedirect (each gets the host/syntax/query/converge/same checks, following up "
                    "to 5 hops)",
            "domain": dom, "exhaustive": sub == 1 and tier == "quick", "samples": SAMPLES, "failures": failures[:25], "failure_counts": acc.fail_counts,
            "maps": acc.maps, "redirect_chains_by_kind": acc.kinds, "wall_s": round(time.time() - t0, 2)}


def replay(payload):
    common.assert_tree()
    inp = unj(payload["inputs"])
    specs_in_order = inp["rules"]
    eps = inp["endpoints"]
    n = len(specs_in_order)
    canon = [None] * n
    for sp, e in zip(specs_in_order, eps):
        canon[e] = sp
    env = (inp["script_name"], inp["scheme"], inp["subdomain"], inp["query"])
    acc = Acc()
    eval_map(acc, canon, tuple(eps), inp["strict_slashes"], inp["merge_slashes"], inp["redirect_defaults"], env,
             inp["query_mode"], paths=[inp["path"]])
    want = payload.get("obligation", "").split("bounded:", 1)[-1]
    return (want in acc.fail_counts) if want else bool(acc.fail_counts)
