"""Bounded tier for C17 - content negotiation picks a best-quality, most-specific offer.

Oracle = the property statement, as a declarative reference written here (nothing below calls
Accept._value_matches / _specificity / best_match / codecs.lookup to compute an expected value):

  * an item is kept iff its q is absent (then 1) or a well-formed number in [0, 1];
  * quality(offer) = q of the most specific client range that matches the offer (ties between equally
    specific matching ranges - only duplicates of the same range can tie - resolved to the larger q, the
    reading recorded in DESIGN.md section 8/C17), 0 if nothing matches;
  * best_match(offers) = the offer maximising (quality, specificity of its best range, earlier position),
    among offers with quality > 0; None/default if there is none;
  * list(accept) = the kept items, client order preserved among items of equal (specificity, q), more specific /
    higher q first.

Family semantics used by the reference (range matching is the only family-specific part):
  generic   case-insensitive equality, "*" wildcard; specificity: "*" < anything else
  mime      type/subtype case-insensitive, "type/*", "*/*"; a range with parameters matches an offer with the same
            parameter set; specificity */* < type/* < type/subtype < type/subtype;params (more params = more specific).
            Range WITHOUT parameters against an offer WITH parameters: RFC 9110 says match, werkzeug documents
            "parameters are used for matching" - both readings are evaluated and the check is strict only where they
            agree (otherwise either answer is accepted).
  language  tags compared case-insensitively with "-" and "_" equivalent; documented fallbacks of
            LanguageAccept.best_match: (1) exact, (2) client ranges cut to their primary tag against the offers,
            (3) offers cut to their primary tag against the client ranges; the first stage with a result wins.  An
            offer whose own (exact, non-wildcard) range carries q=0 is never chosen at any stage (statement: "an offer
            whose best range has q=0 ... is never chosen").
  charset   names compared through a fixed alias table (utf-8/utf8/u8, iso-8859-1/latin1/latin-1/l1, ascii/us-ascii/646,
            cp1252/windows-1252), otherwise case-insensitively.
"""
from __future__ import annotations

import itertools
import multiprocessing
import re

import bounded.common as common
from bounded.common import Collector, unj

import werkzeug  # noqa: E402
from werkzeug import http as whttp
from werkzeug.datastructures import Accept, CharsetAccept, LanguageAccept, MIMEAccept

common.assert_tree()

RULE = ("a distinct non-trivial case is one (check, family, client items, offers) tuple in which at least one offer is "
        "matched by a range with q>0 or one item is dropped for its q; headers that match no offer at all count as "
        "evaluations only")

CLASSES = {"generic": Accept, "mime": MIMEAccept, "language": LanguageAccept, "charset": CharsetAccept}

RANGES = {
    "generic": ["gzip", "GZIP", "br", "identity", "deflate", "*"],
    "mime": ["text/html", "text/*", "*/*", "text/html;level=1", "text/plain", "image/png", "TEXT/HTML", "image/*",
             "text/html;level=2"],
    "language": ["en", "en-US", "en_gb", "EN-us", "de", "de-AT", "enm", "*"],
    "charset": ["utf-8", "UTF8", "iso-8859-1", "latin1", "us-ascii", "x-unknown", "*"],
}
OFFERS = {
    "generic": ["gzip", "br", "identity", "Gzip", "zstd"],
    "mime": ["text/html", "text/plain", "image/png", "application/json", "text/html;level=1", "TEXT/Html",
             "text/html; level=2"],
    "language": ["en", "en-US", "en_US", "de", "de-AT", "enm", "fr-CA", "EN-GB"],
    "charset": ["utf-8", "utf8", "latin-1", "ISO-8859-1", "ascii", "X-Unknown", "cp1252"],
}
Q_VALID = [None, "0", "0.001", "0.5", "1", "1.000"]
Q_INVALID = ["1.", "-1", "2", "x", "1.001", "-0.5", "0.5x", "+1", ".5"]
Q_EMPTY = [""]          # "q=" - malformed; reported under its own check name
QF = {None: 1.0, "0": 0.0, "0.001": 0.001, "0.5": 0.5, "1": 1.0, "1.000": 1.0, "0.8": 0.8, "0.3": 0.3, "0.9": 0.9}

_CHARSET_ALIASES = [
    {"utf-8", "utf8", "utf_8", "u8", "utf"},
    {"iso-8859-1", "iso8859-1", "latin1", "latin-1", "latin_1", "l1", "iso_8859-1", "8859", "cp819"},
    {"ascii", "us-ascii", "646", "us_ascii"},
    {"cp1252", "windows-1252", "windows_1252"},
]


def _charset_norm(name):
    n = name.lower()
    for i, group in enumerate(_CHARSET_ALIASES):
        if n in group:
            return ("alias", i)
    return ("name", n)


def _lang_norm(tag):
    return tuple(re.split(r"[-_]", tag.lower()))


def _lang_prim(tag):
    return re.split(r"[-_]", tag, maxsplit=1)[0]


def _mime_parts(text):
    """-> (type, subtype, frozenset(params)) all lower-cased, whitespace around ';' ignored"""
    segs = [s.strip() for s in text.lower().split(";")]
    t, _, st = segs[0].partition("/")
    return t, st, tuple(sorted(segs[1:]))


# ----- reference matchers: match(offer, range) -> bool, spec(range) -> comparable
def g_match(o, r):
    return r == "*" or r.lower() == o.lower()


def g_spec(r):
    return (0,) if r == "*" else (1,)


def c_match(o, r):
    return r == "*" or _charset_norm(o) == _charset_norm(r)


def l_match1(o, r):
    return r == "*" or _lang_norm(o) == _lang_norm(r)


def l_match2(o, r):          # r is already a primary tag; plain case-insensitive comparison with the whole offer
    return r == "*" or r.lower() == o.lower()


def l_match3(o, r):
    return r == "*" or _lang_norm(_lang_prim(o)) == _lang_norm(r)


def m_spec(r):
    t, st, params = _mime_parts(r)
    if t == "*":
        return (0, 0)
    if st == "*":
        return (1, 0)
    return (2, len(params))


def m_match_exact(o, r):
    rt, rst, rp = _mime_parts(r)
    ot, ost, op = _mime_parts(o)
    if rt == "*" and rst == "*":
        return True
    if rt != ot:
        return False
    if rst == "*":
        return True
    return rst == ost and rp == op


def m_match_rfc(o, r):
    rt, rst, rp = _mime_parts(r)
    ot, ost, op = _mime_parts(o)
    if rt == "*" and rst == "*":
        return True
    if rt != ot:
        return False
    if rst == "*":
        return True
    return rst == ost and set(rp) <= set(op)


def best_range(o, items, match, spec):
    """(spec, q) of the most specific matching range (larger q among equals) or None"""
    ms = [(spec(r), q) for r, q in items if match(o, r)]
    return max(ms) if ms else None


_MATCHERS = {
    "generic": {"m": (g_match, g_spec)},
    "charset": {"m": (c_match, g_spec)},
    "mime": {"exact": (m_match_exact, m_spec), "rfc": (m_match_rfc, m_spec)},
    "language": {"s1": (l_match1, g_spec), "s2": (l_match2, g_spec), "s3": (l_match3, g_spec),
                 "s1nw": (l_match1, g_spec)},
}


class Ref:
    """reference for one (family, kept items) pair; best ranges are tabulated per (matcher, offer)"""

    def __init__(self, family, items):
        self.family = family
        self.items = items
        self.tab = {}
        if family == "language":
            self.items_of = {"s1": items, "s2": [(_lang_prim(x), q) for x, q in items], "s3": items,
                             "s1nw": [(r, q) for r, q in items if r != "*"]}
        else:
            self.items_of = {k: items for k in _MATCHERS[family]}

    def br(self, name, o):
        """best (spec, q) for offer o under the named matcher, or None"""
        k = (name, o)
        try:
            return self.tab[k]
        except KeyError:
            m, s = _MATCHERS[self.family][name]
            v = self.tab[k] = best_range(o, self.items_of[name], m, s)
            return v

    def _q(self, name, o):
        b = self.br(name, o)
        return b[1] if b else 0

    def quality_set(self, o):
        """set of acceptable quality(o) values (two values only for the ambiguous mime parameter case)"""
        f = self.family
        if f == "mime":
            return {self._q("exact", o), self._q("rfc", o)}
        return {self._q("s1" if f == "language" else "m", o)}

    def contains_set(self, o):
        f = self.family
        if f == "mime":
            return {self.br("exact", o) is not None, self.br("rfc", o) is not None}
        return {self.br("s1" if f == "language" else "m", o) is not None}

    def refused(self, o):
        """the offer's own most specific range says q=0"""
        f = self.family
        if f == "language":
            b = self.br("s1nw", o)
            return b is not None and b[1] <= 0
        if f == "mime":
            b, b2 = self.br("exact", o), self.br("rfc", o)
            return b is not None and b[1] <= 0 and b2 is not None and b2[1] <= 0
        b = self.br("m", o)
        return b is not None and b[1] <= 0

    def verdicts(self, o):
        """('unmatched' | 'q0' | 'ok') over every matcher of the family: ok if some matcher gives q > 0"""
        bs = [self.br(name, o) for name in _MATCHERS[self.family] if name != "s1nw"]
        if all(b is None for b in bs):
            return "unmatched"
        if all(b is None or b[1] <= 0 for b in bs) or self.refused(o):
            return "q0"
        return "ok"

    def _pick(self, name, offers, banned=()):
        best = None
        bkey = None
        for idx, o in enumerate(offers):
            if o in banned:
                continue
            b = self.br(name, o)
            if b is None or b[1] <= 0:
                continue
            key = (b[1], b[0], -idx)
            if bkey is None or key > bkey:
                best, bkey = o, key
        return best

    def best_set(self, offers):
        """set of acceptable best_match results"""
        f = self.family
        if f == "mime":
            return {self._pick("exact", offers), self._pick("rfc", offers)}
        if f == "language":
            banned = [o for o in offers if self.refused(o)]
            r = self._pick("s1", offers, banned)
            if r is None:
                r = self._pick("s2", offers, banned)
            if r is None:
                r = self._pick("s3", offers, banned)
            return {r}
        return {self._pick("m", offers)}

    def spec(self, r):
        return m_spec(r) if self.family == "mime" else g_spec(r)


# ---------------------------------------------------------------------------------------------
class Sec:
    def __init__(self):
        self.evaluations = 0
        self.distinct = set()
        self.failures = []
        self.fail_sigs = {}
        self.samples = []

    def case(self, check, inp, nontrivial=True, key=None):
        self.evaluations += 1
        if nontrivial:
            self.distinct.add(hash((check, key if key is not None else repr(inp))))
        if len(self.samples) < 2 and self.evaluations % 9973 == 1:
            self.samples.append({"check": check, "input": common._j(inp)})

    def fail(self, check, inp, observed, expected="", sig=None):
        k = (check, sig)
        n = self.fail_sigs.get(k, 0)
        self.fail_sigs[k] = n + 1
        if n < 2 and len(self.failures) < 60:
            self.failures.append({"check": check, "input": common._j(inp), "observed": str(observed)[:500],
                                  "expected": str(expected)[:300], "_sig": repr(sig),
                                  "_size": len(repr(inp))})


STYLES = [(";q=", ", "), ("; q=", ","), (";Q=", " , "), (" ;q=", ", ")]


def build_header(spec_items, style=0):
    qsep, isep = STYLES[style % len(STYLES)]
    return isep.join(r + (qsep + q if q is not None else "") for r, q in spec_items)


def kept_items(spec_items):
    """reference parse: [(range_text, float q)] for items with an absent or valid q, client order"""
    out = []
    for r, q in spec_items:
        if q is None or q in QF:
            out.append((r, QF[q]))
    return out


def _norm_value(v):
    return re.sub(r"\s*;\s*", ";", v)


def make_accept(family, mode, spec_items, style=0):
    cls = CLASSES[family]
    if mode == "parse":
        return whttp.parse_accept_header(build_header(spec_items, style), cls)
    return cls([(r, QF[q]) for r, q in spec_items])


def check_header(sec, family, mode, spec_items, style=0, offers_lists=None, only=None):
    """Evaluate all clauses for one client header.  spec_items: [(range_text, q_text|None)]"""
    inp0 = {"family": family, "mode": mode, "items": [list(x) for x in spec_items], "style": style}
    ref_items = kept_items(spec_items)
    ref = Ref(family, ref_items)
    has_empty_q = any(q == "" for _, q in spec_items)
    dropped = len(ref_items) != len(spec_items)
    try:
        acc = make_accept(family, mode, spec_items, style)
    except Exception as e:  # noqa: BLE001
        sec.case(f"{family}:parse_items", inp0)
        sec.fail(f"{family}:parse_items", inp0, f"raised {e!r}", "an Accept object", sig=type(e).__name__)
        return False
    ok = True
    universe = OFFERS[family]

    # ---- parsing: kept items and their order
    if only in (None, "parse_items", "parse_order", "parse_items_empty_q"):
        check = f"{family}:parse_items_empty_q" if has_empty_q else f"{family}:parse_items"
        sec.case(check, inp0, dropped or len(spec_items) > 1, key=(family, mode, tuple(spec_items), style))
        got = [(_norm_value(v), float(q)) for v, q in acc]
        exp_sorted = sorted(ref_items, key=lambda it: (ref.spec(it[0]), it[1]), reverse=True)
        if sorted(got) != sorted(ref_items):
            bad_q = sorted({q for _, q in spec_items if q is not None and q not in QF}, key=str)
            sec.fail(check, inp0, f"{build_header(spec_items, style)!r} -> {list(acc)!r}", ref_items,
                     sig=("kept", tuple(bad_q[:1])))
            return False
        if mode == "parse" and not has_empty_q:
            if acc.provided is not True:
                sec.fail(check, inp0, "provided is not True", True, sig="provided")
                ok = False
        sec.case(f"{family}:parse_order", inp0, len(ref_items) > 1, key=(family, mode, tuple(spec_items), style))
        if got != exp_sorted:
            sec.fail(f"{family}:parse_order", inp0, f"{list(acc)!r}", exp_sorted, sig=len(ref_items))
            ok = False
        if ref_items and (acc.best is None or _norm_value(acc.best) != exp_sorted[0][0]):
            sec.fail(f"{family}:parse_order", inp0, f"best={acc.best!r}", exp_sorted[0][0], sig="best")
            ok = False
    if has_empty_q:
        return ok

    # ---- quality / containment / find per offer
    if only in (None, "quality"):
        for o in universe:
            inp = dict(inp0, offer=o)
            qs = ref.quality_set(o)
            cs = ref.contains_set(o)
            sec.case(f"{family}:quality", inp, any(q > 0 for q in qs), key=(family, mode, tuple(spec_items), o))
            try:
                got_q = (acc.quality(o), acc[o], o in acc, acc.find(o))
            except Exception as e:  # noqa: BLE001
                sec.fail(f"{family}:quality", inp, f"raised {e!r}", sorted(qs), sig=type(e).__name__)
                ok = False
                continue
            q1, q2, cont, idx = got_q
            good = q1 in qs and q2 in qs and cont in cs and ((idx == -1) == (not cont))
            if good and idx != -1:
                good = 0 <= idx < len(acc) and float(acc[idx][1]) == float(q1)
            if not good:
                sec.fail(f"{family}:quality", inp, f"quality={q1!r} getitem={q2!r} contains={cont!r} find={idx!r} in {list(acc)!r}",
                         f"quality in {sorted(qs)}, contains in {sorted(cs)}", sig=(len(ref_items), min(qs) > 0))
                ok = False

    # ---- best_match over offer lists
    if only in (None, "best_match", "never_chosen_q0", "never_chosen_unmatched"):
        for n_ol, offers in enumerate(offers_lists or ()):
            offers = list(offers)
            inp = dict(inp0, offers=offers)
            exp = ref.best_set(offers)
            sec.case(f"{family}:best_match", inp, exp != {None}, key=(family, mode, tuple(spec_items), tuple(offers)))
            try:
                got = acc.best_match(offers)
                got_d = acc.best_match(offers, default="<default>") if n_ol % 4 == 0 else None
            except Exception as e:  # noqa: BLE001
                sec.fail(f"{family}:best_match", inp, f"raised {e!r}", sorted(exp, key=str), sig=type(e).__name__)
                ok = False
                continue
            if got_d is not None:
                want_d = {("<default>" if e is None else e) for e in exp}
                if got_d not in want_d:
                    got = got_d if got in exp else got
                    if got in exp:
                        sec.fail(f"{family}:best_match", inp, f"best_match(offers, default='<default>') = {got_d!r}",
                                 sorted(want_d), sig="default")
                        ok = False
                        continue
            if got not in exp:
                if got is not None and got not in offers:
                    name, sig = "best_match", "not-an-offer"
                elif got is not None and ref.verdicts(got) == "q0":
                    name, sig = "never_chosen_q0", (len(ref_items), len(offers))
                elif got is not None and ref.verdicts(got) == "unmatched":
                    name, sig = "never_chosen_unmatched", (len(ref_items), len(offers))
                else:
                    name, sig = "best_match", (len(ref_items), len(offers), got is None)
                sec.fail(f"{family}:{name}", inp, f"best_match({offers!r}) = {got!r} on {list(acc)!r}",
                         " or ".join(repr(e) for e in sorted(exp, key=str)), sig=sig)
                ok = False
    return ok


# ---------------------------------------------------------------------------------------------
def offer_lists(family, maxlen):
    u = OFFERS[family]
    out = []
    for n in range(1, maxlen + 1):
        out.extend(itertools.permutations(u, n))
    return out


def offer_lists_h2(family, tier):
    """all ordered lists of <= 2 distinct offers; 3-offer lists: every order in thorough, every 3-subset in
    ascending and descending universe order in quick"""
    if tier != "quick":
        return offer_lists(family, 3)
    u = OFFERS[family]
    out = offer_lists(family, 2)
    for combo in itertools.combinations(u, 3):
        out.append(combo)
        out.append(combo[::-1])
    return out


def sec_h1(tier, seed, family):
    """one-item headers: every range x every q (valid, invalid, empty), all syntactic styles"""
    sec = Sec()
    ol = offer_lists(family, 3)
    for r in RANGES[family]:
        for q in Q_VALID + Q_INVALID + Q_EMPTY:
            for style in range(len(STYLES)):
                check_header(sec, family, "parse", [(r, q)], style, ol if style == 0 else ol[: len(OFFERS[family])])
    return sec


def sec_h2(tier, seed, family, part, nparts):
    """two-item headers in both orders"""
    sec = Sec()
    qs = [None, "0", "0.001", "0.5", "1.000", "x"] if tier == "quick" else Q_VALID + Q_INVALID
    ol = offer_lists_h2(family, tier)
    items = [(r, q) for r in RANGES[family] for q in qs]
    i = 0
    for a in items:
        for b in items:
            i += 1
            if i % nparts != part:
                continue
            check_header(sec, family, "parse", [a, b], i % len(STYLES), ol)
    return sec


def sec_h3(tier, seed, family, part, nparts):
    """three-item clients, every order, built directly from (value, q) tuples and through the parser"""
    sec = Sec()
    if tier == "quick":
        qs = [None, "0", "0.5"]
        rs = {"generic": ["gzip", "GZIP", "br", "identity", "*"],
              "mime": ["text/html", "text/*", "*/*", "text/html;level=1", "image/png"],
              "language": ["en", "en-US", "de", "enm", "*"],
              "charset": ["utf-8", "UTF8", "latin1", "x-unknown", "*"]}[family]
        ol = offer_lists(family, 2)
    else:
        qs = [None, "0", "0.5", "0.001"]
        rs = RANGES[family]
        ol = offer_lists_h2(family, "quick")
    items = [(r, q) for r in rs for q in qs]
    i = 0
    for combo in itertools.product(items, repeat=3):
        i += 1
        if i % nparts != part:
            continue
        mode = "direct" if i % 2 else "parse"
        check_header(sec, family, mode, list(combo), i % len(STYLES), ol)
    return sec


def sec_extra(tier, seed, family):
    """hand-written hostile shapes + seeded random longer headers"""
    sec = Sec()
    ol = offer_lists(family, 3)
    extra = {
        "mime": [[("text/html;level=1", "0.5"), ("text/html", "0.5"), ("text/*", "0.5"), ("*/*", "0.5")],
                 [("*/*", "0.5"), ("text/*", "0.5"), ("text/html", "0.5"), ("text/html;level=1", "0.5")],
                 [("text/html;level=1;x=2", None), ("text/html;level=1", "0.5")],
                 [("text/html", "0"), ("text/*", None)], [("text/*", "0"), ("*/*", None)],
                 [("text/html", "0.5"), ("text/html", "0.8")], [("text/html", "0.8"), ("TEXT/html", "0.5")]],
        "language": [[("en-US", "0"), ("en", None)], [("en", "0"), ("en-US", None)], [("en", None), ("*", "0")],
                     [("en", None)], [("EN_us", None), ("de", "0.5")], [("en-US", "0.5"), ("en-GB", "0.8")],
                     [("de-AT", None), ("de", "0.9"), ("en-US", "0.8")], [("*", "0.5"), ("en", "0")]],
        "charset": [[("utf8", "0"), ("*", None)], [("latin1", "0.5"), ("ISO-8859-1", "0.8")], [("u8", None)],
                    [("l1", "0.3"), ("utf-8", "0.3")]],
        "generic": [[("gzip", "0"), ("*", None)], [("*", "0"), ("gzip", None)], [("gzip", "0.5"), ("GZIP", "0.8")],
                    [("identity", "0.5"), ("*", "0.5")]],
    }[family]
    for items in extra:
        for perm in itertools.permutations(items):
            for mode in ("parse", "direct"):
                check_header(sec, family, mode, list(perm), 0, ol)
    if family == "mime":
        # media ranges and offers with two parameters: parameters are a set, their order does not matter (seed C17-4)
        two = [[("text/html;level=1;charset=utf-8", None), ("text/plain", "0.5")],
               [("text/html;charset=utf-8;level=1", "0.8"), ("text/*", "0.3")],
               [("application/json;a=1;b=2", "0"), ("application/*", "0.8")],
               [("text/html;level=1;charset=utf-8", "0.5"), ("text/html;level=1", "0.8"), ("*/*", "0.001")]]
        offs = ["text/html; charset=utf-8; level=1", "text/html;level=1;charset=utf-8", "text/plain", "application/json;b=2;a=1",
                "application/json; a=1; b=2", "text/html;level=1"]
        ol2 = [p_ for n_ in (1, 2) for p_ in itertools.permutations(offs, n_)]
        for items in two:
            for perm in itertools.permutations(items):
                for mode in ("parse", "direct"):
                    check_header(sec, family, mode, list(perm), 0, ol2)
    r = common.rng(seed, f"c17-{family}")
    n = 300 if tier == "quick" else 6000
    qpool = Q_VALID + ["0.8", "0.3"] + Q_INVALID[:4]
    for j in range(n):
        k = r.choice([2, 3, 4, 4, 5, 6])
        items = [(r.choice(RANGES[family]), r.choice(qpool)) for _ in range(k)]
        ols = [tuple(r.sample(OFFERS[family], r.randint(1, len(OFFERS[family])))) for _ in range(12)]
        mode = "parse"
        if j % 3 == 0 and all(q is None or q in QF for _, q in items):
            mode = "direct"
        check_header(sec, family, mode, items, j % len(STYLES), ols)
    return sec


def _run_section(job):
    name, args = job
    sec = globals()[name](*args)
    return name, sec.evaluations, len(sec.distinct), sec.failures, sec.samples


def _jobs(tier, seed):
    jobs = []
    for fam in CLASSES:
        jobs.append(("sec_h1", (tier, seed, fam)))
        jobs.append(("sec_extra", (tier, seed, fam)))
        n2 = 4 if tier == "quick" else 12
        jobs += [("sec_h2", (tier, seed, fam, p, n2)) for p in range(n2)]
        n3 = 4 if tier == "quick" else 16
        jobs += [("sec_h3", (tier, seed, fam, p, n3)) for p in range(n3)]
    return jobs


def run(tier, seed, reg=None):
    domain = ("Accept / MIMEAccept / LanguageAccept / CharsetAccept; client ranges per family "
              f"{ {k: len(v) for k, v in RANGES.items()} } (type/subtype, type/*, */*, parameters, case variants; primary and "
              "region tags with '-' and '_', 3-letter primary tag sharing a prefix, '*'; charset aliases; codings), offers "
              f"{ {k: len(v) for k, v in OFFERS.items()} }; q in {{absent, 0, 0.001, 0.5, 1, 1.000}} + malformed/out-of-range "
              f"{Q_INVALID!r} + empty; headers of 1 item (all q, 4 spacing/case styles of ';q='), 2 items (both orders, "
              f"{'6 q values' if tier == 'quick' else 'all q values'}), 3 items ({'5 ranges x 3 q' if tier == 'quick' else 'all ranges x 4 q'}, "
              "every order, alternately parsed and built from tuples); every ordered list of <= 3 distinct offers "
              f"({'for 2-item headers: <= 2 plus every 3-subset in two orders; for 3-item headers: <= 2' if tier == 'quick' else 'all for 1- and 2-item headers; for 3-item headers: <= 2 plus every 3-subset in two orders'}); seeded random headers of 2-6 items; per header: kept "
              "items + order + best, quality/[]/in/find for every offer, best_match with and without default")
    c = Collector(RULE, domain, max_failures=60)
    jobs = _jobs(tier, seed)
    ctx = multiprocessing.get_context("fork")
    with ctx.Pool(min(16, len(jobs))) as pool:
        results = pool.map(_run_section, jobs, chunksize=1)
    pool.join()
    distinct = 0
    allf = []
    for name, ev, dn, fails, samples in results:
        c.evaluations += ev
        distinct += dn
        allf.extend(fails)
        for s in samples:
            if len(c.samples) < 8:
                c.samples.append(s)
    allf.sort(key=lambda f: (f["_size"], f["check"], repr(f["input"])))
    per_sig = {}
    per_check = {}
    seen = set()
    for f in allf:
        sig = (f["check"], f.pop("_sig", None))
        f.pop("_size", None)
        k = (f["check"], repr(f["input"]))
        if k in seen:
            continue
        per_sig[sig] = per_sig.get(sig, 0) + 1
        if per_sig[sig] > 1:
            continue
        per_check[f["check"]] = per_check.get(f["check"], 0) + 1
        if per_check[f["check"]] > 8:
            continue
        seen.add(k)
        if len(c.failures) < c.max_failures:
            c.failures.append(f)
    res = c.result()
    res["distinct_nontrivial"] = distinct
    return res


def replay(payload):
    inp = unj(payload["inputs"])
    check = payload["obligation"].split(":", 1)[1]
    family = inp["family"]
    items = [(a, b) for a, b in inp["items"]]
    sec = Sec()
    ols = [tuple(inp["offers"])] if "offers" in inp else offer_lists(family, 1)
    check_header(sec, family, inp.get("mode", "parse"), items, inp.get("style", 0), ols)
    if "offer" in inp:
        return any(f["check"] == check and f["input"].get("offer") == inp["offer"] for f in sec.failures)
    return any(f["check"] == check for f in sec.failures)
