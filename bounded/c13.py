"""Bounded tier for C13 - cookie values round-trip and cannot inject attributes.

Oracle = the property statement, evaluated natively on the real code:

  R  round trip: value == parse(dump_cookie(key, value, ...)) through
       * werkzeug.sansio.http.parse_cookie      (the bare ``key=value`` pair and the whole header),
       * werkzeug.http.parse_cookie             (str and environ form) and Request(environ).cookies,
       * werkzeug.test.Cookie._from_response_header and the Client jar (Response.set_cookie ->
         Client -> next request -> request.cookies).
  E  emitted value: pure ASCII; either a run of RFC 6265 cookie-octets, or a DQUOTE-wrapped run of
     cookie-octets / SP / escapes (\\" \\\\ \\ooo) - and an independent scanner (written here, not
     werkzeug's regex) decodes it back to value.encode("utf-8").  Interpretation recorded in
     DESIGN.md section 8/C13: a raw SP inside the quotes is permitted.
  A  attributes: the text after the value is exactly "; "-joined attributes computed by an independent
     model (Domain, Expires, Max-Age, Secure, HttpOnly, Path, SameSite, Partitioned - this order, this
     spelling; partitioned => Secure; samesite title-cased, anything else ValueError; Path percent-quoted
     by a reference quoter; Domain = host without port / leading dots, IDNA from a fixed table).
  I  no injection: a naive client split on ";" sees 1 + len(expected attributes) pieces whose names are
     the expected ones; the header contains no CR, LF, NUL or non-ASCII byte.

Nothing in the reference calls the function under test (or its tables) to compute an expected value.
"""
from __future__ import annotations

import itertools
import multiprocessing
import re
import time
import warnings
from datetime import datetime, timedelta, timezone

import bounded.common as common
from bounded.common import Collector, unj

import werkzeug  # noqa: E402  (after bounded.common)
from werkzeug import http as whttp
from werkzeug.sansio import http as shttp
from werkzeug.test import Client, Cookie
from werkzeug.wrappers import Request, Response

common.assert_tree()

RULE = ("a distinct non-trivial case is one (check, key, value, attribute-combination) tuple whose value needs "
        "quoting or whose attribute combination is non-default; plain token values with default attributes "
        "are counted as evaluations only")

# ---------------------------------------------------------------------------------------------
# reference definitions (RFC 6265 section 4.1.1), independent of werkzeug's tables
COOKIE_OCTETS = frozenset([0x21] + list(range(0x23, 0x2C)) + list(range(0x2D, 0x3B)) + list(range(0x3C, 0x5C))
                          + list(range(0x5D, 0x7F)))
_OCT = frozenset(b"01234567")


def ref_split_header(header, key):
    """-> (raw_value_text, rest_text) or raises ValueError when the header does not start with key=<value>
    where <value> is a cookie-octet run or a quoted run that ends at its own closing quote."""
    prefix = key + "="
    if not header.startswith(prefix):
        raise ValueError("header does not start with key=")
    s = header[len(prefix):]
    if s[:1] == '"':
        i = 1
        n = len(s)
        while i < n:
            c = s[i]
            if c == "\\":
                i += 2
                continue
            if c == '"':
                return s[: i + 1], s[i + 1:]
            i += 1
        raise ValueError("unterminated quoted value")
    i = 0
    while i < len(s) and s[i] != ";":
        i += 1
    return s[:i], s[i:]


def ref_check_and_decode(raw):
    """Check clause E on the emitted value text, return (problem|None, decoded_bytes|None)."""
    try:
        b = raw.encode("ascii")
    except UnicodeEncodeError:
        return "non-ASCII character in emitted value", None
    if not (len(b) >= 2 and b[:1] == b'"' and b[-1:] == b'"'):
        for ch in b:
            if ch not in COOKIE_OCTETS:
                return f"unquoted value carries byte 0x{ch:02x} outside cookie-octet", None
        return None, b
    body = b[1:-1]
    out = bytearray()
    i = 0
    n = len(body)
    while i < n:
        ch = body[i]
        if ch == 0x5C:
            if i + 1 >= n:
                return "dangling backslash", None
            nx = body[i + 1]
            if nx in (0x22, 0x5C):
                out.append(nx)
                i += 2
                continue
            tri = body[i + 1: i + 4]
            if len(tri) == 3 and all(t in _OCT for t in tri) and tri[0] in b"0123":
                out.append(int(tri, 8))
                i += 4
                continue
            return f"unknown escape at offset {i}", None
        if ch in COOKIE_OCTETS or ch == 0x20:
            out.append(ch)
            i += 1
            continue
        return f"raw byte 0x{ch:02x} (not a cookie-octet) inside the quoted value", None
    return None, bytes(out)


_UNRESERVED = frozenset(b"ABCDEFGHIJKLMNOPQRSTUVWXYZabcdefghijklmnopqrstuvwxyz0123456789_.-~")
_PATH_SAFE = _UNRESERVED | frozenset(b"%!$&'()*+,/:=@")


def ref_quote_path(path):
    return "".join(chr(b) if b in _PATH_SAFE else f"%{b:02X}" for b in path.encode("utf-8"))


_DAYS = ["Mon", "Tue", "Wed", "Thu", "Fri", "Sat", "Sun"]
_MONTHS = ["Jan", "Feb", "Mar", "Apr", "May", "Jun", "Jul", "Aug", "Sep", "Oct", "Nov", "Dec"]


def ref_http_date(dt):
    if dt.tzinfo is None:
        dt = dt.replace(tzinfo=timezone.utc)
    dt = dt.astimezone(timezone.utc)
    return "%s, %02d %s %04d %02d:%02d:%02d GMT" % (_DAYS[dt.weekday()], dt.day, _MONTHS[dt.month - 1], dt.year,
                                                    dt.hour, dt.minute, dt.second)


_DATE_RE = re.compile(r"(Mon|Tue|Wed|Thu|Fri|Sat|Sun), (\d\d) (Jan|Feb|Mar|Apr|May|Jun|Jul|Aug|Sep|Oct|Nov|Dec) "
                      r"(\d{4}) (\d\d):(\d\d):(\d\d) GMT")


def ref_parse_date(text):
    m = _DATE_RE.fullmatch(text)
    if not m:
        return None
    return datetime(int(m.group(4)), _MONTHS.index(m.group(3)) + 1, int(m.group(2)), int(m.group(5)),
                    int(m.group(6)), int(m.group(7)), tzinfo=timezone.utc)


# ---------------------------------------------------------------------------------------------
# attribute domain.  Each entry: (tag, python value given to dump_cookie, expected attribute text or None)
PATHS = [
    ("default", "/", "/"), ("none", None, None), ("plain", "/app/x", "/app/x"), ("space", "/a b", "/a%20b"),
    ("semi", "/a;b=c", "/a%3Bb=c"), ("nonascii", "/café/\U0001F600", None), ("quoted", "/a%20b", "/a%20b"),
    ("ctl", "/a\r\nSet-Cookie: x=y", None),
    # a percent sign in the path must not switch the quoting off for the rest of it
    ("pct_semi", "/a%20b; Secure", "/a%20b%3B%20Secure"), ("pct_nonascii", "/\u00e9/50%", "/%C3%A9/50%"),
    ("pct_space", "/50% off", "/50%%20off"), ("dq", '/a"b\\c', "/a%22b%5Cc"), ("safe", "/!$&'()*+,/:=@", "/!$&'()*+,/:=@"),
]
DOMAINS = [
    ("none", None, None), ("plain", "example.com", "example.com"), ("port", "example.com:8080", "example.com"),
    ("dot", ".example.com", "example.com"), ("dots_port", "..sub.example.com:443", "sub.example.com"),
    ("idna", "bücher.example", "xn--bcher-kva.example"), ("idna_dot_port", ".éxämple.org:80", "xn--xmple-gra7a.org"),
    ("localhost", "localhost", "localhost"), ("upper", "EXAMPLE.com", "EXAMPLE.com"),
]
_DOMAIN_EXPECT = {v: exp for _, v, exp in DOMAINS}
_T0 = datetime(2024, 2, 29, 23, 59, 59, tzinfo=timezone.utc)
EXPIRES = [
    ("none", None), ("aware", _T0), ("naive", datetime(1999, 12, 31, 0, 0, 1)),
    ("offset", datetime(2030, 1, 1, 1, 30, 0, tzinfo=timezone(timedelta(hours=5, minutes=30)))),
    ("ts_int", 0), ("ts_int2", 1700000000), ("ts_float", 1700000000.75), ("str", "Wed, 21 Oct 2015 07:28:00 GMT"),
    ("str_odd", "never"),
]
MAX_AGES = [("none", None), ("zero", 0), ("int", 3600), ("neg", -1), ("td", timedelta(hours=1, seconds=5)),
            ("td_frac", timedelta(seconds=2, microseconds=900000)), ("td_days", timedelta(days=400))]
SAMESITES = [("none", None), ("Strict", "Strict"), ("strict", "strict"), ("LAX", "LAX"), ("lAx", "lAx"),
             ("None", "None"), ("nONE", "nONE"), ("bad", "foo"), ("empty", ""), ("bad2", "Strict "), ("bad3", "lax;x")]
BOOLS = [False, True]


def expected_attrs(path, domain, expires, max_age, secure, httponly, samesite, partitioned, now_window=None):
    """Independent model of the attribute tail.  Returns a list of expected attribute strings, where the
    Expires entry may be a ("expires-window", lo, hi) tuple when it is derived from max_age, or the
    string "ValueError" when samesite is not one of the three legal spellings."""
    out = []
    if samesite is not None:
        canon = {"strict": "Strict", "lax": "Lax", "none": "None"}.get(samesite.lower())
        if canon is None or canon.lower() != samesite.lower() or len(samesite) != len(canon):
            return "ValueError"
    else:
        canon = None
    if domain:
        host = domain.split(":", 1)[0]
        while host.startswith("."):
            host = host[1:]
        # IDNA form from the fixed table above (computed once, offline); pure-ASCII hosts are unchanged
        exp = _DOMAIN_EXPECT.get(domain, host)
        assert host.isascii() is False or exp == host, (domain, host, exp)
        out.append(("Domain", exp))
    if isinstance(max_age, timedelta):
        # whole seconds, truncated toward zero (int(total_seconds()))
        ma = max_age.days * 86400 + max_age.seconds
        if max_age.microseconds and ma < 0:
            ma += 1
    else:
        ma = max_age
    if expires is not None:
        if isinstance(expires, str):
            out.append(("Expires", expires))
        elif isinstance(expires, datetime):
            out.append(("Expires", ref_http_date(expires)))
        else:
            out.append(("Expires", ref_http_date(datetime(1970, 1, 1, tzinfo=timezone.utc)
                                                 + timedelta(seconds=int(expires)))))
    elif ma is not None:
        out.append(("Expires", ("window", ma)))
    if ma is not None:
        out.append(("Max-Age", str(ma)))
    if secure or partitioned:
        out.append(("Secure", None))
    if httponly:
        out.append(("HttpOnly", None))
    if path is not None:
        out.append(("Path", ref_quote_path(path)))
    if canon is not None:
        out.append(("SameSite", canon))
    if partitioned:
        out.append(("Partitioned", None))
    return out


for _t, _v, _e in PATHS:
    assert _e is None or ref_quote_path(_v) == _e, (_t, ref_quote_path(_v), _e)


# ---------------------------------------------------------------------------------------------
class Sec:
    """section-local collector (merged in run())"""

    def __init__(self):
        self.evaluations = 0
        self.distinct = set()
        self.failures = []
        self.fail_sigs = {}
        self.samples = []

    def case(self, check, inp, nontrivial=True, key=None):
        self.evaluations += 1
        if nontrivial:
            self.distinct.add(hash((check, key if key is not None else repr(inp))))
        if len(self.samples) < 3 and self.evaluations % 997 == 1:
            self.samples.append({"check": check, "input": common._j(inp)})

    def fail(self, check, inp, observed, expected="", sig=None):
        k = (check, sig)
        n = self.fail_sigs.get(k, 0)
        self.fail_sigs[k] = n + 1
        if n < 2 and len(self.failures) < 40:
            self.failures.append({"check": check, "input": common._j(inp), "observed": str(observed)[:500],
                                  "expected": str(expected)[:300], "_sig": repr(sig)})


def _attr_kwargs(a):
    """a: dict of tags -> kwargs for dump_cookie and the values for the model"""
    kw = {}
    path = dict((t, v) for t, v, _ in PATHS)[a.get("path", "default")]
    domain = dict((t, v) for t, v, _ in DOMAINS)[a.get("domain", "none")]
    expires = dict(EXPIRES)[a.get("expires", "none")]
    max_age = dict(MAX_AGES)[a.get("max_age", "none")]
    samesite = dict(SAMESITES)[a.get("samesite", "none")]
    secure = bool(a.get("secure", False))
    httponly = bool(a.get("httponly", False))
    partitioned = bool(a.get("partitioned", False))
    kw.update(path=path, domain=domain, expires=expires, max_age=max_age, samesite=samesite, secure=secure,
              httponly=httponly, partitioned=partitioned)
    return kw


def _first(md, key):
    """first value stored for key in a MultiDict, or a marker"""
    vals = md.getlist(key)
    return vals[0] if vals else ("<missing>", list(md.items(multi=True))[:4])


def check_one(sec, key, value, attrs, deep=False):
    """Evaluate every clause on one (key, value, attribute tags) input.  Returns True iff all hold."""
    inp = {"key": key, "value": value, "attrs": attrs}
    kw = _attr_kwargs(attrs)
    default_attrs = not attrs
    ok = True
    model = expected_attrs(**kw)
    t_before = time.time()
    try:
        with warnings.catch_warnings():
            warnings.simplefilter("ignore")
            header = whttp.dump_cookie(key, value, **kw)
    except ValueError as e:
        sec.case("samesite_validation", inp, key=(attrs.get("samesite"),))
        if model != "ValueError":
            sec.fail("dump_raises", inp, f"ValueError({e})", "a header", sig="unexpected ValueError")
            return False
        return True
    except Exception as e:  # noqa: BLE001
        sec.case("dump_raises", inp)
        sec.fail("dump_raises", inp, repr(e), "a header (no exception)", sig=type(e).__name__)
        return False
    t_after = time.time()
    if model == "ValueError":
        sec.case("samesite_validation", inp, key=(attrs.get("samesite"),))
        sec.fail("samesite_validation", inp, header, "ValueError for a samesite outside Strict/Lax/None",
                 sig=attrs.get("samesite"))
        return False

    try:
        needs_quote = any(b not in COOKIE_OCTETS for b in value.encode("utf-8"))
    except UnicodeEncodeError:
        needs_quote = True
    nontrivial = needs_quote or not default_attrs
    vkey = (key, value, tuple(sorted(attrs.items())))

    # ---- E: emitted value
    sec.case("emitted_value_escaped", inp, nontrivial, key=vkey)
    try:
        raw, rest = ref_split_header(header, key)
    except ValueError as e:
        sec.fail("emitted_value_escaped", inp, f"{header!r}: {e}", "key=<cookie-value>[; attrs]", sig="shape")
        return False
    problem, decoded = ref_check_and_decode(raw)
    if problem is not None:
        m = re.search(r"0x[0-9a-f]{2}", problem)
        sec.fail("emitted_value_escaped", inp, f"{header!r}: {problem}",
                 "only cookie-octets, or a quoted run of cookie-octets / SP / \\\" \\\\ \\ooo escapes",
                 sig=m.group() if m else problem[:20])
        ok = False
    else:
        sec.case("emitted_value_decodes", inp, nontrivial, key=vkey)
        if decoded != value.encode("utf-8"):
            sec.fail("emitted_value_decodes", inp, f"{header!r} decodes (reference scanner) to {decoded!r}",
                     repr(value.encode("utf-8")), sig="decode")
            ok = False
        if needs_quote and not raw.startswith('"'):
            sec.fail("emitted_value_escaped", inp, header, "quoted form for a value outside cookie-octets", sig="noquote")
            ok = False

    # ---- A: attributes
    sec.case("attributes_exact", inp, not default_attrs or needs_quote, key=vkey)
    exp_parts = []
    window = None
    for name, val in model:
        if val is None:
            exp_parts.append(name)
        elif isinstance(val, tuple):
            window = (len(exp_parts), val[1])
            exp_parts.append(None)
        else:
            exp_parts.append(f"{name}={val}")
    got_parts = rest.split("; ")[1:] if rest.startswith("; ") else ([] if rest == "" else ["<bad separator>" + rest])
    a_ok = len(got_parts) == len(exp_parts)
    if a_ok:
        for i, (g, e) in enumerate(zip(got_parts, exp_parts)):
            if e is None:
                dt = ref_parse_date(g[len("Expires="):]) if g.startswith("Expires=") else None
                if dt is None:
                    a_ok = False
                    break
                lo = datetime.fromtimestamp(int(t_before) + window[1] - 1, tz=timezone.utc)
                hi = datetime.fromtimestamp(int(t_after) + window[1] + 1, tz=timezone.utc)
                if not (lo <= dt <= hi):
                    a_ok = False
                    break
            elif g != e:
                a_ok = False
                break
    if not a_ok:
        sec.fail("attributes_exact", inp, f"{header!r} -> attributes {got_parts!r}",
                 [e if e is not None else "Expires=<now+max_age>" for e in exp_parts],
                 sig=tuple(sorted(attrs)))
        ok = False

    # ---- I: no injection
    sec.case("no_injection", inp, nontrivial, key=vkey)
    pieces = header.split(";")
    names = [p.strip().partition("=")[0] for p in pieces[1:]]
    exp_names = [n for n, _ in model]
    bad = None
    if len(pieces) != 1 + len(model) or names != exp_names:
        bad = f"client-side split sees attributes {names!r}"
    elif any(ord(ch) > 0x7E or ch in "\r\n\x00" for ch in header):
        bad = "header carries CR/LF/NUL/DEL/non-ASCII"
    elif not pieces[0].startswith(key + "="):
        bad = "first piece is not key=value"
    if bad:
        off = [f"0x{ord(ch):02x}" for ch in header if ord(ch) > 0x7E or ch in "\r\n\x00"]
        sec.fail("no_injection", inp, f"{header!r}: {bad}", exp_names, sig=(bad[:12], off[0] if off else None))
        ok = False

    # ---- R: round trips
    pair = f"{key}={raw}"
    for check, fn in (
        ("roundtrip_sansio_pair", lambda: _first(shttp.parse_cookie(pair), key)),
        ("roundtrip_sansio_header", lambda: _first(shttp.parse_cookie(header), key)),
        ("roundtrip_environ", lambda: _first(whttp.parse_cookie({"HTTP_COOKIE": pair}), key)),
        ("roundtrip_http_str", lambda: _first(whttp.parse_cookie(pair), key)),
        ("roundtrip_jar_cookie", lambda: _jar(header, key, model)),
    ):
        sec.case(check, inp, nontrivial, key=vkey)
        try:
            got = fn()
        except Exception as e:  # noqa: BLE001
            got = f"<raised {e!r}>"
        if got != value:
            sec.fail(check, inp, f"{header!r} parsed back as {got!r}", repr(value), sig=_sig_value(value))
            ok = False
    # a second cookie after it must still be seen (the value cannot swallow the following pair)
    sec.case("roundtrip_followed", inp, nontrivial, key=vkey)
    try:
        md = shttp.parse_cookie(f"{pair}; zz=1")
        got = (_first(md, key), _first(md, "zz"))
    except Exception as e:  # noqa: BLE001
        got = f"<raised {e!r}>"
    if got != (value, "1"):
        sec.fail("roundtrip_followed", inp, f"{pair + '; zz=1'!r} parsed as {got!r}", repr((value, "1")),
                 sig=_sig_value(value))
        ok = False
    if deep:
        ok = _client_loop(sec, key, value, attrs, kw, inp, vkey, nontrivial) and ok
    return ok


def _sig_value(value):
    for ch in value:
        if ord(ch) not in COOKIE_OCTETS:
            return f"U+{ord(ch):04X}" if ord(ch) < 0x300 else "high"
    return "token"


def _jar(header, key, model=None):
    """value as the test client's jar decodes it; the attributes the jar sees must be the requested ones"""
    c = Cookie._from_response_header("localhost", "/", header)
    if c.decoded_key != key:
        return ("<jar key>", c.decoded_key)
    if model is not None:
        m = dict(model)
        want = {"secure": "Secure" in m, "http_only": "HttpOnly" in m, "same_site": m.get("SameSite"),
                "max_age": int(m["Max-Age"]) if "Max-Age" in m else None, "path": m.get("Path") or "/",
                "domain": m.get("Domain") or "localhost", "origin_only": "Domain" not in m}
        got = {k: getattr(c, k) for k in want}
        if got != want:
            return ("<jar attributes>", got, want)
    return c.decoded_value


def _client_loop(sec, key, value, attrs, kw, inp, vkey, nontrivial):
    """Response.set_cookie -> Client jar -> next request -> Request.cookies; Client.set_cookie -> request"""
    ok = True
    # Response.set_cookie must emit what dump_cookie emits for the same arguments
    sec.case("response_set_cookie", inp, nontrivial, key=vkey)
    try:
        with warnings.catch_warnings():
            warnings.simplefilter("ignore")
            r = Response("ok")
            r.set_cookie(key, value, **kw)
            h1 = r.headers.getlist("Set-Cookie")
            h2 = whttp.dump_cookie(key, value, **kw)
        strip = (lambda t: re.sub(r"Expires=[^;]*", "Expires=*", t)) if (kw["expires"] is None and kw["max_age"] is not None) \
            else (lambda t: t)
        if len(h1) != 1 or strip(h1[0]) != strip(h2):
            sec.fail("response_set_cookie", inp, f"Response.set_cookie -> {h1!r}", h2, sig=tuple(sorted(attrs)))
            ok = False
    except Exception as e:  # noqa: BLE001
        sec.fail("response_set_cookie", inp, f"raised {e!r}", "same header as dump_cookie", sig=type(e).__name__)
        ok = False

    sec.case("roundtrip_client", inp, nontrivial, key=vkey)
    seen = {}
    kw = dict(kw)
    # the jar only returns cookies whose domain/path match the request and that are not expired;
    # keep the request inside them
    kw["domain"] = None
    kw["path"] = "/"
    kw["expires"] = None
    if kw["max_age"] is not None:
        kw["max_age"] = 3600

    @Request.application
    def app(request):
        if request.path == "/set":
            r = Response("ok")
            r.set_cookie(key, value, **kw)
            return r
        seen["cookies"] = request.cookies.getlist(key)
        seen["all"] = len(list(request.cookies.items(multi=True)))
        return Response("ok")

    try:
        with warnings.catch_warnings():
            warnings.simplefilter("ignore")
            c = Client(app)
            c.get("/set")
            jar = c.get_cookie(key)
            c.get("/get")
            got = (jar.decoded_value if jar is not None else "<not stored>", seen.get("cookies"), seen.get("all"))
            seen.clear()
            c2 = Client(app)
            c2.set_cookie(key, value)
            jar2 = c2.get_cookie(key)
            c2.get("/get")
            got2 = (jar2.decoded_value if jar2 is not None else "<not stored>", seen.get("cookies"), seen.get("all"))
    except Exception as e:  # noqa: BLE001
        got = got2 = f"<raised {e!r}>"
    if got != (value, [value], 1) or got2 != (value, [value], 1):
        sec.fail("roundtrip_client", inp, f"Response.set_cookie path saw {got!r}; Client.set_cookie path saw {got2!r}",
                 repr((value, [value], 1)), sig=_sig_value(value))
        ok = False
    return ok


# ---------------------------------------------------------------------------------------------
ALPHABET = ['"', ";", ",", "\\", "=", " ", "\t", "\r", "\n", "\x00", "\x1a", "\x7f", "%", "é", "\U0001F600",
            "a", "7", "1"]
KEYS = ["k", "a.b", "__Host-id", "!#$%&'*+-.^_`|~", "Path", "x1"]


def _is_surrogate(cp):
    return 0xD800 <= cp <= 0xDFFF


def sec_codepoints(tier, seed):
    sec = Sec()
    hi_step = 257 if tier == "quick" else 61
    cps = list(range(0x300)) + [cp for cp in range(0x300, 0x110000, hi_step) if not _is_surrogate(cp)]
    cps += [0xD7FF, 0xE000, 0xFFFD, 0xFFFE, 0xFFFF, 0x10000, 0x10FFFF, 0x2028, 0x2029, 0x85, 0xA0, 0xFEFF, 0x3000]
    for cp in cps:
        ch = chr(cp)
        check_one(sec, "k", ch, {}, deep=cp < 0x300)
        if cp < 0x300:
            # embedded, leading and trailing position; next to an octal-looking digit
            check_one(sec, "k", "a" + ch + "1", {})
            check_one(sec, "k", ch + "07", {})
            check_one(sec, "k", "x" + ch, {})
    return sec


def sec_strings(tier, seed, part, nparts):
    sec = Sec()
    maxlen = 3 if tier == "quick" else 4
    i = 0
    for n in range(maxlen + 1):
        for combo in itertools.product(ALPHABET, repeat=n):
            i += 1
            if i % nparts != part:
                continue
            v = "".join(combo)
            check_one(sec, "k", v, {}, deep=(n <= 2))
    return sec


def sec_keys(tier, seed):
    sec = Sec()
    vals = ["", "v", 'a"b', "a;b", "a, b", " lead", "trail ", "\\", "\x1a", "é\U0001F600", "Secure", "x; Path=/evil",
            "x\r\nSet-Cookie: a=b", '"', '""', '"quoted"', "a=b", "=", "%22", "\\073"]
    for k in KEYS:
        for v in vals:
            check_one(sec, k, v, {}, deep=True)
            check_one(sec, k, v, {"path": "semi", "domain": "idna", "secure": True, "samesite": "lAx"}, deep=True)
    return sec


def _attr_product(tier):
    paths = [t for t, _, _ in PATHS]
    domains = [t for t, _, _ in DOMAINS]
    expires = [t for t, _ in EXPIRES]
    max_ages = [t for t, _ in MAX_AGES]
    samesites = [t for t, _ in SAMESITES]
    return paths, domains, expires, max_ages, samesites


def sec_attrs(tier, seed, part, nparts):
    """attribute product x a few hostile values"""
    sec = Sec()
    paths, domains, expires, max_ages, samesites = _attr_product(tier)
    values = ["v", 'x"; Domain=evil.example; a="', "a;b,c\\d \x1a\r\né"]
    i = 0
    # full product of the boolean / enumerated attributes with pairwise-complete text attributes in quick;
    # the complete product in thorough
    if tier == "quick":
        text_combos = set()
        for p in paths:
            for d in domains:
                text_combos.add((p, d, "none", "none"))
        for e in expires:
            for m in max_ages:
                text_combos.add(("default", "none", e, m))
                text_combos.add(("semi", "idna", e, m))
        for p in paths:
            for e in expires:
                text_combos.add((p, "port", e, "int"))
        for d in domains:
            for m in max_ages:
                text_combos.add(("space", d, "none", m))
        text_combos = sorted(text_combos)
    else:
        text_combos = list(itertools.product(paths, domains, expires, max_ages))
    for (p, d, e, m) in text_combos:
        for ss in samesites:
            for secure, httponly, part_ in itertools.product(BOOLS, repeat=3):
                i += 1
                if i % nparts != part:
                    continue
                attrs = {}
                if p != "default":
                    attrs["path"] = p
                if d != "none":
                    attrs["domain"] = d
                if e != "none":
                    attrs["expires"] = e
                if m != "none":
                    attrs["max_age"] = m
                if ss != "none":
                    attrs["samesite"] = ss
                if secure:
                    attrs["secure"] = True
                if httponly:
                    attrs["httponly"] = True
                if part_:
                    attrs["partitioned"] = True
                check_one(sec, "k", values[i % len(values)], attrs, deep=(i % 16 == 0))
    return sec


def sec_random(tier, seed, part, nparts):
    sec = Sec()
    r = common.rng(seed, f"c13-{part}")
    n = 4000 if tier == "quick" else 60000
    n //= nparts
    weighted = ALPHABET * 3 + [chr(c) for c in range(0x20)] + ["\x7f", "\x80", "\xff", "Ā", "߿", "ࠀ",
                                                                 "￿", "\U00010000", "\U0010ffff"]
    paths, domains, expires, max_ages, samesites = _attr_product(tier)
    for j in range(n):
        ln = r.choice([1, 2, 3, 4, 5, 6, 8, 12, 20, 40])
        chars = []
        for _ in range(ln):
            x = r.random()
            if x < 0.7:
                chars.append(r.choice(weighted))
            elif x < 0.85:
                chars.append(chr(r.randrange(0x20, 0x7F)))
            else:
                cp = r.randrange(0x80, 0x110000)
                while _is_surrogate(cp):
                    cp = r.randrange(0x80, 0x110000)
                chars.append(chr(cp))
        v = "".join(chars)
        attrs = {}
        if r.random() < 0.5:
            for name, pool in (("path", paths), ("domain", domains), ("expires", expires), ("max_age", max_ages),
                               ("samesite", samesites)):
                if r.random() < 0.5:
                    t = r.choice(pool)
                    if t not in ("default", "none"):
                        attrs[name] = t
            for name in ("secure", "httponly", "partitioned"):
                if r.random() < 0.4:
                    attrs[name] = True
        check_one(sec, r.choice(KEYS), v, attrs, deep=(j % 8 == 0))
    return sec


def _run_section(job):
    name, args = job
    sec = globals()[name](*args)
    return name, args, sec.evaluations, len(sec.distinct), sec.failures, sec.samples


def _jobs(tier, seed):
    jobs = [("sec_codepoints", (tier, seed)), ("sec_keys", (tier, seed))]
    ns = 6 if tier == "quick" else 12
    jobs += [("sec_strings", (tier, seed, p, ns)) for p in range(ns)]
    na = 4 if tier == "quick" else 12
    jobs += [("sec_attrs", (tier, seed, p, na)) for p in range(na)]
    nr = 2 if tier == "quick" else 8
    jobs += [("sec_random", (tier, seed, p, nr)) for p in range(nr)]
    return jobs


def run(tier, seed, reg=None):
    maxlen = 3 if tier == "quick" else 4
    domain = (f"keys {KEYS!r}; values: every single code point U+0000..U+02FF (alone, embedded, before digits) and every "
              f"{'257th' if tier == 'quick' else '61st'} code point above (surrogates excluded: not encodable), all strings "
              f"of length <= {maxlen} over {len(ALPHABET)} symbols (\" ; , \\ = SP TAB CR LF NUL 0x1A DEL % e-acute U+1F600 a 7 1), "
              f"seeded random strings up to 40 chars; attribute product path x domain x expires x max_age "
              f"({'pairwise' if tier == 'quick' else 'full'}) x samesite(11 spellings) x secure x httponly x partitioned; "
              "each parsed back through sansio.parse_cookie, http.parse_cookie (str and environ), test.Cookie and the "
              "Client jar; SP inside a quoted value is accepted raw (DESIGN reading); the Expires derived from max_age "
              "is checked against a +-1 s window")
    c = Collector(RULE, domain, max_failures=60)
    c.exhaustive = True  # the enumerated parts are complete; the random part is additional
    jobs = _jobs(tier, seed)
    ctx = multiprocessing.get_context("fork")
    with ctx.Pool(min(16, len(jobs))) as pool:
        results = pool.map(_run_section, jobs, chunksize=1)
    pool.join()
    distinct = 0
    seen = set()
    per_sig = {}
    for name, args, ev, dn, fails, samples in results:
        c.evaluations += ev
        distinct += dn
        for f in fails:
            sig = (f["check"], f.pop("_sig", None))
            per_sig[sig] = per_sig.get(sig, 0) + 1
            k = (f["check"], repr(f["input"]))
            if per_sig[sig] > 2 or k in seen:
                continue
            seen.add(k)
            if len(c.failures) < c.max_failures:
                c.failures.append(f)
        for s in samples:
            if len(c.samples) < 8:
                c.samples.append(s)
    res = c.result()
    res["distinct_nontrivial"] = distinct
    return res


def replay(payload):
    inp = unj(payload["inputs"])
    check = payload["obligation"].split(":", 1)[1]
    sec = Sec()
    check_one(sec, inp["key"], inp["value"], dict(inp.get("attrs") or {}), deep=(check == "roundtrip_client"))
    return any(f["check"] == check for f in sec.failures)
