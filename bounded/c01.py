"""C01 (bounded tier): multipart decoding does not depend on how the body is chunked.

Oracle (the property statement): for a well-formed multipart body the sequence of
parts (kind, name, filename, part headers, byte-exact payload) delivered by
``MultipartDecoder`` is the same for every arrival schedule of the body bytes, and
the (form, files) produced by ``MultiPartParser.parse`` / ``parse_form_data`` do not
depend on ``buffer_size`` or on short reads of the input stream.

Independent references used here
* the *generator* is the ground truth for what a body means: bodies are built from a
  part grammar, and a reference regex written here (``_ref_delim``: line break, two
  dashes, the boundary, ``--`` or padding + line break) rejects bodies whose payload
  would itself contain a delimiter line (those are different, not-intended bodies);
  ``whole``: the one-piece decode must equal the generator's parts;
* the differential oracle of the statement: every schedule (all 2-way splits, all
  3-way splits for a corpus, byte-at-a-time, seeded random k-way splits) must yield
  exactly what the one-piece decode yields; every ``buffer_size`` 1..len+1 and short
  read schedules of the high-level parser must yield what the one-read parse yields,
  which must equal the generator's parts (text fields decoded as UTF-8/replace).

Preamble/epilogue bytes are not compared (see the quantifier).
"""
from __future__ import annotations

import bounded.common as common  # noqa: E402  (pins sys.path to the tree under test)

import hashlib
import io
import itertools
import multiprocessing
import os
import re
import time

from werkzeug.formparser import MultiPartParser, parse_form_data
from werkzeug.sansio.multipart import (Data, Epilogue, Field, File, MultipartDecoder,
                                       NeedData, Preamble)

RULE = ("parts(decoder fed any split of body) == parts(decoder fed body in one piece) == generator parts; "
        "(form, files) of MultiPartParser/parse_form_data independent of buffer_size and short reads")

CRLF, LF, CR = b"\r\n", b"\n", b"\r"
NLS = {"crlf": CRLF, "lf": LF, "cr": CR}
HWS = b" \t\x0b\x0c"
PER_CHECK_FAILS = 5


# --------------------------------------------------------------------------- reference

_ref_cache: dict = {}


def _ref_delim(boundary: bytes):
    """reference regex for a delimiter line inside a part body (written from RFC 2046 +
    the decoder's documented leniency: CRLF, LF or CR; optional transport padding)"""
    r = _ref_cache.get(boundary)
    if r is None:
        r = re.compile(rb"(?:\r\n|\n|\r)--" + re.escape(boundary) + rb"(?:--|[ \t\x0b\x0c]*(?:\r\n|\n|\r))")
        _ref_cache[boundary] = r
    return r


def payload_ok(payload, nl: bytes, boundary: bytes) -> bool:
    """True iff `payload` (None = body-less part) framed with line break `nl` is inside the
    property's domain: it does not itself contain a delimiter line, and for bare-LF /
    bare-CR framing it is free of the other newline kind (quantifier text)."""
    if payload is None:
        return True
    if nl == LF and b"\r" in payload:
        return False
    if nl == CR and b"\n" in payload:
        return False
    seg = nl + payload + nl + b"--" + boundary + b"--"
    m = _ref_delim(boundary).search(seg)
    return m is not None and m.start() == len(nl) + len(payload)


def part(kind="field", name="a", payload=b"", filename=None, ctype=None, extra=()):
    return {"kind": kind, "name": name, "payload": payload, "filename": filename, "ctype": ctype,
            "extra": [list(e) for e in extra]}


def part_headers(p):
    """[(name, value)] in wire order (values as they must come back: stripped)"""
    cd = "form-data; name=" + p["name"]
    if p["kind"] == "file":
        cd += "; filename=" + p["filename"]
    hs = [("Content-Disposition", cd)]
    if p.get("ctype"):
        hs.append(("Content-Type", p["ctype"]))
    for e in p.get("extra") or ():
        hs.append((e[0], e[1]))
    return hs


def build_body(parts, boundary: bytes, nl: bytes, preamble=b"", epilogue=b"", first_lb=False, pad=b"",
               final_nl=True):
    out = bytearray(preamble)
    first = True
    for p in parts:
        if not first or first_lb or preamble:
            out += nl
        first = False
        out += b"--" + boundary + pad + nl
        wire = {e[0]: e[2] for e in (p.get("extra") or ()) if len(e) > 2}
        for k, v in part_headers(p):
            out += k.encode() + b": " + wire.get(k, v).encode().replace(b"\n", nl) + nl
        if p["payload"] is not None:
            out += nl + p["payload"]
    if not first or first_lb or preamble:
        out += nl
    out += b"--" + boundary + b"--" + pad
    if final_nl:
        out += nl
    out += epilogue
    return bytes(out)


def expected_parts(parts):
    return [[p["kind"], p["name"], p["filename"] if p["kind"] == "file" else None,
             [list(h) for h in part_headers(p)], p["payload"] or b""] for p in parts]


# --------------------------------------------------------------------------- drivers


def decode(boundary: bytes, chunks):
    """feed chunks then None, draining after each; -> ("ok"|"error:<T>", parts)"""
    d = MultipartDecoder(boundary)
    parts = []
    cur = None
    done = False
    try:
        for ch in itertools.chain(chunks, (None,)):
            d.receive_data(ch)
            while True:
                ev = d.next_event()
                if isinstance(ev, NeedData):
                    break
                if isinstance(ev, Preamble):
                    continue
                if isinstance(ev, Epilogue):
                    done = True
                    break
                if isinstance(ev, File):
                    cur = ["file", ev.name, ev.filename, [list(h) for h in ev.headers], bytearray(), False]
                    parts.append(cur)
                elif isinstance(ev, Field):
                    cur = ["field", ev.name, None, [list(h) for h in ev.headers], bytearray(), False]
                    parts.append(cur)
                elif isinstance(ev, Data):
                    if cur is None or cur[5]:
                        return "error:DataOutsidePart", _freeze(parts)
                    cur[4] += ev.data
                    if not ev.more_data:
                        cur[5] = True
            if done:
                break
    except Exception as e:  # noqa: BLE001 - any exception is an observable outcome
        return "error:" + type(e).__name__, _freeze(parts)
    if not done:
        return "error:NoEpilogue", _freeze(parts)
    if any(not p[5] for p in parts):
        return "error:UnterminatedPart", _freeze(parts)
    return "ok", _freeze(parts)


def _freeze(parts):
    return [[p[0], p[1], p[2], p[3], bytes(p[4])] for p in parts]


class ShortReader:
    """wsgi.input-like stream: read(n) returns at most the next scheduled size"""

    def __init__(self, data: bytes, sizes):
        self.data = data
        self.pos = 0
        self.sizes = list(sizes or [])
        self.i = 0

    def read(self, n=-1):
        if n is None or n < 0:
            n = len(self.data) - self.pos
        if self.sizes:
            k = self.sizes[self.i % len(self.sizes)]
            self.i += 1
            n = min(n, k)
        out = self.data[self.pos:self.pos + n]
        self.pos += len(out)
        return out


def _norm_result(form, files):
    fields = [[k, v] for k, v in form.items(multi=True)]
    fl = []
    for k, fs in files.items(multi=True):
        fs.stream.seek(0)
        fl.append([k, fs.filename, fs.name, [list(h) for h in fs.headers], fs.content_type, fs.stream.read()])
        fs.close()
    return [fields, fl]


def hl_parse(boundary: bytes, body: bytes, buffer_size: int, sizes=None):
    """MultiPartParser.parse with the given buffer size (and short-read schedule)"""
    try:
        stream = ShortReader(body, sizes) if sizes else io.BytesIO(body)
        form, files = MultiPartParser(buffer_size=buffer_size).parse(stream, boundary, len(body))
        return "ok", _norm_result(form, files)
    except Exception as e:  # noqa: BLE001
        return "error:" + type(e).__name__, None


def wsgi_parse(boundary: bytes, body: bytes, sizes):
    """parse_form_data over a short-reading wsgi.input (LimitedStream -> _chunk_iter)"""
    env = {"wsgi.input": ShortReader(body, sizes), "CONTENT_LENGTH": str(len(body)),
           "CONTENT_TYPE": 'multipart/form-data; boundary="%s"' % boundary.decode("ascii"), "REQUEST_METHOD": "POST"}
    try:
        _, form, files = parse_form_data(env, silent=False)
        return "ok", _norm_result(form, files)
    except Exception as e:  # noqa: BLE001
        return "error:" + type(e).__name__, None


def expected_hl(parts):
    fields, files = [], []
    for p in parts:
        pl = p["payload"] or b""
        if p["kind"] == "field":
            fields.append([p["name"], pl.decode("utf-8", "replace")])
        else:
            files.append([p["name"], p["filename"], p["name"], [list(h) for h in part_headers(p)],
                          p.get("ctype"), pl])
    # MultiDict groups by key in first-insertion order
    def group(items):
        order, by = [], {}
        for it in items:
            if it[0] not in by:
                by[it[0]] = []
                order.append(it[0])
            by[it[0]].append(it)
        return [it for k in order for it in by[k]]
    return [group(fields), group(files)]


# --------------------------------------------------------------------------- local collector


def qualifier(case):
    """input class appended to the check name (a predicate on the *input*, so that known findings can be keyed
    by check name): padding_long | bodyless (some part has no body at all) | nl_payload (some payload contains
    CR or LF) | plain"""
    if case.get("tag") == "padding_long":
        return "padding_long"
    pls = [p["payload"] for p in case["parts"]]
    if any(pl is None for pl in pls):
        return "bodyless"
    if any(b"\r" in pl or b"\n" in pl for pl in pls):
        return "nl_payload"
    return "plain"


class Local:
    """per-worker tally; merged into the Collector by the parent"""

    def __init__(self):
        self.evals = 0
        self.distinct = set()
        self.fails = {}
        self.samples = []
        self.q = "plain"

    def case(self, check, body, nontrivial=True, n=1):
        check = check + ":" + self.q
        self.evals += n
        if nontrivial:
            self.distinct.add((check, hashlib.blake2b(body, digest_size=8).digest()))
        if len(self.samples) < 2:
            self.samples.append((check, body))

    def fail(self, check, inp, observed, expected):
        lst = self.fails.setdefault(check + ":" + self.q, [])
        if len(lst) < PER_CHECK_FAILS:
            lst.append((inp, observed, expected))

    def pack(self):
        return self.evals, self.distinct, self.fails, self.samples


def _desc(status, parts):
    return {"status": status, "parts": parts}


def _inp(case, **kw):
    d = {"boundary": case["boundary"], "body": case["body"], "parts": case["parts"]}
    d.update(kw)
    return d


# --------------------------------------------------------------------------- checks on one body


def check_body(L: Local, case, do3=False, hl=False, rnd=None, krandom=0, wsgi=False):
    """case: {"boundary", "body", "parts" (generator parts), "tag"}"""
    boundary, body, parts = case["boundary"], case["body"], case["parts"]
    L.q = qualifier(case)
    nontrivial = len(parts) > 0
    exp = expected_parts(parts)
    n = len(body)

    whole = decode(boundary, [body])
    L.case("whole", body, nontrivial)
    if whole != ("ok", exp):
        L.fail("whole", _inp(case, splits=[]), _desc(*whole), _desc("ok", exp))

    # all 2-way splits (cut 0 and cut n feed an empty chunk: also a legal receive call)
    bad = None
    for i in range(n + 1):
        got = decode(boundary, [body[:i], body[i:]])
        if got != whole and bad is None:
            bad = ([i], got)
    L.case("split2", body, nontrivial, n + 1)
    if bad:
        L.fail("split2", _inp(case, splits=bad[0]), _desc(*bad[1]), _desc(*whole))

    # byte at a time
    got = decode(boundary, [body[i:i + 1] for i in range(n)])
    L.case("bytewise", body, nontrivial)
    if got != whole:
        L.fail("bytewise", _inp(case, splits="bytewise"), _desc(*got), _desc(*whole))

    if do3:
        bad = None
        cnt = 0
        for i in range(1, n):
            a = body[:i]
            for j in range(i + 1, n):
                cnt += 1
                got = decode(boundary, [a, body[i:j], body[j:]])
                if got != whole and bad is None:
                    bad = ([i, j], got)
        L.case("split3", body, nontrivial, cnt)
        if bad:
            L.fail("split3", _inp(case, splits=bad[0]), _desc(*bad[1]), _desc(*whole))

    if krandom and rnd is not None and n > 3:
        bad = None
        for _ in range(krandom):
            k = rnd.randint(3, min(9, n - 1))
            cuts = sorted(rnd.sample(range(1, n), k))
            chunks = [body[a:b] for a, b in zip([0] + cuts, cuts + [n])]
            got = decode(boundary, chunks)
            if got != whole and bad is None:
                bad = (cuts, got)
        L.case("random_k", body, nontrivial, krandom)
        if bad:
            L.fail("random_k", _inp(case, splits=bad[0]), _desc(*bad[1]), _desc(*whole))

    if hl:
        exp_hl = expected_hl(parts)
        one = hl_parse(boundary, body, n + 1)
        L.case("parser_whole", body, nontrivial)
        if one != ("ok", exp_hl):
            L.fail("parser_whole", _inp(case, buffer_size=n + 1), _desc(*one), _desc("ok", exp_hl))
        bad = None
        for bs in range(1, n + 1):
            got = hl_parse(boundary, body, bs)
            if got != one and bad is None:
                bad = (bs, got)
        L.case("parser_buffer_size", body, nontrivial, n)
        if bad:
            L.fail("parser_buffer_size", _inp(case, buffer_size=bad[0]), _desc(*bad[1]), _desc(*one))
        # short reads: the stream returns fewer bytes than asked, in a repeating pattern
        bad = None
        scheds = [[1, 2], [3, 1, 1], [2, 5], [7, 1], [4]]
        if rnd is not None:
            scheds.append([rnd.randint(1, 6) for _ in range(5)])
        for sizes in scheds:
            got = hl_parse(boundary, body, 64 * 1024, sizes)
            if got != one and bad is None:
                bad = (sizes, got)
        L.case("parser_short_reads", body, nontrivial, len(scheds))
        if bad:
            L.fail("parser_short_reads", _inp(case, sizes=bad[0]), _desc(*bad[1]), _desc(*one))
    if wsgi:
        exp_hl = expected_hl(parts)
        one = wsgi_parse(boundary, body, None)
        L.case("wsgi_whole", body, nontrivial)
        if one != ("ok", exp_hl):
            L.fail("wsgi_whole", _inp(case, sizes=[]), _desc(*one), _desc("ok", exp_hl))
        bad = None
        scheds = [[1], [2, 3], [5, 1, 1], [8]]
        for sizes in scheds:
            got = wsgi_parse(boundary, body, sizes)
            if got != one and bad is None:
                bad = (sizes, got)
        L.case("wsgi_short_reads", body, nontrivial, len(scheds))
        if bad:
            L.fail("wsgi_short_reads", _inp(case, sizes=bad[0]), _desc(*bad[1]), _desc(*one))


# --------------------------------------------------------------------------- domain generators

SIGMA = {"crlf": [b"\r", b"\n", b"-", b"b", b"x"], "lf": [b"\n", b"-", b"b", b"x"], "cr": [b"\r", b"-", b"b", b"x"]}


def payloads(nlname, maxlen, minlen=0):
    sig = SIGMA[nlname]
    for n in range(minlen, maxlen + 1):
        for combo in itertools.product(sig, repeat=n):
            yield b"".join(combo)


def mk_case(parts, boundary, nlname, tag, **kw):
    nl = NLS[nlname]
    for p in parts:
        if not payload_ok(p["payload"], nl, boundary):
            return None
    return {"boundary": boundary, "body": build_body(parts, boundary, nl, **kw), "parts": parts, "tag": tag}


def task_single(args):
    """single-part bodies: payloads with a fixed prefix, all extensions up to maxlen"""
    boundary, nlname, prefix, maxlen, do3, hl, kind = args
    L = Local()
    skipped = 0
    sig = SIGMA[nlname]
    rest = maxlen - len(prefix)
    for n in range(rest + 1):
        for combo in itertools.product(sig, repeat=n):
            pl = prefix + b"".join(combo)
            p = (part("file", "f", pl, filename="n.txt", ctype="text/plain") if kind == "file"
                 else part("field", "a", pl))
            c = mk_case([p], boundary, nlname, "single")
            if c is None:
                skipped += 1
                continue
            check_body(L, c, do3=do3, hl=hl)
    return L.pack(), skipped


def task_deep(args):
    """single-part bodies, payloads of length lo..hi over the reduced alphabet {newline bytes of the framing, 'x'}"""
    boundary, nlname, lo, hi = args
    L = Local()
    skipped = 0
    sig = [c for c in SIGMA[nlname] if c in (b"\r", b"\n", b"x")]
    for n in range(lo, hi + 1):
        for combo in itertools.product(sig, repeat=n):
            c = mk_case([part("field", "a", b"".join(combo))], boundary, nlname, "deep")
            if c is None:
                skipped += 1
                continue
            check_body(L, c)
    return L.pack(), skipped


def _pl_small(nlname, maxlen):
    return [None] + list(payloads(nlname, maxlen))


def task_multi(args):
    """2- or 3-part bodies; first part payload fixed by the task, others enumerated"""
    boundary, nlname, first_pl, nparts, maxlen, do3, hl = args
    L = Local()
    skipped = 0
    pls = _pl_small(nlname, maxlen) if maxlen >= 0 else [None, b""] + [x for x in (b"\r", b"\n") if x in SIGMA[nlname]]
    kinds = ["field", "file", "field"]
    names = ["a", "f", "a"]  # repeated field name on purpose
    if do3:
        kinds = ["field", "field", "field"]  # shorter bodies for the quadratic number of 3-way splits
    for combo in itertools.product(pls, repeat=nparts - 1):
        parts = []
        for i, pl in enumerate((first_pl,) + combo):
            if kinds[i] == "file":
                parts.append(part("file", names[i], pl, filename="n.txt", ctype="text/plain"))
            else:
                parts.append(part("field", names[i], pl))
        c = mk_case(parts, boundary, nlname, "multi")
        if c is None:
            skipped += 1
            continue
        check_body(L, c, do3=do3, hl=hl)
    return L.pack(), skipped


LONG_BOUNDARY = b"----WebKitFormBoundary7MA4YWxkTrZu0gW"
SPECIAL_BOUNDARY = b"a.b+c(1)*"
B70 = (b"0123456789" * 7)


def corpus(tier):
    """hand-built well-formed bodies: preamble/epilogue, 0 parts, padding, long lines, binary,
    look-alikes of a long boundary, header variants, other boundaries"""
    out = []

    def add(parts, boundary=b"b", nlname="crlf", tag="corpus", **kw):
        c = mk_case(parts, boundary, nlname, tag, **kw)
        if c is not None:
            out.append(c)

    for nlname in NLS:
        nl = NLS[nlname]
        other = {"crlf": b"\r\n", "lf": b"\n", "cr": b"\r"}[nlname]
        add([], nlname=nlname)
        add([], nlname=nlname, first_lb=True)
        add([], nlname=nlname, preamble=b"pre", epilogue=b"epi" + nl + b"--b" + nl)
        add([], nlname=nlname, final_nl=False)
        base = [part("field", "a", b"v1"), part("file", "f", b"x" + other + b"y", filename="n.txt", ctype="text/plain"),
                part("field", "a", None)]
        add(base, nlname=nlname)
        add(base, nlname=nlname, first_lb=True)
        add(base, nlname=nlname, preamble=b"this is a preamble" + nl + b"second line")
        add(base, nlname=nlname, epilogue=b"epilogue" + nl + b"--b--" + nl + b"more")
        add(base, nlname=nlname, preamble=b"p", epilogue=b"e", final_nl=False)
        add(base, nlname=nlname, pad=b" ")
        add(base, nlname=nlname, pad=b" \t")
        add([part("field", "a", None), part("field", "b", None), part("file", "f", None, filename="e", ctype="a/b")],
            nlname=nlname)
        add([part("field", "a", b""), part("field", "b", b""), part("file", "f", b"", filename="e")], nlname=nlname)
        # long lines / runs
        for n in (20, 70, 200):
            add([part("file", "f", b"x" * n, filename="l")], nlname=nlname)
            add([part("file", "f", other * n, filename="l")], nlname=nlname)
            add([part("field", "a", b"-" * n)], nlname=nlname)
            add([part("field", "a", (b"--b" * n)[:n])], nlname=nlname)
        # headers: extra headers, continuation line, odd spacing
        add([part("file", "f", b"data", filename="n.txt", ctype="text/plain; charset=utf-8",
                  extra=[("X-Extra", "1"), ("Content-Length", "4")])], nlname=nlname)
        # folded header (RFC 2231 continuation line): comes back unfolded, joined by one blank
        add([part("file", "f", b"data", filename="n.txt", ctype="text/plain",
                  extra=[("X-Folded", "first second third", "first\n second\n\tthird"), ("X-After", "1")]),
             part("field", "a", b"v", extra=[("X-Folded", "p q", "p\n q")])], nlname=nlname)
        # other boundaries and near-copies of them in the payload
        for bd in (b"bb", LONG_BOUNDARY, SPECIAL_BOUNDARY, B70):
            near = [nl + b"--" + bd[:-1], nl + b"--" + bd + b"x", b"--" + bd, nl + b"-" + bd + nl,
                    nl + b"--" + bd[:len(bd) // 2] + nl + b"--" + bd[:-1] + b"-", bd + nl + b"--"]
            for pl in near:
                add([part("field", "a", pl), part("file", "f", pl + pl, filename="z")], boundary=bd, nlname=nlname)
            add(base, boundary=bd, nlname=nlname, preamble=b"pre")
            add([part("field", "a", b"v1"), part("file", "f", b"data--" + bd[:3], filename="n.txt", ctype="text/plain")],
                boundary=bd, nlname=nlname)
    # crlf only: payloads with the mixed newline look-alikes
    mixed = [b"\r", b"\n", b"\r\n", b"\n\r", b"\r\r\n", b"\r\n\r", b"\r\n-", b"\r\n--", b"\r\n--b", b"\n--b",
             b"\r--b", b"\r\n--bx", b"--b\r", b"\nxxx\r", b"\nxxxx\r", b"x\n--\r", b"\n-----\r", b"\r\n--b-",
             b"\r\n--b -", b"\nabcdefgh\r\n--", b"\n" + b"y" * 9 + b"\r"]
    for a in mixed:
        add([part("field", "a", a), part("file", "f", a, filename="m")])
        add([part("file", "f", a, filename="m"), part("field", "a", a)], preamble=b"pre", epilogue=b"epi")
    # text fields whose value has multi-byte UTF-8 sequences (and a broken one): the form parser decodes a field once,
    # from all of its bytes -- a chunk boundary inside a character must not change the text (seed C01-4)
    u1 = "na\u00efve caf\u00e9 \u2013 \u65e5\u672c\u8a9e \U0001f600 end".encode()
    add([part("field", "a", u1), part("field", "b", "\u00e9".encode() * 5), part("file", "f", u1, filename="u.txt")], tag="utf8")
    add([part("field", "a", b"\xe2\x82"), part("field", "b", b"x\xf0\x9f\x98"), part("field", "c", "\u20ac".encode() + b"\xac")], tag="utf8")
    add([part("field", "a", u1, ctype="text/plain; charset=utf-8")], boundary=LONG_BOUNDARY, tag="utf8")
    # binary payload
    allbytes = bytes(range(256))
    add([part("file", "f", allbytes, filename="bin", ctype="application/octet-stream")])
    add([part("file", "f", allbytes[::-1] * 2, filename="bin"), part("field", "a", b"\xff\xfe\x00")])
    if tier == "thorough":
        add([part("file", "f", allbytes * 8, filename="bin"), part("field", "a", b"z" * 1000)])
    return out


def corpus_padding_long():
    """transport padding longer than the decoder's re-scan window (RFC 2046 allows padding;
    the property's quantifier does not list it - kept as a separate check)"""
    out = []
    for nlname in NLS:
        for n in (9, 12, 40):
            for where in ("first", "inner"):
                parts = [part("field", "a", b"xyz"), part("field", "c", b"q")]
                nl = NLS[nlname]
                body = build_body(parts, b"b", nl)
                if where == "first":
                    body = body.replace(b"--b" + nl, b"--b" + b" " * n + nl, 1)
                else:
                    i = body.index(nl + b"--b" + nl)
                    body = body[:i] + nl + b"--b" + b" " * n + nl + body[i + len(nl) * 2 + 3:]
                out.append({"boundary": b"b", "body": body, "parts": parts, "tag": "padding_long"})
    return out


def task_corpus(args):
    tier, lo, hi, seed = args
    L = Local()
    # the quick tier is purely enumerative; seeded random schedules only in the thorough tier
    rnd = common.rng(seed, f"c01-corpus-{lo}") if tier == "thorough" else None
    cases = corpus(tier)[lo:hi]
    for c in cases:
        n = len(c["body"])
        check_body(L, c, do3=(n <= (400 if tier == "thorough" else 110)), hl=(n <= 1200), rnd=rnd,
                   krandom=(40 if tier == "thorough" else 0), wsgi=(n <= 400))
    return L.pack(), 0


def task_padding(args):
    # Transport padding of more than 8 blanks after the first delimiter is NOT part of the property's
    # quantifier (it lists CRLF / bare-LF / bare-CR delimiters, preamble/epilogue, no padding): the class is
    # no longer evaluated (oracle corrected -- it demanded more than the statement; the observation is kept
    # in FINDINGS_C01.md / DESIGN.md).  Padding of 1-2 blanks stays in the main corpus.
    L = Local()
    return L.pack(), 0


def task_random(args):
    """thorough: seeded random bodies (1-4 parts, longer payloads from a richer alphabet)"""
    seed, idx, count = args
    rnd = common.rng(seed, f"c01-random-{idx}")
    L = Local()
    skipped = 0
    bds = [b"b", b"bb", b"XyZ", LONG_BOUNDARY, SPECIAL_BOUNDARY]
    for _ in range(count):
        bd = rnd.choice(bds)
        nlname = rnd.choice(["crlf", "crlf", "lf", "cr"])
        nl = NLS[nlname]
        atoms = [b"-", b"--", bd, bd[:1], b"x", b" ", b"\x00", b"\xff", b"--" + bd[:-1], b"y" * rnd.randint(2, 30)]
        if nlname != "lf":
            atoms += [b"\r", b"\r\r"]
        if nlname != "cr":
            atoms += [b"\n", b"\n\n"]
        if nlname == "crlf":
            atoms += [b"\r\n", b"\r\n--", b"\n--" + bd[:-1], b"\r\n--" + bd + b"-x"]
        parts = []
        for i in range(rnd.randint(1, 4)):
            pl = None if rnd.random() < 0.1 else b"".join(rnd.choice(atoms) for _ in range(rnd.randint(0, 12)))
            if rnd.random() < 0.5:
                parts.append(part("file", rnd.choice(["f", "g"]), pl, filename=rnd.choice(["n.txt", "q"]),
                                  ctype=rnd.choice([None, "text/plain", "application/octet-stream"])))
            else:
                parts.append(part("field", rnd.choice(["a", "b", "a"]), pl))
        kw = {}
        if rnd.random() < 0.3:
            kw["preamble"] = b"pre" + nl + b"amble"
        if rnd.random() < 0.3:
            kw["epilogue"] = b"epi" + nl + b"--" + bd + nl
        if rnd.random() < 0.3:
            kw["first_lb"] = True
        if rnd.random() < 0.2:
            kw["pad"] = rnd.choice([b" ", b"\t", b"  "])
        c = mk_case(parts, bd, nlname, "random", **kw)
        if c is None:
            skipped += 1
            continue
        n = len(c["body"])
        check_body(L, c, do3=(n <= 130), hl=(n <= 300), rnd=rnd, krandom=30, wsgi=(rnd.random() < 0.2))
    return L.pack(), skipped


def _dispatch(t):
    name, args = t
    return name, globals()[name](args)


# --------------------------------------------------------------------------- run / replay


def _tasks(tier, seed):
    tasks = []
    thorough = tier == "thorough"
    # G1: single part, every payload over the 5-symbol alphabet, all 2-way splits + bytewise;
    # beyond that length every payload over the newline-structure alphabet {CR, LF, x}
    g1_len = {"crlf": 7, "lf": 7, "cr": 7} if thorough else {"crlf": 5, "lf": 5, "cr": 5}
    g1_deep = 9 if thorough else 7
    for nlname in NLS:
        for pre in payloads(nlname, 2, 2):
            tasks.append(("task_single", (b"b", nlname, pre, g1_len[nlname], False, False, "field")))
        for pl in payloads(nlname, 1):
            # the short payloads themselves (prefix == whole payload)
            tasks.append(("task_single", (b"b", nlname, pl, len(pl), False, False, "field")))
        tasks.append(("task_deep", (b"b", nlname, g1_len[nlname] + 1, g1_deep)))
    # two-byte boundary / file kind
    g1b = 6 if thorough else 4
    for nlname in NLS:
        for pre in payloads(nlname, 1, 1):
            tasks.append(("task_single", (b"bb", nlname, pre, g1b, False, False, "file")))
        tasks.append(("task_single", (b"bb", nlname, b"", 0, False, False, "file")))
    # G2: 3-way splits + high-level parser for all short payloads
    g2 = 5 if thorough else 3
    for nlname in NLS:
        for pre in payloads(nlname, 1, 1):
            tasks.append(("task_single", (b"b", nlname, pre, g2, True, True, "field")))
            tasks.append(("task_single", (b"b", nlname, pre, 3 if thorough else 2, True, True, "file")))
        tasks.append(("task_single", (b"b", nlname, b"", 0, True, True, "field")))
        tasks.append(("task_single", (b"b", nlname, b"", 0, True, True, "file")))
    # G3: multi-part
    m2, m3 = (3, 2) if thorough else (2, 1)
    for nlname in NLS:
        for first in _pl_small(nlname, m2):
            tasks.append(("task_multi", (b"b", nlname, first, 2, m2, False, False)))
        if thorough:
            for first in _pl_small(nlname, 2):
                tasks.append(("task_multi", (b"b", nlname, first, 2, 2, False, True)))
        for first in _pl_small(nlname, 1):
            # 3-way splits: quick = second payload body-less/empty/one newline byte; thorough = all length<=1
            tasks.append(("task_multi", (b"b", nlname, first, 2, 1 if thorough else -1, True, True)))
        for first in _pl_small(nlname, m3):
            tasks.append(("task_multi", (b"b", nlname, first, 3, 1, False, False)))
    # G4: corpus
    ncorp = len(corpus(tier))
    step = 6
    for lo in range(0, ncorp, step):
        tasks.append(("task_corpus", (tier, lo, lo + step, seed)))
    tasks.append(("task_padding", None))
    if thorough:
        for i in range(64):
            tasks.append(("task_random", (seed, i, 45)))
    return tasks


def _domain(tier):
    t = tier == "thorough"
    d = ("boundary b'b': 1 part, every payload over {CR,LF,'-','b','x'} of length<=%s and over {CR,LF,'x'} of "
         "length<=%s (bare-LF / bare-CR framing: same alphabets without the other newline kind) x all 2-way splits + "
         "byte-at-a-time; length<=%s (as a file part with Content-Type header: length<=%s) also x all 3-way "
         "splits, every buffer_size 1..len+1 and short-read schedules of MultiPartParser; boundary b'bb' length<=%s "
         "(file parts); 2 parts (field+file, payloads length<=%s or body-less) x 2-way, (two fields, %s) x 3-way; 3 parts "
         "(first length<=%s, others length<=1, or body-less; repeated field name) x 2-way; corpus (0 parts, preamble/epilogue, optional first "
         "line break, padding of 1-2 blanks, extra and folded headers, long lines 20..200, binary, boundaries of 2/37/70 bytes and with regex "
         "metacharacters, with near-copies) x 2-way, 3-way (len<=%s), byte-at-a-time, %s"
         "parse_form_data over short-reading wsgi.input; separate input class padding_long (9..40 blanks of transport "
         "padding). Check names carry the input class (plain | nl_payload | bodyless | padding_long). Payloads that themselves contain a delimiter line are not bodies of the intended shape and are "
         "skipped (counted in skipped_out_of_domain)." % (
             (7, 9, 5, 3, 6, 3, "both length<=1", 2, 400, "40 seeded random k-way splits, ") if t else
             (5, 7, 3, 2, 4, 2, "first length<=1, second in {body-less, empty, CR, LF}", 1, 110, "")))
    if t:
        d += (" Parser buffer sizes also for all 2-part bodies with payloads of length<=2. Plus 2880 seeded random bodies (1-4 parts, 5 boundaries, payloads of up to 12 atoms incl. NUL/0xFF/"
              "near-boundaries) x 2-way, bytewise, 3-way (len<=130), 30 random k-way splits, parser buffer sizes "
              "(len<=300).")
    return d


def run(tier: str, seed: int, reg=None) -> dict:
    common.assert_tree()
    col = common.Collector(RULE, _domain(tier))
    col.exhaustive = tier != "thorough"  # quick: pure enumeration of the stated domain; thorough adds seeded samples
    tasks = _tasks(tier, seed)
    # big tasks first
    nproc = min(16, os.cpu_count() or 1)
    skipped = 0
    fails = {}
    ctx = multiprocessing.get_context("fork")
    with ctx.Pool(nproc) as pool:
        for name, (packed, sk) in pool.imap_unordered(_dispatch, tasks, chunksize=1):
            evals, distinct, f, samples = packed
            col.evaluations += evals
            col.distinct |= distinct
            skipped += sk
            for check, lst in f.items():
                fails.setdefault(check, []).extend(lst)
            for check, body in samples:
                if len(col.samples) < 8:
                    col.samples.append({"check": check, "input": common._j({"body": body})})
    per = max(1, min(PER_CHECK_FAILS, col.max_failures // max(1, len(fails))))
    for check in sorted(fails):
        lst = sorted(fails[check], key=lambda x: (len(x[0]["body"]), x[0]["body"]))
        for inp, obs, exp in lst[:per]:
            col.fail(check, inp, obs, exp)
    res = col.result()
    res["skipped_out_of_domain"] = skipped
    res["failing_checks_capped_per_task"] = {k: len(v) for k, v in sorted(fails.items())}
    return res


def replay(payload: dict) -> bool:
    common.assert_tree()
    check = payload["obligation"].split(":", 1)[1]
    inp = common.unj(payload["inputs"])
    boundary, body = inp["boundary"], inp["body"]
    check = check.split(":", 1)[0]
    n = len(body)
    parts = inp.get("parts") or []
    for p in parts:
        p["extra"] = [list(e) for e in p.get("extra") or ()]
    if check == "whole":
        return decode(boundary, [body]) != ("ok", expected_parts(parts))
    if check == "parser_whole":
        return hl_parse(boundary, body, n + 1) != ("ok", expected_hl(parts))
    if check == "wsgi_whole":
        return wsgi_parse(boundary, body, None) != ("ok", expected_hl(parts))
    if check in ("split2", "split3", "random_k", "bytewise"):
        whole = decode(boundary, [body])
        sp = inp["splits"]
        if sp == "bytewise":
            chunks = [body[i:i + 1] for i in range(n)]
        else:
            cuts = list(sp)
            if len(cuts) == 1:
                chunks = [body[:cuts[0]], body[cuts[0]:]]
            else:
                chunks = [body[a:b] for a, b in zip([0] + cuts, cuts + [n])]
        return decode(boundary, chunks) != whole
    if check == "parser_buffer_size":
        return hl_parse(boundary, body, inp["buffer_size"]) != hl_parse(boundary, body, n + 1)
    if check == "parser_short_reads":
        return hl_parse(boundary, body, 64 * 1024, inp["sizes"]) != hl_parse(boundary, body, n + 1)
    if check == "wsgi_short_reads":
        return wsgi_parse(boundary, body, inp["sizes"]) != wsgi_parse(boundary, body, None)
    raise ValueError("unknown check " + check)
