"""Bounded tier for C14 - untrusted paths and filenames cannot escape the trusted directory.

Stand-in only (never counted as proved).  Three families of checks, all with oracles that do not
call the code under test:

* safe_join  - `security.safe_join(base, *components)` for 1..3 components, each a concatenation of
  atoms from the property's grammar ('..', '.', '', '/', '//', backslash, drive prefix, '~',
  percent-encoded dots / slash / backslash / NUL (raw and percent-decoded), names, dotted names),
  against absolute / relative / empty / '.' / root base directories.  Oracle: an independent
  component-list normaliser (`_norm`): the result is None, or normalises to a path whose component
  list extends the base's component list without any '..' (containment), and equals the plain
  concatenation `base/p1/../pn` normalised (the join really is the join).  Companion (non-vacuity):
  a tuple whose components contain no '..' segment, no leading '/', is not refused.

* e2e - the same strings taken as the *raw request path*, percent-decoded once as a server would,
  through `utils.send_from_directory` and `SharedDataMiddleware` (directory loader mounted at
  '/static' and at '/', package loader, single-file loader) over a real temporary tree.  Every
  file's content is its own path relative to the scratch directory, so the body of a 200 response
  identifies the file that was served: it must lie under the root (sentinels `secret.txt`,
  `in.txt`, `etc/secret.txt`, `sub/secret.txt` live outside, next to the root) and must be the file
  the independent model resolves the request to.  Anything else must be a 404 (NotFound / fall
  through to the wrapped app) - an exception is reported as `*_exception`.  Companion: a request
  that textually names an existing file under the root without '..' is served.

* secure_filename - clauses of the statement (ASCII, no '/', no backslash, no whitespace, does not
  start with '.', idempotent) plus equality with an independent per-character model, over all
  strings of bounded length from an alphabet with separators, dots, whitespace, NUL, fullwidth and
  compatibility forms, and over every Unicode code point in fixed contexts.
"""
from __future__ import annotations

import bounded.common as common
from bounded.common import Collector, unj, rng

import importlib
import itertools
import multiprocessing
import os
import shutil
import sys
import tempfile
import unicodedata
import urllib.parse

from werkzeug.security import safe_join
from werkzeug.utils import send_from_directory, secure_filename
from werkzeug.middleware.shared_data import SharedDataMiddleware
from werkzeug.exceptions import NotFound

common.assert_tree()

# Failures on the unchanged tree (text of bounded/FINDINGS_C14.md; kept here too so that it travels with the check)
FINDINGS = """
sdm_pkg_exception@nul - SharedDataMiddleware package loader raises on a NUL in the request path.
  input    : SharedDataMiddleware(app, {"/pkg": (<package>, "static")}); GET /pkg/%00 (also /pkg/a%00b, /pkg/%00.., ...),
             i.e. PATH_INFO "/pkg/\\x00".  Inside the domain (NUL-containing segment, end-to-end through
             SharedDataMiddleware.get_package_loader, path percent-decoded once).
  observed : ValueError('embedded null byte') escapes from __call__ (loader only catches OSError around
             reader.open_resource); the directory loader and send_from_directory answer 404 for the same path.
  expected : 404 / fall through to the wrapped application ("refuses (None, i.e. a 404)") or the file under the root.
  judgement: not a disclosure (safe_join returns the contained 'static/\\x00', nothing is served); violates only the
             "a refusal is a 404" half of the statement; overlaps with C07.  Repair: except (OSError, ValueError).
  '@nul' = the decoded request path has a NUL (class of the input), so other exceptions keep the bare name.
Everything else (containment, wrong file, non-vacuity companions, secure_filename clauses and model) is green.
"""

RULE = ("safe_join result is None or stays (component-wise, after independent normalisation) under the base and "
        "equals the plain join; send_from_directory / SharedDataMiddleware answer 404 or serve exactly the file the "
        "request names under the root (file content = its own path; sentinels outside the root); secure_filename "
        "output is ASCII, has no separator/whitespace, no leading dot, is idempotent and equals a per-character model")

MAX_PER_CHECK = 4  # failures kept per check name (so that one defect cannot hide another)

# ------------------------------------------------------------------------------------------------
# atoms (raw request level).  '{S}' is replaced by the absolute path of the scratch directory.
ATOMS = ["..", ".", "", "/", "//", "\\", "C:", "~", "%2e%2e", "%2f", "%5c", "%00", "%252e%252e",
         "in.txt", "sub", "secret.txt", "a.b.txt", "..name", "...", ".hidden", "root", "etc", "{S}"]
CORE = ["..", ".", "", "/", "\\", "%00", "%2e%2e", "%2f", "sub", "secret.txt", "in.txt", "root"]
EXTRA = ["%2E%2E", "%2e", "%c0%ae%c0%ae", "%ef%bc%8f", "%ef%bc%8e%ef%bc%8e", "%e2%80%a5", "%5C..%5C", "C:\\", "C:/",
         "~root", " ", "%20", "%0a", "%0d", "%09", "..%00", "%00..", "....", "..;", "%3b", "?", "%3f", "#", "%23",
         "\u2025", "\uff0e\uff0e", "\uff0f", "\u2215", "%u002e", "%%32%65", "con", "nul"]

BASES = ["/srv/root", "/srv/root/", "root", "./root", "../root", "root/sub/..", "a/b", "", ".", "/", ".."]

# base ids for the real tree: id -> (cwd relative to scratch, directory argument; '{S}' = scratch)
TREE_BASES = {
    "abs": ("", "{S}/root"),
    "abs_slash": ("", "{S}/root/"),
    "rel": ("", "root"),
    "rel_dot": ("", "./root"),
    "rel_up": ("etc", "../root"),
    "rel_dotdot_in": ("", "root/sub/.."),
    "empty": ("root", ""),
    "dot": ("root", "."),
}

INSIDE_FILES = ["in.txt", "secret.txt", "a.b.txt", ".hidden", "..name", "...", "~", "C:", "..\\secret.txt", "\\",
                "%2e%2e/secret.txt", "%2e%2e/in.txt", "sub/in.txt", "sub/secret.txt", "sub/sub/in.txt",
                "sub/sub/secret.txt", "etc/secret.txt", "etc/in.txt", "root/secret.txt", "root/in.txt",
                "root/sub/in.txt", "sub/root/in.txt", "sub/etc/secret.txt", "sub/.../secret.txt",
                "sub/..name/in.txt", "sub/a.b.txt", "\uff0e\uff0e/secret.txt", "\u2025/secret.txt"]
OUTSIDE_FILES = ["secret.txt", "in.txt", "a.b.txt", "etc/secret.txt", "etc/in.txt", "sub/secret.txt", "sub/in.txt",
                 "...", "..name", ".hidden", "~", "C:"]


# ------------------------------------------------------------------------------------------------
# independent reference: component-list normaliser and containment
def _norm(path):
    """(absolute, components) of `path` after removing '', '.', and resolving '..' textually"""
    absolute = path.startswith("/")
    out = []
    for seg in path.split("/"):
        if seg == "" or seg == ".":
            continue
        if seg == "..":
            if out and out[-1] != "..":
                out.pop()
            elif not absolute:
                out.append("..")
        else:
            out.append(seg)
    return absolute, out


def _inside(base, result):
    ba, bp = _norm(base if base else ".")
    ra, rp = _norm(result)
    return ba == ra and rp[: len(bp)] == bp and ".." not in rp[len(bp):]


def _benign(comp):
    """no '..' segment, not absolute (NUL / backslash / drive letters are ordinary name characters on POSIX)"""
    return not comp.startswith("/") and ".." not in comp.split("/")


def _decode_once(raw):
    """what a server does to the request path: percent-decode once; bytes shown as latin-1 (WSGI)"""
    return urllib.parse.unquote_to_bytes(raw.encode("utf-8")).decode("latin-1")


def _wsgi_to_text(s):
    return s.encode("latin-1").decode("utf-8", "replace")


# ------------------------------------------------------------------------------------------------
class _Fails:
    """per-check capped failure list + counters, mergeable across processes"""

    def __init__(self):
        self.n = 0
        self.keys = set()
        self.fails = []
        self.per = {}
        self.samples = []

    def case(self, check, key, nontrivial=True):
        self.n += 1
        if nontrivial:
            self.keys.add(hash((check, key)))  # 64-bit hash: the key sets are merged across (forked) processes
        if len(self.samples) < 3 and self.n % 997 == 1:
            self.samples.append({"check": check, "input": key})

    def fail(self, check, inp, observed, expected):
        k = self.per.get(check, 0)
        self.per[check] = k + 1
        if k < MAX_PER_CHECK:
            self.fails.append({"check": check, "input": common._j(inp), "observed": str(observed)[:500],
                               "expected": str(expected)[:300]})


def _merge(c, f):
    c.evaluations += f.n
    c.distinct |= f.keys
    have = {}
    for x in c.failures:
        have[x["check"]] = have.get(x["check"], 0) + 1
    for x in f.fails:
        if have.get(x["check"], 0) < MAX_PER_CHECK:
            c.failures.append(x)
            have[x["check"]] = have.get(x["check"], 0) + 1
    for s in f.samples:
        if len(c.samples) < 8:
            c.samples.append(s)


# ------------------------------------------------------------------------------------------------
# safe_join level
def check_safe_join(base, comps, F):
    key = repr((base, comps))
    hostile = not all(_benign(p) for p in comps)
    F.case("safe_join", key, True)
    try:
        res = safe_join(base, *comps)
    except Exception as e:  # noqa: BLE001
        F.fail("safe_join_exception", {"base": base, "comps": list(comps)}, repr(e), "None or a contained path")
        return
    inp = {"base": base, "comps": list(comps)}
    if res is None:
        if not hostile:
            F.fail("safe_join_benign_refused", inp, "None",
                   "a path: no component has a '..' segment or a leading '/'")
        return
    if not isinstance(res, str):
        F.fail("safe_join_contained", inp, repr(res), "None or str")
        return
    if not _inside(base, res):
        F.fail("safe_join_contained", inp, repr(res), "None, or a path that normalises to one under the base")
        return
    want = _norm("/".join([base if base else "."] + [p for p in comps]))
    # plain concatenation is only the right reference when no component is absolute (an absolute one that is
    # accepted is already a containment failure unless the base is '/', where both readings are inside)
    if not any(p.startswith("/") for p in comps) and _norm(res) != want:
        F.fail("safe_join_value", inp, repr(res), f"a path normalising to {want!r}")


def _expand(s, scratch):
    return s.replace("{S}", scratch)


def _concats(atoms, k):
    """all distinct concatenations of 1..k atoms (the empty string included once)"""
    seen = set()
    out = []
    for n in range(1, k + 1):
        for combo in itertools.product(atoms, repeat=n):
            s = "".join(combo)
            if s not in seen:
                seen.add(s)
                out.append(s)
    return out


def _tuples_quick():
    """component tuples (raw) of the quick tier"""
    c3 = _concats(ATOMS, 3)
    for s in c3:
        yield (s,)
    for s in EXTRA:
        yield (s,)
    for a in EXTRA:
        for b in ["..", "/", "secret.txt", ""]:
            yield (a + b,)
            yield (b + a,)
            yield (a, b)
            yield (b, a)
            yield (a + "/" + b,)
    c2core = _concats(CORE, 2)
    for t in itertools.product(c2core, repeat=2):
        yield t
    for t in itertools.product(ATOMS, repeat=2):
        yield t
    for t in itertools.product(ATOMS, repeat=3):
        yield t
    # the deeper single components of the end-to-end tier ('/'-joined tuples, hand-shaped traversals of 5..9 atoms)
    for s in _raw_strings_quick(True):
        yield (s,)


def _sj_task(args):
    tier, seed, k, nk = args
    F = _Fails()
    S = "/srv"
    seen = set()
    if tier == "quick":
        gen = _tuples_quick()
    else:
        gen = _tuples_thorough(seed)
    for i, t in enumerate(gen):
        if i % nk != k:
            continue
        raw = tuple(_expand(x, S) for x in t)
        dec = tuple(_wsgi_to_text(_decode_once(x)) for x in raw)
        for comps in ((raw,) if raw == dec else (raw, dec)):
            if comps in seen:
                continue
            seen.add(comps)
            for base in BASES:
                check_safe_join(base, comps, F)
    return F


def _tuples_thorough(seed):
    yield from _tuples_quick()
    allat = ATOMS + EXTRA
    for s in _concats(ATOMS, 4):
        yield (s,)
    c2 = _concats(ATOMS, 2)
    for t in itertools.product(c2, repeat=2):
        yield t
    c2core = _concats(E2E_CORE, 2)
    for t in itertools.product(c2core, repeat=3):
        yield t
    r = rng(seed, "c14-sj")
    for _ in range(300000):
        n = r.choice([1, 1, 2, 2, 3])
        yield tuple("".join(r.choice(allat) for _ in range(r.randint(1, 6))) for _ in range(n))


# ------------------------------------------------------------------------------------------------
# the real tree
class Tree:
    def __init__(self):
        self.scratch = os.path.realpath(tempfile.mkdtemp(prefix="bt_c14_"))
        self.pkg = "bt_c14_pkg_" + os.path.basename(self.scratch).replace("bt_c14_", "").replace("-", "_")
        self.pkg = "".join(ch if ch.isalnum() or ch == "_" else "_" for ch in self.pkg)
        S = self.scratch
        for rel in OUTSIDE_FILES:
            self._w(rel)
        for rel in INSIDE_FILES:
            self._w("root/" + rel)
            self._w(self.pkg + "/static/" + rel)
        # the package: __init__ plus a sentinel inside the package but outside package_path
        with open(os.path.join(S, self.pkg, "__init__.py"), "w") as f:
            f.write("")
        self._w(self.pkg + "/secret.txt")
        self._w(self.pkg + "/in.txt")
        self.files = set()
        for d, _dirs, fs in os.walk(S):
            for fn in fs:
                self.files.add(os.path.relpath(os.path.join(d, fn), S))

    def _w(self, rel):
        p = os.path.join(self.scratch, rel)
        os.makedirs(os.path.dirname(p), exist_ok=True)
        if not os.path.isdir(p):
            with open(p, "wb") as f:
                f.write(b"FILE:" + rel.encode("utf-8"))

    def remove(self):
        shutil.rmtree(self.scratch, ignore_errors=True)


def _environ(path_info):
    return {"REQUEST_METHOD": "GET", "SCRIPT_NAME": "", "PATH_INFO": path_info, "QUERY_STRING": "",
            "SERVER_NAME": "localhost", "SERVER_PORT": "80", "SERVER_PROTOCOL": "HTTP/1.1",
            "wsgi.url_scheme": "http", "wsgi.version": (1, 0), "wsgi.multithread": False,
            "wsgi.multiprocess": False, "wsgi.run_once": False}


def _fallback_app(environ, start_response):
    start_response("404 NOT FOUND", [("Content-Type", "text/plain")])
    return [b"FALLTHROUGH"]


def _call_wsgi(app, path_info):
    """-> (status code or 'exc', body or repr(exception))"""
    st = []
    it = None
    try:
        it = app(_environ(path_info), lambda s, h, exc_info=None: st.append(s))
        body = b"".join(it)
        return int(st[0].split()[0]), body
    except Exception as e:  # noqa: BLE001
        return "exc", repr(e)
    finally:
        if it is not None and hasattr(it, "close"):
            try:
                it.close()
            except Exception:  # noqa: BLE001
                pass


def _call_sfd(directory, path):
    rv = None
    try:
        rv = send_from_directory(directory, path, _environ("/"))
        rv.direct_passthrough = False
        body = rv.get_data()
        return rv.status_code, body
    except NotFound:
        return 404, b""
    except Exception as e:  # noqa: BLE001
        return "exc", repr(e)
    finally:
        if rv is not None:
            try:
                rv.close()
            except Exception:  # noqa: BLE001
                pass


def _model_target(tree, root_rel, text_path):
    """file (relative to scratch) that `root/<text_path>` names after textual normalisation, or None when the
    path leaves the root / names no regular file.  Independent of safe_join / posixpath.normpath."""
    _abs, parts = _norm("ROOT/" + text_path)
    if parts[:1] != ["ROOT"] or ".." in parts or any("\x00" in x for x in parts):
        return None
    rel = "/".join([root_rel] + parts[1:])
    return rel if rel in tree.files else None


def _judge(F, api, tree, root_rel, inp, text_path, status, body, exact=None):
    """oracle for one end-to-end response"""
    if status == "exc":
        # '@nul': the decoded request path has a NUL (syntactic class of the input, so that this case cannot use up
        # the failure slots of other exceptions)
        F.fail(api + "_exception" + ("@nul" if "\x00" in text_path else ""), inp, body,
               "404 (refusal) or the requested file under the root")
        return
    if status == 404:
        want = _model_target(tree, root_rel, text_path)
        if exact is None and want is not None and _benign(text_path):
            F.fail(api + "_benign_404", inp, "404", f"200 with the content of {want!r} (no '..', not absolute)")
        return
    if status != 200:
        F.fail(api + "_status", inp, f"{status} {body[:80]!r}", "200 or 404")
        return
    if not body.startswith(b"FILE:"):
        F.fail(api + "_served_outside", inp, f"200 {body[:120]!r}", "a file of the scratch tree under the root")
        return
    served = body[5:].decode("utf-8", "replace")
    if exact is not None:
        if served != exact:
            F.fail(api + "_served_outside", inp, f"200 served {served!r}", f"404 or {exact!r}")
        return
    if not served.startswith(root_rel + "/"):
        F.fail(api + "_served_outside", inp, f"200 served {served!r} (outside {root_rel!r})", "404")
        return
    want = _model_target(tree, root_rel, text_path)
    if served != want:
        F.fail(api + "_wrong_file", inp, f"200 served {served!r}", f"404 or {want!r}")


class _Apps:
    """middlewares for one base (built after chdir: SharedDataMiddleware looks at the file system when constructed)"""

    def __init__(self, tree, directory):
        self.static = SharedDataMiddleware(_fallback_app, {"/static": directory})
        self.rootm = SharedDataMiddleware(_fallback_app, {"/": directory})
        self.static_slash = SharedDataMiddleware(_fallback_app, [("/static/", directory)], cache=False)


def e2e_case(F, tree, base_id, directory, apps, raw, apis=("sfd", "sdm_static", "sdm_root", "sdm_slash")):
    rawx = _expand(raw, tree.scratch)
    wsgi_path = _decode_once(rawx)  # latin-1 view, as in PATH_INFO
    text = _wsgi_to_text(wsgi_path)  # what get_path_info / Request.path give the application
    nontrivial = not (_benign(text) and "\x00" not in text and "\\" not in text)
    for api in apis:
        inp = {"api": api, "base": base_id, "raw": raw}
        F.case("e2e_" + api, repr((base_id, raw)), nontrivial)
        if api == "sfd":
            status, body = _call_sfd(directory, text)
        elif api == "sdm_static":
            status, body = _call_wsgi(apps.static, "/static/" + wsgi_path)
        elif api == "sdm_slash":
            status, body = _call_wsgi(apps.static_slash, "/static/" + wsgi_path)
        else:
            status, body = _call_wsgi(apps.rootm, "/" + wsgi_path)
        if status == 404 and api != "sfd" and body != b"FALLTHROUGH":
            F.fail(api + "_status", inp, f"404 {body[:60]!r}", "fall through to the wrapped application")
            continue
        _judge(F, api, tree, "root", inp, text, status, body)


def e2e_fixed_case(F, tree, fixed, raw, apis=("sdm_pkg", "sdm_file", "sfd_rootpath")):
    """loaders that do not depend on the base id"""
    rawx = _expand(raw, tree.scratch)
    wsgi_path = _decode_once(rawx)
    text = _wsgi_to_text(wsgi_path)
    nontrivial = not (_benign(text) and "\x00" not in text and "\\" not in text)
    for api in apis:
        inp = {"api": api, "base": "-", "raw": raw}
        F.case("e2e_" + api, repr(raw), nontrivial)
        if api == "sdm_pkg":
            status, body = _call_wsgi(fixed["pkg"], "/pkg/" + wsgi_path)
            if status == 404 and body != b"FALLTHROUGH":
                F.fail(api + "_status", inp, f"404 {body[:60]!r}", "fall through to the wrapped application")
                continue
            _judge(F, api, tree, tree.pkg + "/static", inp, text, status, body)
        elif api == "sdm_file":
            status, body = _call_wsgi(fixed["file"], "/f.txt/" + wsgi_path)
            _judge(F, api, tree, "root", inp, text, status, body, exact="root/in.txt")
        else:
            # Flask style: relative directory + _root_path
            rv = None
            try:
                rv = send_from_directory("root", text, _environ("/"), _root_path=tree.scratch)
                rv.direct_passthrough = False
                status, body = rv.status_code, rv.get_data()
            except NotFound:
                status, body = 404, b""
            except Exception as e:  # noqa: BLE001
                status, body = "exc", repr(e)
            finally:
                if rv is not None:
                    rv.close()
            _judge(F, api, tree, "root", inp, text, status, body)


def _fixed_apps(tree):
    if tree.scratch not in sys.path:
        sys.path.insert(0, tree.scratch)
    importlib.invalidate_caches()
    return {"pkg": SharedDataMiddleware(_fallback_app, {"/pkg": (tree.pkg, "static")}),
            "file": SharedDataMiddleware(_fallback_app, {"/f.txt": os.path.join(tree.scratch, "root", "in.txt")})}


def _fixed_cleanup(tree):
    while tree.scratch in sys.path:
        sys.path.remove(tree.scratch)
    sys.modules.pop(tree.pkg, None)
    importlib.invalidate_caches()


E2E_CORE = ["..", ".", "/", "\\", "%00", "%2e%2e", "sub", "secret.txt"]
_UPS = ("..", "%2e%2e", ".%2e", "%2e.", "..%2f", "..%5c", "..\\", "%252e%252e", "..%00", "...", "....", ". .",
        "..;", "%c0%ae%c0%ae", "\uff0e\uff0e", "%ef%bc%8e%ef%bc%8e", "\u2025", "%e2%80%a5")


def _raw_strings_reduced():
    """<=3 concatenated atoms, and the extra hostile atoms in fixed frames"""
    for s in _concats(ATOMS, 3):
        yield s
    for a in EXTRA:
        for s in (a, a + "/secret.txt", a + "/../secret.txt", "sub/" + a + "/../secret.txt", a + "/" + a + "/secret.txt",
                  "../" + a, a + "..", ".." + a + "secret.txt", a + "{S}/secret.txt", "sub/" + a, a + "/in.txt",
                  a + "/sub/../../secret.txt", "sub/" + a + "/" + a + "/secret.txt"):
            yield s


def _raw_strings_quick(full=True):
    seen = set()

    def add(s):
        if s not in seen:
            seen.add(s)
            return True
        return False

    for s in _raw_strings_reduced():
        if add(s):
            yield s
    if not full:
        return
    for t in itertools.product(ATOMS, repeat=3):
        s = "/".join(t)
        if add(s):
            yield s
    for t in itertools.product(_concats(E2E_CORE, 2), repeat=2):
        s = "/".join(t)
        if add(s):
            yield s
    # deeper hand-shaped traversals (5..9 atoms) that reach each sentinel
    for up in _UPS:
        for pre in ("", "sub/", "sub/sub/", "/", "in.txt/", "nonexistent/"):
            for k in (1, 2, 3):
                for sep in ("/", "//", "/./", "%2f", "\\", "%5c"):
                    for tail in ("secret.txt", "etc/secret.txt", "sub/secret.txt", ""):
                        if k == 3 and tail in ("etc/secret.txt", ""):
                            continue
                        s = pre + sep.join([up] * k) + sep + tail
                        if add(s):
                            yield s


def _raw_strings_thorough(seed, full=True):
    seen = set()
    for s in _raw_strings_quick(True):
        seen.add(s)
        yield s
    if not full:
        return
    for s in _concats(ATOMS, 4):
        if s not in seen:
            seen.add(s)
            yield s
    allat = ATOMS + EXTRA
    r = rng(seed, "c14-e2e")
    for _ in range(150000):
        s = "".join(r.choice(allat if r.random() < 0.5 else CORE) + r.choice(["", "/", "/", "/"])
                    for _ in range(r.randint(1, 7)))
        if s not in seen:
            seen.add(s)
            yield s


FULL_BASES = ("abs", "rel", "empty", "fixed")  # the other base forms get the reduced string set in the quick tier


def _e2e_task(args):
    tier, seed, scratch_tree, base_id, k, nk = args
    tree = scratch_tree
    F = _Fails()
    full = tier != "quick" or base_id in FULL_BASES
    gen = _raw_strings_quick(full) if tier == "quick" else _raw_strings_thorough(seed, base_id in FULL_BASES)
    # '/static/' (trailing slash export, cache off) is exercised on every base but only for the reduced set
    reduced = set(_raw_strings_reduced())
    old = os.getcwd()
    try:
        if base_id == "fixed":
            os.chdir(tree.scratch)
            fixed = _fixed_apps(tree)
            try:
                for i, raw in enumerate(gen):
                    if i % nk == k:
                        e2e_fixed_case(F, tree, fixed, raw)
            finally:
                _fixed_cleanup(tree)
        else:
            cwd_rel, d = TREE_BASES[base_id]
            os.chdir(os.path.join(tree.scratch, cwd_rel))
            directory = _expand(d, tree.scratch)
            apps = _Apps(tree, directory)
            for i, raw in enumerate(gen):
                if i % nk == k:
                    apis = ("sfd", "sdm_static", "sdm_root", "sdm_slash") if raw in reduced else \
                        ("sfd", "sdm_static", "sdm_root")
                    e2e_case(F, tree, base_id, directory, apps, raw, apis)
    finally:
        os.chdir(old)
    return F


# ------------------------------------------------------------------------------------------------
# secure_filename
SF_ALPHABET = ["a", "Z", "0", ".", "_", "-", " ", "/", "\\", "\t", "\x00", "\uff0e", "\uff0f", "\uff3c", "\u3000",
               "\u00e9", "\u2025", "\u2100", "\x1c", "~"]
SF_EXTRA = ["\n", "\r", "\x0b", "\x0c", "\x1d", "\x1e", "\x1f", "\x85", "\xa0", "\u2028", "\u2029", "\u2026", "\u2024",
            "\ufb01", "\u2215", "\u2044", "\u00bd", "\u2101", "\u2105", "\ufe52", "\ufe68", "\uff0d", "\uff3f", "\uff21",
            "\u0301", "\u00fc", "\u212b", "\U0001f600", "\ud800", "\udcff", ":", "*", "?", "\"", "<", ">", "|", "%",
            "\x7f", "\u200b", "\u202e", "\ufeff", "CON", "nul", "..", "../", "..\\"]
_SF_OK = set("ABCDEFGHIJKLMNOPQRSTUVWXYZabcdefghijklmnopqrstuvwxyz0123456789_.-")
_SF_WS = set("\t\n\x0b\x0c\r\x1c\x1d\x1e\x1f ")  # ASCII characters str.split() treats as whitespace


def _sf_model(s):
    """independent model: per-character compatibility decomposition, ASCII projection, '/' -> blank,
    blank-separated words joined by '_', characters outside [A-Za-z0-9_.-] dropped, '.'/'_' trimmed"""
    proj = []
    for ch in s:
        for d in unicodedata.normalize("NFKD", ch):
            if ord(d) < 128:
                proj.append(d)
    words, cur = [], []
    for ch in proj:
        if ch == "/" or ch in _SF_WS:
            if cur:
                words.append("".join(cur))
                cur = []
        else:
            cur.append(ch)
    if cur:
        words.append("".join(cur))
    out = [ch for ch in "_".join(words) if ch in _SF_OK]
    i, j = 0, len(out)
    while i < j and out[i] in "._":
        i += 1
    while j > i and out[j - 1] in "._":
        j -= 1
    return "".join(out[i:j])


def check_secure_filename(s, F, count=True):
    if count:
        F.case("secure_filename", s, True)
    inp = {"s": s}
    try:
        out = secure_filename(s)
    except Exception as e:  # noqa: BLE001
        F.fail("secure_filename_exception", inp, repr(e), "a str")
        return
    if not isinstance(out, str) or any(ord(ch) > 127 for ch in out):
        F.fail("secure_filename_ascii", inp, repr(out), "ASCII str")
        return
    if "/" in out or "\\" in out or (os.sep in out) or (os.path.altsep and os.path.altsep in out):
        F.fail("secure_filename_separator", inp, repr(out), "no path separator")
    if any(ch.isspace() for ch in out) or any(ch in _SF_WS for ch in out):
        F.fail("secure_filename_whitespace", inp, repr(out), "no whitespace")
    if out.startswith("."):
        F.fail("secure_filename_leading_dot", inp, repr(out), "does not start with '.'")
    try:
        again = secure_filename(out)
    except Exception as e:  # noqa: BLE001
        again = repr(e)
    if again != out:
        F.fail("secure_filename_idempotent", inp, f"{out!r} -> {again!r}", "secure_filename(x) is a fixpoint")
    want = _sf_model(s)
    if out != want and os.name != "nt":
        F.fail("secure_filename_model", inp, repr(out), repr(want))


def _sf_task(args):
    tier, seed, k, nk = args
    F = _Fails()
    i = 0
    maxlen = 4 if tier == "quick" else 5
    for s in common.strings(SF_ALPHABET, maxlen):
        if i % nk == k:
            check_secure_filename(s, F)
        i += 1
    both = SF_ALPHABET + SF_EXTRA
    for t in itertools.product(both, repeat=2):
        if i % nk == k:
            check_secure_filename("".join(t), F)
            check_secure_filename("a" + "".join(t) + "b", F)
        i += 1
    for a in SF_EXTRA:
        for t in itertools.product(SF_ALPHABET, repeat=2):
            if i % nk == k:
                check_secure_filename(t[0] + a + t[1], F)
                check_secure_filename(a + t[0] + t[1], F)
                check_secure_filename(t[0] + t[1] + a, F)
            i += 1
    # every code point between two letters; and, for the code points whose compatibility decomposition has an ASCII
    # part or that str.split() / str.isspace() see as blank (the only ones that can leave anything behind), in
    # contexts that expose a separator / dot / blank produced by the decomposition
    ctxs = ["{}", ".{}", "{}.", "..{}..", "a {} b", "{}{}", "_{}", "{}_", "-{}", "a/{}", "{}/a", "a\u0301{}", "{}a", "a{}"]
    for cp in range(0x110000):
        if cp % nk != k:
            continue
        ch = chr(cp)
        check_secure_filename("a" + ch + "b", F)
        if tier != "quick" or ch.isspace() or any(ord(d) < 128 for d in unicodedata.normalize("NFKD", ch)):
            for c in ctxs:
                check_secure_filename(c.replace("{}", ch), F)
    if tier != "quick":
        r = rng(seed, f"c14-sf-{k}")
        pool = both + ["b", "1", "x.y", "\u00c5", "\u1e9b\u0323", "\ufdfa", "\u33c2", "\u2474", "\u3300"]
        for _ in range(400000 // nk):
            n = r.randint(1, 12)
            s = "".join(r.choice(pool) if r.random() < 0.8 else chr(r.randrange(0x110000)) for _ in range(n))
            check_secure_filename(s, F)
    return F


# ------------------------------------------------------------------------------------------------
def _domain(tier):
    return ("safe_join: 1-tuples of components made of <=3 concatenated atoms (23 atoms: '..','.','','/','//',backslash,"
            "'C:','~',%2e%2e,%2f,%5c,%00,%252e%252e, names, dotted names, the scratch path) plus 32 extra hostile atoms in "
            "fixed frames and every request string of the e2e part as one component, 2-tuples of <=2 core atoms and of single "
            "atoms, 3-tuples of single atoms; each raw and "
            "percent-decoded; x 11 base directories (absolute, trailing slash, relative, './', '../', with inner '..', "
            "two-level, empty, '.', '/', '..').  e2e: the same strings ('/'-joined tuples) and ~30k hand-shaped "
            "traversal strings as raw request paths, decoded once, through send_from_directory (8 base forms incl. cwd-"
            "relative, empty, '.'; plus _root_path form) and SharedDataMiddleware ('/static', '/static/', '/' mounts of "
            "a directory, package loader, file loader) on a real temporary tree.  secure_filename: all strings <= "
            + ("4" if tier == "quick" else "5") + " over a 20-symbol alphabet, pairs over 67 symbols, every code point "
            "U+0000..U+10FFFF between two letters and, " + ("for those with an ASCII part in their NFKD form or blank, "
                                                            if tier == "quick" else "") + "in 14 more contexts"
            + ("" if tier == "quick" else "; thorough adds <=4-atom components, 2-tuples of <=2 atoms, 3-tuples of <=2 "
               "core atoms, and seeded random tuples / request paths / filenames") + ". POSIX only.")


def run(tier, seed, reg=None):
    c = Collector(RULE, _domain(tier))
    if os.name != "posix":
        c.exhaustive = False
    tree = Tree()
    nproc = min(16, os.cpu_count() or 1)
    try:
        tasks = []
        nsj = 4 if tier == "quick" else 16
        for k in range(nsj):
            tasks.append(("sj", (tier, seed, k, nsj)))
        nsf = 4 if tier == "quick" else 16
        for k in range(nsf):
            tasks.append(("sf", (tier, seed, k, nsf)))
        for b in list(TREE_BASES) + ["fixed"]:
            ne = (3 if b in FULL_BASES else 1) if tier == "quick" else (8 if b in FULL_BASES else 2)
            for k in range(ne):
                tasks.append(("e2e", (tier, seed, tree, b, k, ne)))
        # longest first
        order = {"e2e": 0, "sj": 1, "sf": 2}
        tasks.sort(key=lambda t: order[t[0]])
        ctx = multiprocessing.get_context("fork")
        with ctx.Pool(nproc) as pool:
            for F in pool.imap(_dispatch, tasks, chunksize=1):
                _merge(c, F)
    finally:
        tree.remove()
    if tier != "quick":
        c.exhaustive = False  # thorough adds seeded random cases on top of the exhaustive part
    return c.result()


def _dispatch(task):
    kind, args = task
    if kind == "sj":
        return _sj_task(args)
    if kind == "sf":
        return _sf_task(args)
    return _e2e_task(args)


# ------------------------------------------------------------------------------------------------
def replay(payload):
    check = payload["obligation"].split(":", 1)[1]
    inp = unj(payload["inputs"])
    F = _Fails()
    if check.startswith("safe_join"):
        check_safe_join(inp["base"], tuple(inp["comps"]), F)
    elif check.startswith("secure_filename"):
        check_secure_filename(inp["s"], F)
    else:
        tree = Tree()
        old = os.getcwd()
        try:
            api = inp["api"]
            if api in ("sdm_pkg", "sdm_file", "sfd_rootpath"):
                os.chdir(tree.scratch)
                fixed = _fixed_apps(tree)
                try:
                    e2e_fixed_case(F, tree, fixed, inp["raw"], apis=(api,))
                finally:
                    _fixed_cleanup(tree)
            else:
                cwd_rel, d = TREE_BASES[inp["base"]]
                os.chdir(os.path.join(tree.scratch, cwd_rel))
                directory = _expand(d, tree.scratch)
                e2e_case(F, tree, inp["base"], directory, _Apps(tree, directory), inp["raw"], apis=(api,))
        finally:
            os.chdir(old)
            tree.remove()
    return any(f["check"] == check for f in F.fails)
