"""C19 bounded tier - the development server transports requests and responses faithfully.

Native evaluation of the statement over a finite domain.  Three families:

``dechunk``  ``serving.DechunkedInput`` driven directly.  Every split of bodies of 0..n
             bytes into chunks, size-line / data terminators CRLF or LF, hex case and
             leading zeros, read by every cyclic mix of read sizes through
             ``read(n)`` (``RawIOBase.read``), ``readinto(bytearray)``,
             ``readinto(memoryview)``, ``read(-1)`` and an ``io.BufferedReader`` of several
             buffer sizes.  Reference: an independent strict de-chunker (``ref_dechunk``,
             RFC 9112 7.1 with the two tolerances the quantifier names: bare LF line
             ends, no extensions).  Well formed wire: delivered == body then a stable EOF.
             Malformed wire (every truncation, negative / non-hex / empty size lines,
             missing or wrong chunk terminators, over-long chunk data): an ``OSError`` must
             be raised before EOF is reported, nothing but ``OSError`` may be raised, and
             every byte delivered before it must be payload (a prefix of the payload
             bytes really present on the wire) - never framing, never invented bytes.
``request``  real ``WSGIRequestHandler`` run in-process over a ``socket.socketpair()``:
             request lines (methods, percent-encoded UTF-8, reserved characters, ``//``
             prefixes, absolute-form URLs, query strings), header sets (repeated,
             underscore names, Content-Type/Length), Content-Length and chunked bodies read
             by the application with mixes of read sizes.  Reference for the environ is
             written from the CGI/WSGI rules (percent-decode the path to bytes, latin-1
             str; raw query; HTTP_ names, comma-joined repeats).
``response`` application responses (status classes, with/without Content-Length, 0..3
             body pieces incl. empty ones, ``write()`` callable, HEAD, server protocol
             1.0/1.1, request version 1.0/1.1); the raw bytes received by the client are
             parsed by an independent strict parser: status line, the application's
             headers in order, chunked framing only when allowed, strict chunk syntax
             ``hex CRLF data CRLF ... 0 CRLF CRLF``, decoded body == produced body.
"""
from __future__ import annotations

import bounded.common as common  # noqa: E402  (must precede werkzeug)

import io
import itertools
import multiprocessing
import re
import signal
import socket
import time

from werkzeug import serving as _serving

# Failures this module reports on the unchanged tree (/repo at 2980781), three root causes.  The text below is
# what bounded/FINDINGS_C19.md is meant to hold (replay any of them with replay({"obligation": "bounded:<check>",
# "inputs": <failure input>})).
FINDINGS = r"""
1. dechunk_truncated_framing_as_data / dechunk_truncated_buffer / dechunk_truncated_wrong_exception
   (/ dechunk_truncated_not_reported in the thorough tier)
   serving.DechunkedInput.readinto: `buf[read:read+n] = self._rfile.read(n)` (and the `buf[read:] = ...` twin) assume
   rfile.read(n) returns n bytes; at EOF it returns fewer, `_len` and `read` advance by n anyway.
   * wire b"5\r\nab", DechunkedInput(BytesIO(wire)).read(4)  -> b"ab\x00\x7f" (2 real bytes + 2 bytes of the
     bytearray's spare capacity: RawIOBase.read builds its result from n bytes of a bytearray readinto shrank), the
     OSError comes only on the next read.  Expected: at most b"ab", then OSError.
   * wire b"2" (size line then EOF), .read(1) -> b"\x00" then OSError.  Expected: OSError, nothing delivered.
   * wire b"5\r\nab", .readinto(bytearray(4)) -> returns 4, caller's bytearray now has length 2.
   * wire b"1", .readinto(memoryview(bytearray(1))), or io.BufferedReader(DechunkedInput(BytesIO(b"5\r\nab")), 4)
     .read(2) -> ValueError("memoryview assignment: lvalue and rvalue have different structures").  Expected OSError.
   * thorough tier only (random corruption), also as dechunk_truncated_not_reported: a large announced size makes
     this practically endless - wire b"7baba0bb\n0\n\n" (the line end after a size was dropped, so the size line
     reads 0x7baba0bb) read with read(3), read(1), read(8), ...: after the 3 real bytes more than 5000 reads return
     NUL bytes and no OSError arrives (it would after 2 GB of invented data).
   * through the real server (socket pair): POST, Transfer-Encoding: chunked, body b"5\r\nab" + EOF, application
     calls environ["wsgi.input"].read(4) -> receives b"ab\x00\x7f", then OSError.
   In the stated domain (truncated chunk headers / bodies, "never delivered as body data", "reported as an I/O
   error").  DESIGN section 10 item 14 knows the ValueError; the bytearray variant is worse than DESIGN section 8
   says: invented bytes reach the application before the OSError.  Judgement: genuine defect; fix = read into a
   temporary, raise OSError when short, then store.
2. dechunk_lenient_size
   read_chunk_len uses int(line.strip(), 16) on the latin-1 decoded line: a sign, a 0x prefix, '_' separators and
   every Unicode white space are accepted.  b"0x3\r\nabc\r\n0\r\n\r\n", b"+3\r\nabc...", b"1_0\r\n"+16 bytes,
   b"\x0b3\r\nabc...", b"\xa03...", b"\r03\nabc..." deliver the data with a clean EOF; b"3\r\nabc\r\n-0\r\n\r\n"
   takes "-0" as the last chunk.  Expected: OSError (RFC 9112 7.1 chunk-size = 1*HEXDIG; SP/HT around it and bare LF
   are tolerated by the reference).  In the domain under the plain reading of "non-hex chunk headers"; not what DESIGN
   section 8 uses for the proof tier ("whatever int(., 16) rejects").  Judgement: real deviation from "malformed chunk
   framing is reported as an I/O error", low severity (development server); fix with a HEXDIG full match or record as a
   known finding under this one check name.
3. response_chunked_to_http10
   run_wsgi.write tests self.protocol_version (the server's, 1.1 for threaded/forking servers), not the request's
   version: handler protocol HTTP/1.1, request "GET / HTTP/1.0", app start_response("200 OK", []) + [b"hello"] ->
   "HTTP/1.1 200 OK ... Transfer-Encoding: chunked ... 5\r\nhello\r\n0\r\n\r\n".  An HTTP/1.0 client reads until close
   and takes the framing as body (RFC 9112 6.1: MUST NOT send Transfer-Encoding unless the request indicates HTTP/1.1).
   Whether this is in the domain depends on reading "on HTTP/1.1" as "the exchange" (violation) or "the server"
   (by design - then drop this check; response_chunked_forbidden covers Content-Length/HEAD/1xx/204/304/1.0 server
   and passes).  Judgement: borderline, maintainer's call.
Oracle decisions without failures: a lone CR as last byte of the input is a valid chunk line end (upstream lists
b"\r"); request header values are compared modulo surrounding SP/HT (http.client keeps trailing blanks); "//foo/bar"
over the socket arrives as "/foo/bar" because CPython >= 3.12 rewrites it in http.server, make_environ's own
"//netloc/path" branch is exercised by calling make_environ directly (environ_direct); "chunked only when" is checked in
the statement's direction only.
"""

RULE = ("dev server: environ/method/path/query/headers/body seen by the app == what the client sent (Content-Length "
        "and every chunk framing x read pattern); bytes seen by the client == status/headers/body the app produced, "
        "chunked only if no Content-Length, HTTP/1.1, not HEAD/1xx/204/304; malformed chunk framing => OSError, "
        "never body data; independent reference de-chunker / response parser")

SENT = 0xAA
HEXDIG = b"0123456789abcdefABCDEF"


HANG_S = 4


class Hang(BaseException):
    pass


def _alarm(signum, frame):
    raise Hang()


# --------------------------------------------------------------------------- reference de-chunker


_PYSPACE = b"\t\n\x0b\x0c\r\x1c\x1d\x1e\x1f \x85\xa0"
_LENIENT = re.compile(rb"^[+-]?(0[xX]_?)?[0-9a-fA-F]+(_[0-9a-fA-F]+)*$")


def _lenient_number(tok):
    """classification only: a size line that is not 1*HEXDIG but that a forgiving number parser reads as a
    non-negative number (sign, 0x prefix, digit separators, exotic white space)"""
    t = tok.strip(_PYSPACE)
    if not _LENIENT.match(t):
        return False
    return not (t.startswith(b"-") and t.strip(b"-+0xX_") != b"")


def ref_dechunk(wire):
    """-> (ok, payload, reason).  ok: the wire holds a complete, well formed chunked body
    (anything after the last-chunk's line end is not part of it).  payload: the body if
    ok, else the payload bytes present on the wire before the malformation (incl. the
    available part of a chunk cut short), i.e. the most that may ever be delivered.

    chunk      = size-line data line-end
    size-line  = *( SP / HT ) 1*HEXDIG *( SP / HT ) ( CRLF / LF )     (no extensions)
    line-end   = CRLF / LF / a lone CR when it is the very last byte of the input
    last chunk = size 0, no data, line-end

    reason (why it is malformed): "truncated" (input ends inside a size line or inside chunk data),
    "badsize" / "lenient_size" (size line is not a hex number / is one only for a forgiving parser),
    "unterminated" (chunk data not followed by a line end).
    """
    pos = 0
    body = b""
    while True:
        nl = wire.find(b"\n", pos)
        line = wire[pos:] if nl < 0 else wire[pos:nl]
        if line.endswith(b"\r"):
            line = line[:-1]
        tok = line.strip(b" \t")
        if not tok or any(c not in HEXDIG for c in tok):
            if nl < 0 and (not tok or all(c in HEXDIG for c in tok.strip(b" \t\r"))):
                return False, body, "truncated"
            return False, body, "lenient_size" if _lenient_number(line) else "badsize"
        if nl < 0:
            return False, body, "truncated"
        size = int(tok, 16)
        pos = nl + 1
        data = wire[pos:pos + size]
        body += data
        if len(data) < size:
            return False, body, "truncated"
        pos += size
        if wire[pos:pos + 2] == b"\r\n":
            pos += 2
        elif wire[pos:pos + 1] == b"\n":
            pos += 1
        elif wire[pos:] == b"\r":
            pos += 1
        else:
            return False, body, "truncated" if pos >= len(wire) else "unterminated"
        if size == 0:
            return True, body, None


def strict_dechunk(wire):
    """for *responses*: RFC syntax exactly (lower/upper hex, CRLF only, nothing after
    the last chunk).  -> (ok, body, chunk sizes)"""
    pos = 0
    body = b""
    sizes = []
    while True:
        nl = wire.find(b"\r\n", pos)
        if nl < 0:
            return False, body, sizes
        tok = wire[pos:nl]
        if not tok or any(c not in HEXDIG for c in tok):
            return False, body, sizes
        size = int(tok, 16)
        pos = nl + 2
        data = wire[pos:pos + size]
        if len(data) < size:
            return False, body, sizes
        body += data
        pos += size
        if wire[pos:pos + 2] != b"\r\n":
            return False, body, sizes
        pos += 2
        sizes.append(size)
        if size == 0:
            return pos == len(wire), body, sizes


# --------------------------------------------------------------------------- family "dechunk"


class FragRaw(io.RawIOBase):
    """a socket-like raw stream returning at most k bytes per call"""

    def __init__(self, data, k):
        self.data, self.k, self.pos = data, k, 0

    def readable(self):
        return True

    def readinto(self, b):
        m = min(len(b), self.k, len(self.data) - self.pos)
        b[:m] = self.data[self.pos:self.pos + m]
        self.pos += m
        return m


def make_rfile(wire, rf):
    if rf == "bytesio":
        return io.BytesIO(wire)
    return io.BufferedReader(FragRaw(wire, rf[1]), buffer_size=rf[2])


def drive(wire, mode, sizes, rf="bytesio"):
    """read the de-chunking stream to its end -> (delivered, end, detail)
    end: "EOF" | "OSError" | "OTHER" | "BUFFER" | "UNSTABLE_EOF" | "ENDLESS" """
    d = _serving.DechunkedInput(make_rfile(wire, rf))
    top = io.BufferedReader(d, buffer_size=mode[1]) if mode[0] == "buffered" else d
    out = b""
    cap = len(wire) + 5000  # a corrupted size line may announce up to a few thousand bytes
    i = 0
    try:
        while i < cap:
            n = sizes[i % len(sizes)]
            i += 1
            if mode[0] in ("read", "buffered"):
                x = top.read(n)
            elif mode[0] == "readall":
                x = top.read(-1)
            else:
                ba = bytearray([SENT]) * n
                tgt = memoryview(ba) if mode[0] == "readinto_mv" else ba
                r = d.readinto(tgt)
                if not isinstance(r, int) or r < 0 or r > n or len(ba) != n or \
                        bytes(ba[r:]) != bytes([SENT]) * (n - r):
                    return out, "BUFFER", f"readinto({n}) -> {r!r}, buffer {bytes(ba)!r}"
                x = bytes(ba[:r])
            if x is None:
                return out, "OTHER", "read returned None"
            if mode[0] != "readall" and len(x) > n:
                return out + x, "BUFFER", f"read({n}) returned {len(x)} bytes"
            if not x:
                # EOF must be stable
                y = top.read(1)
                if y:
                    return out + y, "UNSTABLE_EOF", f"{y!r} after EOF"
                return out, "EOF", ""
            out += x
        return out, "ENDLESS", f"no EOF after {cap} reads"
    except OSError as e:
        return out, "OSError", repr(e)
    except Hang:
        raise
    except Exception as e:  # noqa: BLE001
        return out, "OTHER", repr(e)


def check_dechunk(col, wire, mode, sizes, rf="bytesio", tag="dechunk", ref=None):
    ok, payload, reason = ref if ref is not None else ref_dechunk(wire)
    col.count(tag)
    out, end, detail = drive(wire, mode, sizes, rf)
    # failures are named after the reference's diagnosis of the wire, not after how the wire was generated
    name = "dechunk" if ok else "dechunk_" + reason

    def fail(check, observed, expected):
        if reason == "lenient_size":
            check = "dechunk_lenient_size"  # one finding: a size line that is not 1*HEXDIG was taken as a number
        col.fail(check, {"kind": "dechunk", "wire": wire, "mode": list(mode), "sizes": list(sizes),
                         "rfile": rf if isinstance(rf, str) else list(rf), "tag": tag}, observed, expected)

    if end == "BUFFER":
        fail(name + "_buffer", f"{detail}; delivered so far {out!r}", "0 <= r <= len(buf), buffer size and tail kept")
        return 1
    if ok:
        if end != "EOF" or out != payload:
            fail(name + "_wellformed", f"delivered {out!r}, end {end} {detail}", f"{payload!r} then EOF")
            return 1
        return 0
    # malformed
    bad = 0
    if reason == "lenient_size":
        if end != "OSError" or not payload.startswith(out):
            fail(name, f"delivered {out!r}, end {end} {detail}", f"OSError after at most {payload!r}")
            return 1
        return 0
    if not payload.startswith(out):
        fail(name + "_framing_as_data", f"delivered {out!r} (end {end} {detail})",
             f"only payload bytes: a prefix of {payload!r}, then OSError")
        bad = 1
    if end != "OSError":
        suffix = "_not_reported" if end in ("EOF", "UNSTABLE_EOF", "ENDLESS") else "_wrong_exception"
        fail(name + suffix, f"end {end} {detail}; delivered {out!r}", "OSError")
        bad = 1
    return bad


def compositions(n):
    if n == 0:
        yield ()
        return
    for first in range(1, n + 1):
        for rest in compositions(n - first):
            yield (first,) + rest


def encode(body, parts, size_eol=b"\r\n", data_eol=b"\r\n", fmt="x", last=b"0\r\n\r\n"):
    out = b""
    pos = 0
    for p in parts:
        if fmt == "x":
            tok = b"%x" % p
        elif fmt == "X":
            tok = b"%X" % p
        elif fmt == "0x":
            tok = b"00%x" % p
        else:  # padded
            tok = b" %x\t" % p
        out += tok + size_eol + body[pos:pos + p] + data_eol
        pos += p
    return out + last


BODIES = (b"abcdefghijklmnopqrstuvwxyz0123456789", b"\r\n0\r\n\r\n5\r\n\n\r3\n;x\r\n")

READ_SIZES_1 = [(1,), (2,), (3,), (4,)]
READ_SIZES_2 = [p for p in itertools.product((1, 2, 3, 4), repeat=2) if p[0] != p[1]]

MODES_Q = (("read",), ("readinto_ba",), ("readinto_mv",), ("buffered", 1), ("buffered", 3), ("buffered", 8))
MODES_T = MODES_Q + (("buffered", 2), ("buffered", 5), ("buffered", 8192))

# size lines that are not 1*HEXDIG (negative, non-hex, empty, sign, prefix, separator, odd white space)
BAD_SIZE_STRICT = (b"-3", b"-1", b"zz", b"g", b"", b"3g", b"0y", b"3 3", b"3;", b".3", b"3.0", b"\xb3")
# accepted by int(s, 16) but not hex numbers in the sense of the grammar
LENIENT_SPELLINGS = (b"+%x", b"0x%x", b"0X%x", b"0_%x", b"\x0b%x", b"%x\x0c", b"\xa0%x", b"\x85%x", b"+0x%x")
LENIENT_LAST = (b"-0", b"+0", b"0x0", b"0_0", b"\x0b0")


def wellformed_wires(nmax, framings, fmts=("x",)):
    for body0 in BODIES:
        for n in range(nmax + 1):
            body = body0[:n]
            for parts in compositions(n):
                for (se, de) in framings:
                    for fmt in fmts:
                        yield encode(body, parts, se, de, fmt, b"0" + se + de)


def malformed_wires(nmax):
    """(tag, wire) - built from well formed wires of bodies <= nmax"""
    seen = set()
    for body0 in BODIES:
        for n in range(1, nmax + 1):
            body = body0[:n]
            for parts in compositions(n):
                if len(parts) > 3:
                    continue
                for (se, de) in ((b"\r\n", b"\r\n"), (b"\n", b"\n")):
                    good = encode(body, parts, se, de)
                    # every truncation
                    for cut in range(len(good)):
                        w = good[:cut]
                        if w not in seen:
                            seen.add(w)
                            yield "dechunk_truncated", w
                    # chunk terminator missing / wrong / data longer than declared
                    pos = 0
                    out = b""
                    for idx, p in enumerate(parts):
                        head = out + b"%x" % p + se + body[pos:pos + p]
                        tail = encode(body[pos + p:], parts[idx + 1:], se, de)
                        for junk in (b"", b"X" + de, b"XY", b"\r\r\n", b" " + de, b"\r", b"\x00" + de):
                            w = head + junk + tail
                            if w not in seen:
                                seen.add(w)
                                yield "dechunk_unterminated", w
                        out = head + de
                        pos += p
                    # bad size line in place of chunk idx
                    pos = 0
                    out = b""
                    for idx, p in enumerate(parts):
                        rest_body = body[pos:]
                        for bad in BAD_SIZE_STRICT:
                            w = out + bad + se + rest_body + de + b"0" + se + de
                            if w not in seen:
                                seen.add(w)
                                yield "dechunk_badsize", w
                        for spell in LENIENT_SPELLINGS:
                            # same value, spelled in a way int(s, 16) takes but the grammar does not
                            w = out + spell % p + se + body[pos:pos + p] + de + \
                                encode(body[pos + p:], parts[idx + 1:], se, de)
                            if w not in seen:
                                seen.add(w)
                                yield "dechunk_lenient_size", w
                        out += b"%x" % p + se + body[pos:pos + p] + de
                        pos += p
    for w in (b"0", b"0\r", b"0\r\n", b"0\n", b"\r\n", b"\n", b"0\r\nX", b"0\r\nX-Trailer: v\r\n\r\n", b"00", b"0\r\n\r"):
        if w not in seen:
            seen.add(w)
            yield "dechunk_truncated", w
    for last in LENIENT_LAST:
        for pre in (b"", b"3\r\nabc\r\n"):
            yield "dechunk_lenient_size", pre + last + b"\r\n\r\n"
    yield "dechunk_lenient_size", b"1_0\r\n" + BODIES[0][:16] + b"\r\n0\r\n\r\n"


def dechunk_jobs(thorough):
    """list of (tag, wire, [(mode, sizes, rf)...]) grouped by wire"""
    jobs = []
    fr_all = [(a, b) for a in (b"\r\n", b"\n") for b in (b"\r\n", b"\n")]
    nmax = 8 if thorough else 7
    modes = MODES_T if thorough else MODES_Q
    sizes = READ_SIZES_1 + READ_SIZES_2
    if thorough:
        sizes = sizes + [(5,), (7,), (1, 2, 3), (3, 2, 1), (4, 1, 1), (2, 2, 5), (64,)]
    readers = [(m, s, "bytesio") for m in modes for s in sizes] + [(("readall",), (1,), "bytesio")]
    readers_frag = [(m, s, ("frag", 1, 2)) for m in (("read",), ("readinto_mv",), ("buffered", 3)) for s in
                    ((1,), (3,), (2, 4))]
    seen = set()
    for w in wellformed_wires(nmax, fr_all):
        if w in seen:
            continue
        seen.add(w)
        jobs.append(("dechunk", w, readers + (readers_frag if len(w) < 30 else [])))
    # hex case / leading zeros / padding, larger chunks
    for n in (10, 11, 12, 15, 16, 17, 26, 27, 31, 36):
        body = BODIES[0][:n]
        for parts in ((n,), (n - 1, 1), (1, n - 1), (10, n - 10)):
            if any(p <= 0 for p in parts):
                continue
            for fmt in ("x", "X", "0x", "pad"):
                w = encode(body, parts, fmt=fmt)
                if w not in seen:
                    seen.add(w)
                    jobs.append(("dechunk", w, [(m, s, "bytesio") for m in modes for s in ((1,), (4,), (3, 2), (16,),
                                                                                            (64,))]))
    # trailing bytes after the body are not body
    for extra in (b"GET / HTTP/1.1\r\n\r\n", b"3\r\nabc\r\n0\r\n\r\n", b"\r\n"):
        for body, parts in ((b"", ()), (b"abc", (3,)), (b"abcd", (1, 3))):
            w = encode(body, parts) + extra
            jobs.append(("dechunk", w, [(m, s, "bytesio") for m in modes for s in ((1,), (2,), (4,), (8,))]))
    mal_readers = [(m, s, "bytesio") for m in modes for s in ((1,), (2,), (3,), (4,), (8,), (1, 3), (2, 1))] + \
                  [(("readall",), (1,), "bytesio")]
    for tag, w in malformed_wires(5 if not thorough else 6):
        jobs.append((tag, w, mal_readers))
    return jobs


# --------------------------------------------------------------------------- socket pair harness


class _Server:
    ssl_context = None
    multithread = False
    multiprocess = False
    server_address = ("127.0.0.1", 5000)
    passthrough_errors = False
    _server_version = "Werkzeug/bounded"

    def __init__(self, app):
        self.app = app

    def log(self, *a, **k):
        pass


class _H10(_serving.WSGIRequestHandler):
    protocol_version = "HTTP/1.0"

    def log(self, *a, **k):
        pass


class _H11(_serving.WSGIRequestHandler):
    protocol_version = "HTTP/1.1"

    def log(self, *a, **k):
        pass


def transact(raw, app, proto="1.1", half_close=True):
    """run one request through the real handler, in this thread -> (response bytes, error)"""
    c, s = socket.socketpair()
    err = None
    try:
        s.settimeout(3)
        c.settimeout(3)
        c.sendall(raw)
        if half_close:
            c.shutdown(socket.SHUT_WR)
        try:
            (_H11 if proto == "1.1" else _H10)(s, ("127.0.0.1", 4321), _Server(app))
        except Exception as e:  # noqa: BLE001
            err = repr(e)
        try:
            s.shutdown(socket.SHUT_RDWR)
        except OSError:
            pass
        s.close()
        out = b""
        while True:
            try:
                d = c.recv(1 << 16)
            except OSError as e:
                err = err or repr(e)
                break
            if not d:
                break
            out += d
        return out, err
    finally:
        c.close()
        try:
            s.close()
        except OSError:
            pass


def parse_response(raw):
    """-> (status_line, [(name, value)], body bytes) or None"""
    head, sep, rest = raw.partition(b"\r\n\r\n")
    if not sep:
        return None
    lines = head.split(b"\r\n")
    headers = []
    for ln in lines[1:]:
        name, sep2, value = ln.partition(b": ")
        if not sep2:
            return None
        headers.append((name.decode("latin-1"), value.decode("latin-1")))
    return lines[0].decode("latin-1"), headers, rest


# --------------------------------------------------------------------------- family "request"

_ABS = re.compile(r"^[A-Za-z][A-Za-z0-9+.\-]*://([^/?#]*)(.*)$")
_HEXS = "0123456789abcdefABCDEF"


def pct_decode(s):
    out = bytearray()
    i = 0
    while i < len(s):
        ch = s[i]
        if ch == "%" and i + 2 < len(s) and s[i + 1] in _HEXS and s[i + 2] in _HEXS:
            out.append(int(s[i + 1:i + 3], 16))
            i += 3
        else:
            out += ch.encode("latin-1")
            i += 1
    return bytes(out)


def ref_target(target):
    """expected (PATH_INFO, QUERY_STRING, host override) for a request-target"""
    host = None
    m = _ABS.match(target)
    if m:
        host = m.group(1)
        pathq = m.group(2)
    else:
        pathq = target
        if pathq.startswith("//"):
            # an origin-form target is a path: a run of leading slashes is one slash
            pathq = "/" + pathq.lstrip("/")
    path, _, query = pathq.partition("?")
    return pct_decode(path).decode("latin-1"), query, host


TARGETS = (
    "/", "/a", "/a/b/", "/a%20b", "/caf%C3%A9", "/%E2%82%AC/x", "/%e2%82%ac", "/%F0%9F%98%80", "/a%2Fb", "/a%3Fb?c",
    "/a%25b", "/a%2525", "/a;p=1/b", "/a:b@c", "/!$&'()*+,;=", "/a+b", "/~u/-._", "/a//b", "/a/./b/../c",
    "//foo/bar", "//foo", "///x", "////x/y", "//foo//bar?x=//y", "/x?", "/x?a=1&b=2", "/x?a=%20&b=%C3%A9", "/x?a?b",
    "/x?a=b=c&&", "/x?%3F", "/?q=http://h/p", "/x?a+b", "http://example.com/p", "http://example.com:8080/p/q?z=1",
    "http://example.com/caf%C3%A9?x=%20", "https://h/", "http://h/a//b", "http://user@h:1/p", "/%41%42", "/a%0Ab",
    "/x%C3%A9y%C3%A9", "/%7Euser", "/a%2f%2Fb", "/index.html", "*",
)
METHODS = ("GET", "POST", "PUT", "DELETE", "PATCH", "OPTIONS", "HEAD", "FOO", "M-SEARCH")

HEADER_SETS = (
    [],
    [("X-Foo", "a")],
    [("X-Foo", "a"), ("X-Foo", "b")],
    [("X-Foo", "a"), ("X-Bar", "c"), ("x-foo", "b")],
    [("X_Under", "u")],
    [("X-A-B", "dash"), ("X_A_B", "under")],
    [("X_A_B", "under"), ("X-A-B", "dash")],
    [("Content-Type", "text/plain; charset=utf-8")],
    [("content-type", "application/x-www-form-urlencoded"), ("Accept", "a/b, c/d;q=0.5")],
    [("Cookie", "a=1"), ("Cookie", "b=2"), ("User-Agent", "ua (x; y) z/1.0")],
    [("X-Foo", "a, b"), ("X-Foo", "c")],
    [("X-Three", "1"), ("X-Three", "2"), ("X-Three", "3")],
    [("Accept-Encoding", "gzip"), ("X-Forwarded-For", "1.2.3.4"), ("If-None-Match", '"abc"')],
    [("X-Colon", "a: b"), ("X-Empty", "")],
    [("Content_Type", "evil/under"), ("Content-Type", "real/type")],
    # only Content-Type and Content-Length lose the HTTP_ prefix (PEP 3333); every other Content-* header keeps it and
    # repeated ones are joined (seed C19-4)
    [("Content-Encoding", "gzip"), ("Content-Language", "de"), ("Content-Language", "en")],
    [("Content-MD5", "Q2hlY2s="), ("Content-Disposition", "form-data"), ("Content-Type", "a/b"), ("Content-Typed", "x")],
)


def ref_headers(headers, host, override, body_cl, chunked, te="chunked"):
    """expected environ entries (only header derived ones)"""
    exp = {}
    allh = [("Host", host)] + list(headers)
    if body_cl is not None:
        allh.append(("Content-Length", str(body_cl)))
    if chunked:
        allh.append(("Transfer-Encoding", te))
    for name, value in allh:
        if "_" in name:
            continue
        key = name.upper().replace("-", "_")
        if key in ("CONTENT_TYPE", "CONTENT_LENGTH"):
            exp[key] = value
            continue
        key = "HTTP_" + key
        if key in exp:
            exp[key] = exp[key] + "," + value
        else:
            exp[key] = value
    if override is not None:
        exp["HTTP_HOST"] = override
    return exp


def build_request(method, target, version, headers, host, body, chunked_wire, te="chunked"):
    lines = [f"{method} {target} HTTP/{version}", f"Host: {host}"]
    for n, v in headers:
        lines.append(f"{n}: {v}")
    if chunked_wire is not None:
        lines.append("Transfer-Encoding: " + te)
        payload = chunked_wire
    elif body is not None:
        lines.append(f"Content-Length: {len(body)}")
        payload = body
    else:
        payload = b""
    return ("\r\n".join(lines) + "\r\n\r\n").encode("latin-1") + payload


def check_request(col, method, target, version, headers, body, chunk_parts, sizes, half_close=True,
                  framing=(b"\r\n", b"\r\n")):
    col.count("request")
    host = "srv.test"
    wire = None
    te = framing[2] if len(framing) > 2 else "chunked"  # spelling of the (case-insensitive) coding name
    if chunk_parts is not None:
        wire = encode(body, chunk_parts, framing[0], framing[1], "x", b"0" + framing[0] + framing[1])
    raw = build_request(method, target, version, headers, host, None if chunk_parts is not None else body, wire, te)
    seen = {}

    def app(environ, start_response):
        seen["environ"] = {k: v for k, v in environ.items() if isinstance(v, (str, int, bool))}
        seen["terminated"] = environ.get("wsgi.input_terminated")
        inp = environ["wsgi.input"]
        got = b""
        i = 0
        try:
            if "wsgi.input_terminated" in environ:
                while True:
                    d = inp.read(sizes[i % len(sizes)])
                    i += 1
                    if not d:
                        break
                    got += d
                    if i > 32 + 2 * len(body or b""):
                        seen["read_error"] = "no end of input after %d reads" % i
                        break
            else:
                remaining = int(environ.get("CONTENT_LENGTH") or 0)
                while remaining > 0:
                    d = inp.read(min(sizes[i % len(sizes)], remaining))
                    i += 1
                    if not d:
                        break
                    got += d
                    remaining -= len(d)
        except Exception as e:  # noqa: BLE001
            seen["read_error"] = repr(e)
        seen["body"] = got
        start_response("200 OK", [("Content-Length", "2")])
        return [b"ok"]

    out, err = transact(raw, app, "1.1", half_close)
    inp_desc = {"kind": "request", "method": method, "target": target, "version": version,
                "headers": [list(h) for h in headers], "body": body,
                "chunks": None if chunk_parts is None else list(chunk_parts), "sizes": list(sizes),
                "half_close": half_close, "framing": list(framing)}
    bad = 0

    def fail(check, observed, expected):
        nonlocal bad
        bad += 1
        col.fail(check, inp_desc, observed, expected)

    if "environ" not in seen:
        fail("request_not_delivered", f"application not called; client got {out[:120]!r} err={err}", "app called")
        return bad
    env = seen["environ"]
    path, query, override = ref_target(target)
    if env.get("REQUEST_METHOD") != method:
        fail("request_method", env.get("REQUEST_METHOD"), method)
    if env.get("PATH_INFO") != path:
        fail("request_path", repr(env.get("PATH_INFO")), repr(path))
    if env.get("QUERY_STRING") != query:
        fail("request_query", repr(env.get("QUERY_STRING")), repr(query))
    if env.get("SERVER_PROTOCOL") != "HTTP/" + version:
        fail("request_protocol", repr(env.get("SERVER_PROTOCOL")), "HTTP/" + version)
    exp = ref_headers(headers, host, override, None if chunk_parts is not None or body is None else len(body),
                      chunk_parts is not None, te.strip())
    # optional white space around a field value is not part of the value (RFC 9110 5.5): compared modulo it
    got_h = {k: v.strip(" \t") for k, v in env.items()
             if k.startswith("HTTP_") or k in ("CONTENT_TYPE", "CONTENT_LENGTH")}
    exp = {k: v.strip(" \t") for k, v in exp.items()}
    if got_h != exp:
        fail("request_headers", repr(got_h), repr(exp))
    if "read_error" in seen:
        fail("request_body", f"read raised {seen['read_error']} after {seen['body']!r}", repr(body or b""))
    elif seen["body"] != (body or b""):
        fail("request_body", repr(seen["body"]), repr(body or b""))
    if chunk_parts is not None and seen["terminated"] is not True:
        fail("request_body", f"wsgi.input_terminated={seen['terminated']!r} for a chunked request", "True")
    if chunk_parts is None and seen["terminated"]:
        fail("request_body", "wsgi.input_terminated set without chunked encoding", "absent")
    p = parse_response(out)
    if p is None or not p[0].startswith("HTTP/1.1 200") or p[2] != b"ok":
        fail("request_response", f"{out[:200]!r} err={err}", "HTTP/1.1 200 OK ... ok")
    return bad


DIRECT_TARGETS = ("//foo/bar", "//foo", "//foo//bar?x=//y", "//foo/caf%C3%A9?q", "//a:80/p", "/plain/p?q=1",
                  "http://abs.example:81/p%20q?z")


def check_environ_direct(col, target, method="GET"):
    """make_environ on a handler whose request line was parsed by an http.server that does not rewrite '//...'
    (CPython < 3.12 behaviour): a scheme-less '//netloc/path' target is the path '/netloc/path'."""
    import http.client
    col.count("environ_direct")
    h = object.__new__(_H11)
    h.server = _Server(None)
    h.client_address = ("127.0.0.1", 4321)
    h.path = target
    h.command = method
    h.request_version = "HTTP/1.1"
    h.rfile = io.BytesIO(b"")
    h.connection = object()
    h.headers = http.client.parse_headers(io.BytesIO(b"Host: srv.test\r\nX-Foo: a\r\nX-Foo: b\r\n\r\n"))
    inp = {"kind": "environ_direct", "target": target, "method": method}
    try:
        env = h.make_environ()
    except Exception as e:  # noqa: BLE001
        col.fail("environ_direct", inp, repr(e), "an environ")
        return 1
    m = _ABS.match(target)
    if m:
        path, query, host = ref_target(target)
    else:
        pathq = "/" + target.lstrip("/") if target.startswith("//") else target
        p, _, query = pathq.partition("?")
        path, host = pct_decode(p).decode("latin-1"), None
    got = (env.get("PATH_INFO"), env.get("QUERY_STRING"), env.get("HTTP_HOST"), env.get("HTTP_X_FOO"),
           env.get("REQUEST_METHOD"))
    exp = (path, query, host or "srv.test", "a,b", method)
    if got != exp:
        col.fail("environ_direct", inp, repr(got), repr(exp))
        return 1
    return 0


def request_cases(thorough, seed):
    cases = []
    # request line x method
    for t in TARGETS:
        for m in METHODS:
            for v in ("1.1", "1.0"):
                cases.append((m, t, v, (), None, None, (4,), True, None))
    # header sets
    for hs in HEADER_SETS:
        for m, body in (("GET", None), ("POST", b"xyz")):
            cases.append((m, "/h?x=1", "1.1", tuple(hs), body, None, (2,), True, None))
            cases.append((m, "http://abs.example/h", "1.1", tuple(hs), body, None, (2,), True, None))
    # Content-Length bodies x read patterns
    body0 = b"ab\r\n\x00\xff0\r\n\r\nxyz"
    szs = READ_SIZES_1 + READ_SIZES_2 + [(64,)]
    for n in range(0, 8 if not thorough else 13):
        for s in szs:
            cases.append(("POST", "/b", "1.1", (), body0[:n], None, s, True, None))
    # chunked bodies x framing x read pattern through the full server
    nmax = 5 if not thorough else 6
    for n in range(0, nmax + 1):
        body = body0[:n]
        for parts in compositions(n):
            for fr in ((b"\r\n", b"\r\n"), (b"\n", b"\n"), (b"\r\n", b"\n")):
                for s in (READ_SIZES_1 + [(1, 2), (2, 1), (3, 1), (1, 4), (64,)]):
                    cases.append(("POST", "/c", "1.1", (), body, parts, s, True, fr))
    # the transfer coding name is case-insensitive and may be padded
    for te in ("Chunked", "CHUNKED", "chunked ", " chunked"):
        for parts in ((), (3,), (1, 2)):
            cases.append(("POST", "/te", "1.1", (), body0[:sum(parts)], parts, (2,), True, (b"\r\n", b"\r\n", te)))
    # clients that keep their side open (the usual case): a few, they cost a 10 ms drain each
    for n, parts in ((0, None), (3, None), (3, (1, 2)), (5, (5,)), (0, ())):
        cases.append(("POST", "/open", "1.1", (), body0[:n], parts, (2,), False, (b"\r\n", b"\r\n")))
    if thorough:
        r = common.rng(seed, "c19req")
        alpha = ["a", "b", "/", "%20", "%C3%A9", "%2F", ";", ":", "@", "+", "=", "&", "~", ".", "%E2%82%AC", "-"]
        for _ in range(6000):
            path = "/" + "".join(r.choice(alpha) for _ in range(r.randint(0, 8)))
            if r.random() < .2:
                path = "/" + path
            q = ""
            if r.random() < .6:
                q = "?" + "".join(r.choice(alpha + ["?"]) for _ in range(r.randint(0, 6)))
            t = path + q
            if r.random() < .2:
                t = "http://h" + r.choice(["", ":81"]) + (path if not path.startswith("//") else path[1:]) + q
            hs = tuple(r.choice(HEADER_SETS))
            n = r.randint(0, 40)
            body = bytes(r.choice(b"ab\r\n0\xff") for _ in range(n))
            s = tuple(r.randint(1, 9) for _ in range(r.randint(1, 3)))
            if r.random() < .5:
                parts = []
                left = n
                while left:
                    p = r.randint(1, min(left, 17))
                    parts.append(p)
                    left -= p
                fr = r.choice(((b"\r\n", b"\r\n"), (b"\n", b"\n"), (b"\n", b"\r\n")))
                cases.append((r.choice(METHODS), t, "1.1", hs, body, tuple(parts), s, True, fr))
            else:
                cases.append((r.choice(METHODS), t, r.choice(("1.1", "1.0")), hs, body, None, s, True, None))
    return cases


# --------------------------------------------------------------------------- family "response"

STATUSES = ("200 OK", "201 Created", "204 No Content", "304 Not Modified", "301 Moved Permanently",
            "404 Not Found", "500 Internal Server Error", "101 Switching Protocols", "199 Custom", "200",
            "205 Reset Content", "299 Strange Reason: x", "100 Continue")
PIECES = (b"", b"a", b"bc", b"0123456789ABCDEFGHIJKLMNOP", b"0\r\n\r\n")


def check_response(col, status, cl_mode, extra_headers, chunks, n_write, method, proto, version):
    col.count("response")
    total = b"".join(chunks)
    headers = list(extra_headers)
    if cl_mode == "cl":
        headers.append(("Content-Length", str(len(total))))
    elif cl_mode == "cl_lower":
        headers.insert(0, ("content-length", str(len(total))))
    state = {}

    def app(environ, start_response):
        write = start_response(status, list(headers))
        for c in chunks[:n_write]:
            write(c)
        state["called"] = True
        return list(chunks[n_write:])

    raw = f"{method} /r HTTP/{version}\r\nHost: srv.test\r\n\r\n".encode()
    out, err = transact(raw, app, proto)
    inp = {"kind": "response", "status": status, "cl_mode": cl_mode, "headers": [list(h) for h in extra_headers],
           "chunks": list(chunks), "n_write": n_write, "method": method, "server_protocol": proto,
           "request_version": version}
    bad = 0

    def fail(check, observed, expected):
        nonlocal bad
        bad += 1
        col.fail(check, inp, observed, expected)

    p = parse_response(out)
    if p is None or err:
        fail("response_unparsable", f"{out[:300]!r} err={err}", "a response")
        return bad
    sline, rheaders, body = p
    code = status.split(None, 1)[0]
    reason = status.split(None, 1)[1] if " " in status else ""
    exp_line = f"HTTP/{proto} {code} {reason}"
    if sline.rstrip(" ") != exp_line.rstrip(" "):
        fail("response_status", repr(sline), repr(exp_line))
    added = []
    app_part = []
    rest = list(rheaders)
    # the server's own headers: Server, Date in front; Transfer-Encoding (if chunking), Connection at the end
    while rest and rest[0][0] in ("Server", "Date") and len(app_part) == 0 and len(added) < 2:
        added.append(rest.pop(0))
    tail = []
    if rest and rest[-1] == ("Connection", "close"):
        tail.append(rest.pop())
    chunked = False
    if rest and rest[-1] == ("Transfer-Encoding", "chunked") and len(rest) == len(headers) + 1:
        chunked = True
        rest.pop()
    app_part = rest
    if app_part != [(n, v) for n, v in headers]:
        fail("response_headers", repr(rheaders), f"application headers in order: {headers!r}")
    icode = int(code)
    allowed = (cl_mode == "none" and method != "HEAD" and not (100 <= icode < 200) and icode not in (204, 304)
               and proto == "1.1")
    if chunked and not allowed:
        fail("response_chunked_forbidden",
             f"Transfer-Encoding: chunked for status {code}, method {method}, Content-Length {cl_mode}, server "
             f"HTTP/{proto}", "no chunked framing")
    if chunked and allowed and version == "1.0":
        fail("response_chunked_to_http10", f"chunked response to an HTTP/1.0 request: {out[:80]!r}...",
             "no chunked framing towards a client that did not ask in HTTP/1.1")
    if chunked:
        ok, dec, sizes = strict_dechunk(body)
        exp_sizes = [len(c) for c in chunks if c] + [0]
        if not ok:
            fail("response_chunk_syntax", repr(body), "hex CRLF data CRLF ... 0 CRLF CRLF")
        elif dec != total:
            fail("response_body", f"decoded {dec!r}", repr(total))
        elif sizes != exp_sizes:
            fail("response_chunk_syntax", f"chunk sizes {sizes}", f"{exp_sizes} (one chunk per non-empty piece)")
    else:
        if body != total:
            fail("response_body", repr(body), repr(total))
    return bad


def response_cases(thorough, seed):
    cases = []
    hsets = ((), (("X-A", "1"),), (("Set-Cookie", "a=1"), ("Set-Cookie", "b=2"), ("X-B", "v: w")))
    maxlen = 3
    chunk_lists = [c for n in range(maxlen + 1) for c in itertools.product(PIECES, repeat=n)]
    for status in STATUSES:
        for cl_mode in ("none", "cl", "cl_lower"):
            for method in ("GET", "HEAD", "POST"):
                for proto, version in (("1.1", "1.1"), ("1.0", "1.1"), ("1.1", "1.0"), ("1.0", "1.0")):
                    if not thorough:
                        # quick: all piece lists up to length 2, plus length 3 on the main axis
                        lists = [c for c in chunk_lists if len(c) <= 2 or
                                 (proto == "1.1" and version == "1.1" and method == "GET" and cl_mode == "none"
                                  and status in ("200 OK", "204 No Content"))]
                    else:
                        lists = chunk_lists
                    for chunks in lists:
                        for n_write in sorted({0, min(1, len(chunks)), len(chunks)}):
                            hs = hsets[(len(chunks) + n_write) % len(hsets)]
                            if method == "POST" and (len(chunks) > 1 or not thorough and cl_mode == "cl_lower"):
                                continue
                            cases.append((status, cl_mode, hs, chunks, n_write, method, proto, version))
    return cases


# --------------------------------------------------------------------------- driver


class _Col(common.Collector):
    def __init__(self):
        super().__init__(RULE, "", max_failures=10 ** 9)
        self.per_check = {}
        self.counts = {}

    def count(self, kind):
        self.evaluations += 1
        self.counts[kind] = self.counts.get(kind, 0) + 1

    def fail(self, check, inp, observed, expected=""):
        n = self.per_check.get(check, 0)
        self.per_check[check] = n + 1
        if n < 4:
            super().fail(check, inp, observed, expected)


def _work(job):
    kind, items = job
    col = _Col()
    signal.signal(signal.SIGALRM, _alarm)
    hangs = 0
    try:
        if kind == "dechunk":
            for (tag, wire, readers) in items:
                ref = ref_dechunk(wire)
                signal.setitimer(signal.ITIMER_REAL, HANG_S)
                try:
                    for (mode, sizes, rf) in readers:
                        check_dechunk(col, wire, mode, sizes, rf, tag, ref)
                except Hang:
                    col.fail("dechunk_hang", {"kind": "dechunk", "wire": wire, "mode": list(mode),
                                              "sizes": list(sizes), "rfile": rf if isinstance(rf, str) else list(rf),
                                              "tag": tag}, f"no result within {HANG_S} s", "terminates")
                    hangs += 1
                    if hangs >= 2:
                        break  # do not spend the budget on a tree that loops
                finally:
                    signal.setitimer(signal.ITIMER_REAL, 0)
        elif kind in ("request", "response"):
            for c in items:
                signal.setitimer(signal.ITIMER_REAL, HANG_S)
                try:
                    if kind == "request":
                        m, t, v, hs, body, parts, s, hc, fr = c
                        check_request(col, m, t, v, hs, body, parts, s, hc, fr or (b"\r\n", b"\r\n"))
                    else:
                        check_response(col, *c)
                except Hang:
                    col.fail(kind + "_hang", {"kind": kind + "_case", "case": list(c)}, f"no result within {HANG_S} s",
                             "terminates")
                    hangs += 1
                    if hangs >= 2:
                        break
                finally:
                    signal.setitimer(signal.ITIMER_REAL, 0)
    finally:
        signal.setitimer(signal.ITIMER_REAL, 0)
    return col.evaluations, col.counts, col.failures, col.per_check


def _chunks(lst, n):
    size = max(1, (len(lst) + n - 1) // n)
    return [lst[i:i + size] for i in range(0, len(lst), size)]


def run(tier, seed, reg=None):
    common.assert_tree()
    thorough = tier == "thorough"
    t0 = time.time()
    dj = dechunk_jobs(thorough)
    rq = request_cases(thorough, seed)
    rs = response_cases(thorough, seed)
    nrand = 0
    if thorough:
        # seeded random wires: random bodies/chunkings, random corruption of one byte, random readers
        r = common.rng(seed, "c19wire")
        modes = MODES_T
        for _ in range(150000):
            n = r.randint(0, 40)
            body = bytes(r.choice(b"ab\r\n0;x\xff") for _ in range(n))
            parts = []
            left = n
            while left:
                p = r.randint(1, min(left, 20))
                parts.append(p)
                left -= p
            se, de = r.choice((b"\r\n", b"\n")), r.choice((b"\r\n", b"\n"))
            w = encode(body, parts, se, de, r.choice(("x", "X", "0x", "pad")), b"0" + se + de)
            tag = "dechunk"
            kind = r.random()
            if kind < .3:
                w = w[:r.randint(0, len(w))]
                tag = "dechunk_random_cut"
            elif kind < .5 and w:
                i = r.randrange(len(w))
                w = w[:i] + bytes([r.choice(b"\r\nX0-+ g")]) + w[i + 1:]
                tag = "dechunk_random_flip"
            elif kind < .6 and w:
                i = r.randrange(len(w))
                w = w[:i] + w[i + 1:]
                tag = "dechunk_random_drop"
            readers = [(r.choice(modes), tuple(r.randint(1, 9) for _ in range(r.randint(1, 3))), "bytesio")
                       for _ in range(4)]
            dj.append((tag, w, readers))
            nrand += 4
    jobs = [("dechunk", ch) for ch in _chunks(dj, 64)] + [("request", ch) for ch in _chunks(rq, 32)] + \
           [("response", ch) for ch in _chunks(rs, 32)]
    ctx = multiprocessing.get_context("fork")
    with ctx.Pool(16) as pool:
        results = pool.map(_work, jobs, chunksize=1)
    col = common.Collector(RULE, "", max_failures=80)
    counts = {}
    per = {}
    fails = []
    loc = _Col()
    for t in DIRECT_TARGETS:
        for m in ("GET", "POST"):
            check_environ_direct(loc, t, m)
    results = list(results) + [(loc.evaluations, loc.counts, loc.failures, loc.per_check)]
    for ev, cn, fl, pc in results:
        col.evaluations += ev
        for k, v in cn.items():
            counts[k] = counts.get(k, 0) + v
        for k, v in pc.items():
            per[k] = per.get(k, 0) + v
        fails.extend(fl)
    # every enumerated case is distinct by construction (wire x reader, request tuple, response tuple);
    # the trivial ones (empty body and nothing to frame) are not counted as non-trivial
    trivial = sum(len(rd) for (tag, w, rd) in dj if w in (b"0\r\n\r\n", b"0\n\n", b"0\r\n\n", b"0\n\r\n"))
    col.distinct = range(col.evaluations - trivial)
    by = {}
    for f in fails:
        by.setdefault(f["check"], []).append(f)
    for ck in sorted(by):
        for f in sorted(by[ck], key=lambda f: len(repr(f["input"])))[:4]:
            if len(col.failures) < col.max_failures:
                col.failures.append(f)
    col.samples = [{"check": "dechunk", "input": common._j({"wire": dj[i][1], "tag": dj[i][0]})}
                   for i in range(0, len(dj), max(1, len(dj) // 4))][:4] + \
                  [{"check": "request", "input": common._j(list(rq[i][:7]))} for i in (0, len(rq) // 2)] + \
                  [{"check": "response", "input": common._j(list(rs[i]))} for i in (0, len(rs) // 2)]
    col.exhaustive = not thorough
    nb = 8 if thorough else 7
    col.domain = (
        f"DechunkedInput direct: 2 body contents (letters; CR/LF/'0'/';' bytes) of length 0..{nb}, every split into "
        f"chunks, size-line and data terminators CRLF/LF (4 combinations), plus hex case / leading zeros / padded "
        f"size lines for chunk sizes 10..36, plus trailing bytes after the last chunk; read by every cyclic pattern "
        f"of 1 or 2 read sizes out of 1..4 through {len(MODES_T if thorough else MODES_Q)} access modes (read, "
        f"readinto bytearray, readinto memoryview, BufferedReader with several buffer sizes) and read(-1), rfile a "
        f"BytesIO or a BufferedReader over 1-byte fragments; malformed: every truncation of every framing of bodies "
        f"<= {6 if thorough else 5} bytes in <= 3 chunks, {len(BAD_SIZE_STRICT)} negative/non-hex/empty size lines "
        f"and {len(LENIENT_SPELLINGS)} sign/0x/underscore/odd-space spellings of the true size at every chunk position, 7 wrong chunk "
        f"terminators at every chunk end ({counts.get('dechunk', 0) if False else sum(len(x[2]) for x in dj)} "
        f"wire x reader cases). Socket pair: {len(TARGETS)} request targets x methods x HTTP/1.0,1.1; "
        f"{len(HEADER_SETS)} header sets; Content-Length bodies 0..{12 if thorough else 7} bytes x 17 read patterns; "
        f"chunked bodies 0..{6 if thorough else 5} bytes x every chunking x 3 framings x 9 read patterns; "
        f"Transfer-Encoding spelled chunked/Chunked/CHUNKED/padded ({len(rq)} requests); make_environ called "
        f"directly for {len(DIRECT_TARGETS)} targets incl. the scheme-less '//netloc/path' form. Responses: {len(STATUSES)} statuses x Content-Length none/given/lower-case x "
        f"GET/HEAD/POST x server protocol 1.0/1.1 x request version 1.0/1.1 x body piece lists of length 0..3 over "
        f"{len(PIECES)} pieces (quick: 0..2 off the main axis) x pieces sent through write() 0/1/all "
        f"({len(rs)} responses)."
        + (f" Thorough: plus {nrand} seeded random wire x reader cases (bodies <= 40 bytes, random cut / byte flip / "
           f"byte drop) and 6000 random requests; the random part is a sample, hence exhaustive=False."
           if thorough else ""))
    res = col.result()
    res["failure_counts"] = per
    res["family_evaluations"] = counts
    res["wall_s"] = round(time.time() - t0, 2)
    return res


# --------------------------------------------------------------------------- replay


def _tup(x):
    if isinstance(x, list):
        return tuple(_tup(i) for i in x)
    return x


def replay(payload):
    common.assert_tree()
    check = payload["obligation"].split(":", 1)[1]
    inp = common.unj(payload["inputs"])
    col = _Col()
    kind = inp["kind"]
    if kind == "dechunk":
        rf = inp["rfile"]
        rf = rf if isinstance(rf, str) else _tup(rf)
        old = signal.signal(signal.SIGALRM, _alarm)
        signal.setitimer(signal.ITIMER_REAL, HANG_S)
        try:
            check_dechunk(col, inp["wire"], _tup(inp["mode"]), _tup(inp["sizes"]), rf, inp["tag"])
        except Hang:
            col.fail("dechunk_hang", inp, f"no result within {HANG_S} s", "terminates")
        finally:
            signal.setitimer(signal.ITIMER_REAL, 0)
            signal.signal(signal.SIGALRM, old)
    elif kind == "request":
        parts = inp["chunks"]
        check_request(col, inp["method"], inp["target"], inp["version"], _tup(inp["headers"]), inp["body"],
                      None if parts is None else tuple(parts), tuple(inp["sizes"]), inp["half_close"],
                      tuple(inp["framing"]))
    elif kind == "environ_direct":
        check_environ_direct(col, inp["target"], inp["method"])
    elif kind == "response":
        check_response(col, inp["status"], inp["cl_mode"], _tup(inp["headers"]), tuple(inp["chunks"]),
                       inp["n_write"], inp["method"], inp["server_protocol"], inp["request_version"])
    elif kind in ("request_case", "response_case"):
        c = _tup(inp["case"])
        old = signal.signal(signal.SIGALRM, _alarm)
        signal.setitimer(signal.ITIMER_REAL, HANG_S)
        try:
            if kind == "request_case":
                m, t, v, hs, body, parts, s, hc, fr = c
                check_request(col, m, t, v, hs, body, parts, s, hc, fr or (b"\r\n", b"\r\n"))
            else:
                check_response(col, *c)
        except Hang:
            return True
        finally:
            signal.setitimer(signal.ITIMER_REAL, 0)
            signal.signal(signal.SIGALRM, old)
    else:
        raise ValueError(kind)
    names = {f["check"] for f in col.failures}
    return check in names
