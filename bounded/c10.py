"""C10 (bounded tier): configured form limits are enforced and are pure guards.

Oracle = the property statement, clause by clause, evaluated on real runs of the real code:

  buffer_bound      with max_form_memory_size=M the decoder's buffer never holds more than M bytes after a
                    receive_data call (observed on MultipartDecoder directly and, through a recording subclass
                    substituted for formparser.MultipartDecoder, inside MultiPartParser / parse_form_data / Request)
  receive_model     MultipartDecoder.receive_data raises RequestEntityTooLarge iff M is set and
                    len(buffer) + len(chunk) > M  (reference model of the guard; also "no spurious raise")
  field_limit       a non-file field whose byte size exceeds M is never returned: parsing such a body (multipart
                    or urlencoded) raises RequestEntityTooLarge whatever the chunking; on success every returned
                    field is <= M bytes (sizes known from the generator, not from the parser)
  parts_limit       a body with more parts than max_form_parts raises; on success #fields + #files <= max_form_parts
  content_length    declared CONTENT_LENGTH > max_content_length raises and wsgi.input is not read at all;
                    a server-terminated stream is never read beyond max_content_length bytes and a longer
                    stream raises
  only_413          a limit shows as RequestEntityTooLarge, never as another error or a silently shortened result
  guard_purity      whenever parsing succeeds under limits the (fields, files) equal the result of the same body,
                    same environ, same chunking with all limits None
  no_spurious_413   (sanity of the guards, conservative) no RequestEntityTooLarge when nothing can exceed:
                    M >= len(body) (or, for bodies without boundary look-alikes, M >= read size + largest
                    undelimited stretch + slack and every field <= M), parts <= max_form_parts,
                    CONTENT_LENGTH <= max_content_length, and for a terminated stream max_content_length > len(body)

Reference data are produced by the generator (part kinds, names, sizes) and by the run without limits.
"""
from __future__ import annotations

import bounded.common as common  # noqa: E402

import hashlib
import io
import itertools
import multiprocessing
import os

import werkzeug.formparser as fp
from werkzeug.exceptions import RequestEntityTooLarge
from werkzeug.sansio.multipart import Data, Epilogue, Field, File, MultipartDecoder, NeedData, Preamble
from werkzeug.wrappers import Request

RULE = ("limits enforced: len(decoder.buffer)<=M after every receive; field>M, parts>max_form_parts, "
        "CONTENT_LENGTH/stream>max_content_length => RequestEntityTooLarge (nothing read past the limit); "
        "success under limits => result == result without limits")
PER_CHECK_FAILS = 4
CRLF = b"\r\n"
BIG = 10 ** 6

# --------------------------------------------------------------------------- probe


class _State:
    maxbuf = 0
    probe_ok = False


_ORIG_DECODER = fp.MultipartDecoder


class _ProbeDecoder(_ORIG_DECODER):  # type: ignore[misc,valid-type]
    """records len(buffer) after every receive_data (observation point named by the property)"""

    def receive_data(self, data):
        super().receive_data(data)
        n = len(self.buffer)
        if n > _State.maxbuf:
            _State.maxbuf = n


def _install_probe():
    fp.MultipartDecoder = _ProbeDecoder
    _State.probe_ok = True


def _remove_probe():
    fp.MultipartDecoder = _ORIG_DECODER
    _State.probe_ok = False


# --------------------------------------------------------------------------- bodies


def mpart(kind, name, payload, filename=b"f.bin", extra=b""):
    return {"kind": kind, "name": name, "payload": payload, "filename": filename, "extra": extra}


def build(parts, boundary=b"b", preamble=b""):
    """-> (body, meta) meta: fields [(name, size)], nparts, hold (largest undelimited stretch the decoder
    has to keep: preamble + first delimiter line, or delimiter line + header block + blank line)"""
    out = bytearray(preamble)
    hold = 0
    first = True
    for p in parts:
        delim = (CRLF if (not first or preamble) else b"") + b"--" + boundary + CRLF
        cd = b"Content-Disposition: form-data; name=" + p["name"]
        if p["kind"] == "file":
            cd += b"; filename=" + p["filename"]
        hdr = cd + CRLF + p["extra"]
        block = delim + hdr + CRLF
        hold = max(hold, len(block) + (len(preamble) if first else 0))
        out += delim + hdr
        if p["payload"] is not None:
            out += CRLF + p["payload"]
        first = False
    out += (CRLF if (not first or preamble) else b"") + b"--" + boundary + b"--" + CRLF
    if first:
        hold = len(out)
    fields = [[p["name"].decode(), len(p["payload"] or b"")] for p in parts if p["kind"] == "field"]
    benign = all((b"--" + boundary) not in (p["payload"] or b"") for p in parts)
    meta = {"fields": fields, "nparts": len(parts), "hold": hold + len(CRLF + b"--" + boundary + b"--" + CRLF),
            "benign": benign, "multipart": True, "boundary": boundary}
    return bytes(out), meta


def bodies(tier):
    th = tier == "thorough"
    out = []

    def add(tag, parts, **kw):
        body, meta = build(parts, **kw)
        meta["tag"] = tag
        out.append((body, meta))

    add("empty", [])
    for n in ((0, 1, 8, 40, 80) if not th else (0, 1, 2, 8, 9, 40, 80, 200)):
        add("field%d" % n, [mpart("field", b"a", b"v" * n)])
    add("file+field", [mpart("file", b"f", b"x" * 40), mpart("field", b"a", b"v" * 8)])
    add("field+file", [mpart("field", b"a", b"v" * 8), mpart("file", b"f", b"x" * 40)])
    add("file_lines", [mpart("file", b"f", b"line\r\n" * 8), mpart("field", b"a", b"w\r\nx\r\ny")])
    # uploads much larger than the fields: the memory limit must not count file bytes
    add("bigfile_x", [mpart("field", b"a", b"v" * 8), mpart("file", b"f", b"x" * 220), mpart("field", b"b", b"w" * 5)])
    add("bigfile_lines", [mpart("file", b"f", b"0123456789\r\n" * 18), mpart("field", b"a", b"v" * 8)])
    add("many_small", [mpart("field", b"k%d" % (i % 3), b"%d" % i) for i in range(6)])
    add("many_mixed", [mpart("field" if i % 2 else "file", b"k", b"z" * i) for i in range(5)])
    add("three_fields", [mpart("field", b"a", b"1" * 8), mpart("field", b"b", b"2" * 9), mpart("field", b"a", b"3" * 7)])
    add("bodyless", [mpart("field", b"a", None), mpart("file", b"f", None), mpart("field", b"b", b"")])
    add("field_multiline", [mpart("field", b"a", b"ab\r\ncd\r\n\r\nef\ngh\rij")])
    for ch, nm in ((b"\r", "cr"), (b"\n", "lf"), (CRLF, "crlf"), (b"-", "dash")):
        add("field_run_" + nm, [mpart("field", b"a", ch * 24)])
        add("file_run_" + nm, [mpart("file", b"f", ch * 24), mpart("field", b"a", b"v")])
    add("huge_header", [mpart("field", b"a", b"v" * 4, extra=b"X-Pad: " + b"p" * 90 + CRLF)])
    add("huge_header_file", [mpart("file", b"f", b"x" * 4, extra=b"X-Pad: " + b"p" * 90 + CRLF),
                             mpart("field", b"a", b"v" * 4)])
    add("preamble", [mpart("field", b"a", b"v" * 8)], preamble=b"P" * 60)
    add("lookalike_file", [mpart("file", b"f", b"\n--b" + b"y" * 50), mpart("field", b"a", b"v" * 3)])
    add("lookalike_field", [mpart("field", b"a", b"\r\n--bx" + b"y" * 20)])
    add("long_boundary", [mpart("field", b"a", b"v" * 12), mpart("file", b"f", b"x" * 12)],
        boundary=b"----WebKitFormBoundary7MA4YWxkTrZu0gW")
    # no delimiter at all / never-ending preamble
    for tag, raw in (("nodelim_z", b"z" * 80), ("nodelim_crlf", CRLF * 40), ("nodelim_dash", b"-" * 80),
                     ("nodelim_lf", b"\n" * 80)):
        out.append((raw, {"fields": [], "nparts": 0, "hold": len(raw), "benign": False, "multipart": True,
                          "boundary": b"b", "tag": tag, "invalid": True}))
    if th:
        add("field500", [mpart("field", b"a", b"v" * 500), mpart("file", b"f", b"x" * 700)])
        add("parts40", [mpart("field", b"k%d" % i, b"v") for i in range(40)])
    return out


def url_bodies(tier):
    out = []
    for tag, pairs in (("u_empty", []), ("u_one20", [(b"a", 20)]), ("u_two", [(b"a", 3), (b"b", 9)]),
                       ("u_many", [(b"k%d" % i, 1) for i in range(8)]), ("u_blank", [(b"a", 0), (b"b", 0)])):
        raw = b"&".join(k + b"=" + b"v" * n for k, n in pairs)
        out.append((raw, {"fields": [[k.decode(), n] for k, n in pairs], "nparts": len(pairs), "hold": len(raw),
                          "benign": True, "multipart": False, "boundary": None, "tag": tag}))
    return out


# --------------------------------------------------------------------------- drivers


class CountingStream:
    """wsgi.input: read(n) returns at most k bytes per call; counts calls and bytes handed out"""

    def __init__(self, data, k=None):
        self.data, self.pos, self.k = data, 0, k
        self.reads = 0
        self.nbytes = 0

    def read(self, n=-1):
        self.reads += 1
        if n is None or n < 0:
            n = len(self.data) - self.pos  # read() without a size must return everything up to EOF
        elif self.k:
            n = min(n, self.k)
        out = self.data[self.pos:self.pos + n]
        self.pos += len(out)
        self.nbytes += len(out)
        return out


def _norm(form, files):
    fields = [[k, v] for k, v in form.items(multi=True)]
    fl = []
    for k, f in files.items(multi=True):
        f.stream.seek(0)
        fl.append([k, f.filename, f.stream.read()])
        f.close()
    return [fields, fl]


def _outcome(fn):
    try:
        return ("ok", fn())
    except RequestEntityTooLarge:
        return ("413", None)
    except Exception as e:  # noqa: BLE001
        return ("error:" + type(e).__name__, None)


def declared_length(body, cl):
    """cl: True = honest CONTENT_LENGTH; "short" = the client declares 3 bytes less than it sends"""
    return max(len(body) - 3, 0) if cl == "short" else len(body)


def make_environ(body, meta, cl, term, k):
    st = CountingStream(body, k)
    env = {"wsgi.input": st, "REQUEST_METHOD": "POST", "wsgi.url_scheme": "http", "SERVER_NAME": "x",
           "SERVER_PORT": "80", "PATH_INFO": "/", "QUERY_STRING": "", "SCRIPT_NAME": ""}
    if meta["multipart"]:
        env["CONTENT_TYPE"] = 'multipart/form-data; boundary="%s"' % meta["boundary"].decode()
    else:
        env["CONTENT_TYPE"] = "application/x-www-form-urlencoded"
    if cl:
        env["CONTENT_LENGTH"] = str(declared_length(body, cl))
    if term:
        env["wsgi.input_terminated"] = True
    return env, st


def run_pfd(body, meta, cl, term, k, M, P, L, silent=False):
    """parse_form_data; -> (outcome, reads, nbytes, maxbuf)"""
    env, st = make_environ(body, meta, cl, term, k)
    _State.maxbuf = 0

    def go():
        _, form, files = fp.parse_form_data(env, max_form_memory_size=M, max_content_length=L, max_form_parts=P,
                                            silent=silent)
        return _norm(form, files)
    oc = _outcome(go)
    return oc, st.reads, st.nbytes, _State.maxbuf


def run_request(body, meta, cl, term, k, M, P, L):
    env, st = make_environ(body, meta, cl, term, k)
    _State.maxbuf = 0

    class R(Request):
        max_form_memory_size = M
        max_form_parts = P
        max_content_length = L

    def go():
        r = R(env)
        return _norm(r.form, r.files)
    oc = _outcome(go)
    return oc, st.reads, st.nbytes, _State.maxbuf


def run_mpp(body, meta, bs, M, P):
    """MultiPartParser with an explicit buffer_size"""
    _State.maxbuf = 0

    def go():
        form, files = fp.MultiPartParser(max_form_memory_size=M, max_form_parts=P, buffer_size=bs).parse(
            io.BytesIO(body), meta["boundary"], len(body))
        return _norm(form, files)
    oc = _outcome(go)
    return oc, _State.maxbuf


def run_decoder(body, boundary, cuts, M, P):
    """MultipartDecoder fed along `cuts`; checks the receive_data model on the way.
    -> (outcome(parts), model_violation or None, maxbuf, nparts_events)"""
    d = MultipartDecoder(boundary, max_form_memory_size=M, max_parts=P)
    pos = [0] + list(cuts) + [len(body)]
    chunks = [body[a:b] for a, b in zip(pos, pos[1:])] + [None]
    parts = []
    viol = None
    maxbuf = 0
    nev = 0
    try:
        for ch in chunks:
            before = len(d.buffer)
            should_raise = ch is not None and M is not None and before + len(ch) > M
            try:
                d.receive_data(ch)
            except RequestEntityTooLarge:
                if not should_raise and viol is None:
                    viol = ("spurious raise", before, len(ch or b""))
                raise
            if should_raise and viol is None:
                viol = ("no raise", before, len(ch))
            after = len(d.buffer)
            maxbuf = max(maxbuf, after)
            if ch is not None and after != before + len(ch) and viol is None:
                viol = ("buffer length", before, len(ch), after)
            while True:
                ev = d.next_event()
                if isinstance(ev, (NeedData, Epilogue)):
                    break
                if isinstance(ev, (Field, File)):
                    nev += 1
                    parts.append([type(ev).__name__, ev.name, bytearray()])
                elif isinstance(ev, Data):
                    parts[-1][2] += ev.data
            if isinstance(ev, Epilogue):
                break
        oc = ("ok", [[a, b, bytes(c)] for a, b, c in parts])
    except RequestEntityTooLarge:
        oc = ("413", None)
    except Exception as e:  # noqa: BLE001
        oc = ("error:" + type(e).__name__, None)
    return oc, viol, maxbuf, nev


# --------------------------------------------------------------------------- tally


class Local:
    def __init__(self):
        self.evals = 0
        self.distinct = set()
        self.fails = {}
        self.c01_interference = 0
        self.q = ""

    def case(self, check, key, nontrivial=True, n=1):
        check += self.q
        self.evals += n
        if nontrivial:
            self.distinct.add((check, hashlib.blake2b(repr(key).encode(), digest_size=8).digest()))

    def fail(self, check, inp, observed, expected):
        check += self.q
        lst = self.fails.setdefault(check, [])
        if len(lst) < PER_CHECK_FAILS:
            lst.append((inp, observed, expected))

    def pack(self):
        return self.evals, self.distinct, self.fails, self.c01_interference


# --------------------------------------------------------------------------- the oracle for one high-level run


def judge(L: Local, entry, body, meta, cfg, oc, unl, reads, nbytes, maxbuf, chunk, body_repr=None):
    """cfg: dict(M,P,Lim,cl,term,k/bs); oc: outcome under limits; unl: outcome of the same run without limits"""
    M, P, Lim = cfg["M"], cfg["P"], cfg["L"]
    cl, term = cfg.get("cl", True), cfg.get("term", False)
    n = len(body)
    inp = dict(cfg)
    inp.update({"entry": entry, "body": body if body_repr is None else body_repr, "meta": meta})
    key = (entry, hashlib.blake2b(body, digest_size=8).digest(), tuple(sorted((k, repr(v)) for k, v in cfg.items())))
    nontrivial = (M is not None or P is not None or Lim is not None)
    body_is_read = cl or term  # otherwise werkzeug substitutes an empty stream
    fmax = max([s for _, s in meta["fields"]], default=0)
    nparts = meta["nparts"]
    if unl[0] == "ok" and meta["multipart"]:
        # what this chunking makes of the body without limits is the reference for "how many parts / how large a
        # field the limits get to see" (keeps the C01 chunk-dependence defects from being reported here)
        seen = len(unl[1][0]) + len(unl[1][1])
        seen_fmax = max([len(v.encode("utf-8")) for _, v in unl[1][0]], default=0)
        if seen != nparts or seen_fmax != fmax:
            L.c01_interference += 1
            nparts = seen
            fmax_spurious = max(fmax, seen_fmax)
            fmax = min(fmax, seen_fmax)
        else:
            fmax_spurious = fmax
    else:
        fmax_spurious = fmax
    status = oc[0]
    if not meta["multipart"]:
        # input class in the check name (known findings are keyed by it)
        L.q = ":urlencoded" + ("+shortCL" if cl == "short" else "+CL" if cl else "-CL") + ("+terminated" if term else "")
    else:
        L.q = ""

    # guard purity
    L.case("guard_purity", key, nontrivial)
    if status == "ok" and (unl[0] != "ok" or oc[1] != unl[1]):
        L.fail("guard_purity", inp, oc, unl)

    # only 413
    L.case("only_413", key, nontrivial)
    if status not in ("ok", "413") and unl[0] == "ok":
        L.fail("only_413", inp, oc, "ok (== unlimited) or 413")

    # field limit
    if M is not None and body_is_read and not meta.get("invalid"):
        L.case("field_limit", key, fmax > 0)
        if status == "ok":
            got_sizes = [len(v.encode("utf-8")) for _, v in oc[1][0]]
            if any(s > M for s in got_sizes) or (fmax > M and unl[0] == "ok"):
                L.fail("field_limit", inp, {"outcome": oc, "field_bytes": got_sizes, "M": M}, "413 (a field exceeds M)")
        elif fmax > M and status != "413" and unl[0] == "ok":
            L.fail("field_limit", inp, oc, "413 (a field exceeds M)")

    # parts limit
    if P is not None and body_is_read and meta["multipart"] and not meta.get("invalid"):
        L.case("parts_limit", key, meta["nparts"] > 0)
        if status == "ok":
            cnt = len(oc[1][0]) + len(oc[1][1])
            if cnt > P or nparts > P:
                L.fail("parts_limit", inp, {"outcome": oc, "parts": cnt, "P": P}, "413 (more parts than allowed)")
        elif nparts > P and status != "413" and unl[0] == "ok":
            L.fail("parts_limit", inp, oc, "413 (more parts than allowed)")

    # content length / stream maximum
    if Lim is not None and reads is not None:
        L.case("content_length", key, True)
        if cl and declared_length(body, cl) > Lim:
            if status != "413" or reads != 0:
                L.fail("content_length", inp, {"outcome": oc, "reads": reads, "bytes": nbytes},
                       "413 before reading anything (declared length > max_content_length)")
        elif term:
            if nbytes > Lim:
                L.fail("content_length", inp, {"outcome": oc, "bytes_read": nbytes},
                       "at most max_content_length bytes read from a terminated stream")
            if n > Lim and status != "413":
                L.fail("content_length", inp, {"outcome": oc, "bytes_read": nbytes}, "413 (stream longer than maximum)")

    # buffer bound
    if M is not None and maxbuf is not None and meta["multipart"] and _State.probe_ok:
        L.case("buffer_bound", key, True)
        if maxbuf > M:
            L.fail("buffer_bound", inp, {"max_len_buffer": maxbuf, "M": M, "outcome": oc}, "len(buffer) <= M always")

    # no spurious 413
    if unl[0] == "ok":
        fits_m = (M is None or M >= n or (
            meta["multipart"] and meta["benign"] and chunk is not None and M >= chunk + meta["hold"] + 8
            and fmax_spurious <= M))
        fits_p = P is None or P >= max(nparts, meta["nparts"]) or not meta["multipart"]
        if Lim is None or not body_is_read:
            fits_l = True
        elif term:
            fits_l = Lim > n
        else:
            fits_l = Lim >= n and cl is True
        if fits_m and fits_p and fits_l:
            L.case("no_spurious_413", key, nontrivial)
            if status == "413":
                L.fail("no_spurious_413", inp, oc, "ok: no configured limit is exceeded")


# --------------------------------------------------------------------------- tasks

# (CONTENT_LENGTH: True honest / False absent / "short" = 3 bytes less than sent, wsgi.input_terminated)
ENVS = [(True, False), (True, True), (False, True), (False, False), ("short", True)]


def task_product(args):
    """the quantifier's product: M x P x L in {None, small, exact, large} x environ shape x read size"""
    tier, idx, entry = args
    L = Local()
    allb = bodies(tier) + url_bodies(tier)
    body, meta = allb[idx]
    n = len(body)
    fmax = max([s for _, s in meta["fields"]], default=0)
    np_ = meta["nparts"]
    Ms = [None, max(fmax - 1, 0), fmax, n + 64]
    Ps = [None, max(np_ - 1, 0), np_, 1000]
    Ls = [None, max(n - 1, 0), n, n + 1, BIG]
    ks = [1, 3, 16, None] if tier == "quick" else [1, 2, 3, 7, 16, 64, None]
    runner = run_pfd if entry == "parse_form_data" else run_request
    for cl, term in ENVS:
        if cl == "short" and not meta["multipart"]:
            # an understated CONTENT_LENGTH is outside the quantifier's domain; it is used for multipart bodies
            # only, as an extra probe that a terminated stream is capped by max_content_length (see FINDINGS_C10)
            continue
        for k in ks:
            unl = runner(body, meta, cl, term, k, None, None, None)[0]
            for M, P, Lim in itertools.product(Ms, Ps, Ls):
                if M is None and P is None and Lim is None:
                    continue
                oc, reads, nbytes, maxbuf = runner(body, meta, cl, term, k, M, P, Lim)
                cfg = {"M": M, "P": P, "L": Lim, "cl": cl, "term": term, "k": k}
                judge(L, entry, body, meta, cfg, oc, unl, reads, nbytes, maxbuf, k if k else n)
    return L.pack()


def task_mgrid(args):
    """every M in 0..len+1 x buffer sizes (MultiPartParser) : where exactly the guards fire"""
    tier, idx = args
    L = Local()
    body, meta = bodies(tier)[idx]
    n = len(body)
    bss = [1, 2, 3, 5, 8, 13, 21, n, n + 1, 64 * 1024] if tier == "quick" else list(range(1, 34)) + [n, n + 1, 64 * 1024]
    step = 1 if n <= 400 else 7
    for bs in bss:
        unl = run_mpp(body, meta, bs, None, None)[0]
        for M in list(range(0, n + 2, step)) + [BIG]:
            oc, maxbuf = run_mpp(body, meta, bs, M, None)
            cfg = {"M": M, "P": None, "L": None, "bs": bs}
            judge(L, "MultiPartParser", body, meta, cfg, oc, unl, None, None, maxbuf, min(bs, n))
        for P in range(0, meta["nparts"] + 2):
            oc, maxbuf = run_mpp(body, meta, bs, None, P)
            cfg = {"M": None, "P": P, "L": None, "bs": bs}
            judge(L, "MultiPartParser", body, meta, cfg, oc, unl, None, None, maxbuf, min(bs, n))
    return L.pack()


def task_decoder(args):
    """MultipartDecoder: every 2-way split (and byte-at-a-time, fixed-size chunkings) x M grid x max_parts"""
    tier, idx = args
    L = Local()
    body, meta = bodies(tier)[idx]
    n = len(body)
    bd = meta["boundary"]
    fmax = max([s for _, s in meta["fields"]], default=0)
    scheds = [[i] for i in range(0, n + 1)] if n <= 260 else [[i] for i in range(0, n + 1, 5)]
    for size in (1, 2, 3, 7):
        scheds.append(list(range(size, n, size)))
    Ms = sorted({0, 1, 2, 3, max(fmax - 1, 0), fmax, fmax + 1, meta["hold"] - 1, meta["hold"], n // 2, n - 1, n, n + 1})
    if tier == "thorough":
        Ms = sorted(set(Ms) | set(range(0, min(n + 2, 130))))
    Pvals = list(range(0, meta["nparts"] + 2))
    for cuts in scheds:
        unl, _, _, _ = run_decoder(body, bd, cuts, None, None)
        # parts this schedule yields without limits (differs from the generator only through C01's defects)
        nparts = len(unl[1]) if unl[0] == "ok" else meta["nparts"]
        if nparts != meta["nparts"]:
            L.c01_interference += 1
        for M, P in [(m, None) for m in Ms if m >= 0] + [(None, p) for p in Pvals] + [(n, meta["nparts"]), (1, 0)]:
            oc, viol, maxbuf, nev = run_decoder(body, bd, cuts, M, P)
            key = (body, tuple(cuts), M, P)
            inp = {"entry": "MultipartDecoder", "body": body, "boundary": bd, "cuts": cuts, "M": M, "P": P}
            nontriv = True
            L.case("receive_model", key, nontriv)
            if viol is not None:
                L.fail("receive_model", inp, viol, "raise iff len(buffer)+len(chunk) > M; buffer grows by len(chunk)")
            if M is not None:
                L.case("buffer_bound", key, nontriv)
                if maxbuf > M:
                    L.fail("buffer_bound", inp, {"max_len_buffer": maxbuf, "M": M}, "len(buffer) <= M always")
            if P is not None and not meta.get("invalid"):
                L.case("parts_limit", key, nontriv)
                if nev > P or (oc[0] == "ok" and nparts > P) or (
                        nparts > P and oc[0] != "413" and unl[0] == "ok"):
                    L.fail("parts_limit", inp, {"outcome": oc, "part_events": nev, "P": P},
                           "at most P Field/File events; 413 when the body has more")
                L.case("no_spurious_413", key, nontriv)
                if M is None and P >= max(nparts, meta["nparts"]) and oc[0] == "413":
                    L.fail("no_spurious_413", inp, oc, "ok: parts <= max_parts")
            L.case("guard_purity", key, nontriv)
            if oc[0] == "ok" and oc != unl:
                L.fail("guard_purity", inp, oc, unl)
            L.case("only_413", key, nontriv)
            if oc[0] not in ("ok", "413") and unl[0] == "ok":
                L.fail("only_413", inp, oc, "ok or 413")
    return L.pack()


def task_defaults(args):
    """thorough: the request-level defaults (500 kB per field / buffer, 1000 parts)"""
    (which,) = args
    import shutil
    import tempfile
    tmp = tempfile.mkdtemp(prefix="c10-")
    old = tempfile.tempdir
    tempfile.tempdir = tmp  # uploads above 500 kB are spooled to disk by the parser: keep them in a private dir
    try:
        return _defaults(which)
    finally:
        tempfile.tempdir = old
        shutil.rmtree(tmp, ignore_errors=True)


def _default_cases(which):
    cases = []
    if which == 0:
        cases.append(("parts1000", [mpart("field", b"k", b"v") for _ in range(1000)]))
        cases.append(("parts1001", [mpart("field", b"k", b"v") for _ in range(1001)]))
        cases.append(("files1001", [mpart("file", b"k", b"v") for _ in range(1001)]))
    elif which == 1:
        cases.append(("field500000", [mpart("field", b"a", b"v" * 500_000)]))
        cases.append(("field500001", [mpart("field", b"a", b"v" * 500_001)]))
    else:
        cases.append(("file600000", [mpart("file", b"f", (b"x" * 99 + b"\n") * 6000), mpart("field", b"a", b"v" * 10)]))
        cases.append(("nodelim600000", None))
    out = []
    for tag, parts in cases:
        if parts is None:
            body = b"z" * 600_000
            meta = {"fields": [], "nparts": 0, "hold": len(body), "benign": False, "multipart": True,
                    "boundary": b"b", "tag": tag, "invalid": True}
        else:
            body, meta = build(parts, boundary=b"bnd")
            meta["tag"] = tag
        out.append((tag, body, meta))
    return out


def _default_one(L, tag, body, meta, cl, term, k):
    n = len(body)
    env, st = make_environ(body, meta, cl, term, k)
    _State.maxbuf = 0
    r = Request(env)
    oc = _outcome(lambda: _norm(r.form, r.files))
    maxbuf = _State.maxbuf
    env2, _ = make_environ(body, meta, cl, term, k)

    class RU(Request):
        max_form_memory_size = None
        max_form_parts = None
    r2 = RU(env2)
    unl = _outcome(lambda: _norm(r2.form, r2.files))
    cfg = {"M": 500_000, "P": 1000, "L": None, "cl": cl, "term": term, "k": k}
    judge(L, "Request(defaults)", body, dict(meta), cfg, oc, unl, st.reads, st.nbytes, maxbuf,
          k if k else 64 * 1024, body_repr=body[:120] + b"...(%d bytes, tag %s)" % (n, tag.encode()))


def _defaults(which):
    L = Local()
    for tag, body, meta in _default_cases(which):
        for cl, term in ((True, False), (False, True)):
            for k in (None, 4096):
                _default_one(L, tag, body, meta, cl, term, k)
    return L.pack()


def _dispatch(t):
    name, args = t
    return globals()[name](args)


def _tasks(tier):
    nb = len(bodies(tier))
    nu = len(url_bodies(tier))
    tasks = []
    for i in range(nb + nu):
        tasks.append(("task_product", (tier, i, "parse_form_data")))
    for i in range(nb + nu):
        if tier == "thorough" or i % 3 == 0 or i >= nb:
            tasks.append(("task_product", (tier, i, "Request")))
    for i in range(nb):
        tasks.append(("task_mgrid", (tier, i)))
        tasks.append(("task_decoder", (tier, i)))
    if tier == "thorough":
        for w in range(3):
            tasks.append(("task_defaults", (w,)))
    return tasks


def _domain(tier):
    th = tier == "thorough"
    return (
        "%d multipart bodies (CRLF framing; 0 parts; one field of %s bytes; field/file mixes; 220-byte uploads next to small fields; 6 small parts; "
        "body-less parts; multi-line field; runs of 24 CR / LF / CRLF / '-' as field and as file; a 97-byte extra "
        "header; 60-byte preamble; boundary look-alikes followed by a long line; 37-byte boundary; 4 bodies without "
        "any delimiter%s) + 5 urlencoded bodies; parse_form_data%s: max_form_memory_size in {None, Fmax-1, Fmax, "
        "len+64} x max_form_parts in {None, n-1, n, 1000} x max_content_length in {None, len-1, len, len+1, 10^6} x "
        "{CONTENT_LENGTH yes/no} x {wsgi.input_terminated yes/no} (+ multipart only: terminated stream with a CONTENT_LENGTH 3 "
        "bytes short) x read sizes %s; MultiPartParser: every M in "
        "0..len+1 and every max_form_parts in 0..n+1 x buffer_size in %s; MultipartDecoder: every 2-way split, "
        "byte-at-a-time and chunks of 2,3,7 x M in {0..3, Fmax-1..Fmax+1, header block size -1/+0, len/2, len-1..len+1}%s "
        "x max_parts in 0..n+1.%s"
        % (len(bodies(tier)), "0,1,2,8,9,40,80,200" if th else "0,1,8,40,80",
           "; 500-byte field + 700-byte file; 40 parts" if th else "",
           " and Request subclass (all bodies)" if th else " and Request subclass (every third body + urlencoded)",
           "{1,2,3,7,16,64,all}" if th else "{1,3,16,all}",
           "{1..33, len, len+1, 65536}" if th else "{1,2,3,5,8,13,21,len,len+1,65536}",
           " and every M in 0..129" if th else "",
           " Request defaults: 1000 / 1001 parts, 500000 / 500001-byte field, 600 kB file, 600 kB without delimiter."
           if th else ""))


def run(tier: str, seed: int, reg=None) -> dict:
    common.assert_tree()
    col = common.Collector(RULE, _domain(tier))
    fails = {}
    interference = 0
    _install_probe()
    try:
        ctx = multiprocessing.get_context("fork")
        with ctx.Pool(min(16, os.cpu_count() or 1)) as pool:
            for evals, distinct, f, ci in pool.imap_unordered(_dispatch, _tasks(tier), chunksize=1):
                interference += ci
                col.evaluations += evals
                col.distinct |= distinct
                for check, lst in f.items():
                    fails.setdefault(check, []).extend(lst)
    finally:
        _remove_probe()
    per = max(1, min(PER_CHECK_FAILS, col.max_failures // max(1, len(fails))))
    for check in sorted(fails):
        lst = sorted(fails[check], key=lambda x: (len(x[0]["body"]), repr(x[0])))
        for inp, obs, exp in lst[:per]:
            col.fail(check, inp, obs, exp)
    b0, m0 = bodies(tier)[1]
    col.samples = [{"check": "field_limit", "input": common._j({"entry": "parse_form_data", "body": b0, "M": 0})}]
    res = col.result()
    res["failing_checks_capped_per_task"] = {k: len(v) for k, v in sorted(fails.items())}
    res["runs_where_unlimited_parse_differs_from_generator"] = interference
    return res


def replay(payload: dict) -> bool:
    common.assert_tree()
    full_check = payload["obligation"].split(":", 1)[1]
    check = full_check.split(":", 1)[0]
    inp = common.unj(payload["inputs"])
    L = Local()
    _install_probe()
    try:
        entry, body = inp["entry"], inp["body"]
        if entry == "MultipartDecoder":
            # re-run the single decoder case through the same code path
            M, P, cuts, bd = inp["M"], inp["P"], inp["cuts"], inp["boundary"]
            unl, _, _, _ = run_decoder(body, bd, cuts, None, None)
            oc, viol, maxbuf, nev = run_decoder(body, bd, cuts, M, P)
            if check == "receive_model":
                return viol is not None
            if check == "buffer_bound":
                return M is not None and maxbuf > M
            if check == "guard_purity":
                return oc[0] == "ok" and oc != unl
            if check == "only_413":
                return oc[0] not in ("ok", "413") and unl[0] == "ok"
            if check == "no_spurious_413":
                return oc[0] == "413"
            if check == "parts_limit":
                return nev > P or (oc[0] != "413" and unl[0] == "ok")
            raise ValueError(check)
        meta = inp["meta"]
        meta["fields"] = [list(f) for f in meta["fields"]]
        M, P, Lim = inp["M"], inp["P"], inp["L"]
        n = len(body)
        if entry == "MultiPartParser":
            bs = inp["bs"]
            unl = run_mpp(body, meta, bs, None, None)[0]
            oc, maxbuf = run_mpp(body, meta, bs, M, P)
            judge(L, entry, body, meta, {"M": M, "P": P, "L": None, "bs": bs}, oc, unl, None, None, maxbuf, min(bs, n))
        elif entry in ("parse_form_data", "Request"):
            runner = run_pfd if entry == "parse_form_data" else run_request
            cl, term, k = inp["cl"], inp["term"], inp["k"]
            unl = runner(body, meta, cl, term, k, None, None, None)[0]
            oc, reads, nbytes, maxbuf = runner(body, meta, cl, term, k, M, P, Lim)
            judge(L, entry, body, meta, {"M": M, "P": P, "L": Lim, "cl": cl, "term": term, "k": k}, oc, unl, reads,
                  nbytes, maxbuf, k if k else n)
        elif entry == "Request(defaults)":
            import shutil
            import tempfile
            tmp = tempfile.mkdtemp(prefix="c10-")
            old = tempfile.tempdir
            tempfile.tempdir = tmp
            try:
                for w in range(3):
                    for tag, body, m2 in _default_cases(w):
                        if tag == meta["tag"]:
                            _default_one(L, tag, body, m2, inp["cl"], inp["term"], inp["k"])
            finally:
                tempfile.tempdir = old
                shutil.rmtree(tmp, ignore_errors=True)
        else:
            raise ValueError("unknown entry " + entry)
        return any(k.split(":", 1)[0] == check for k in L.fails)
    finally:
        _remove_probe()
